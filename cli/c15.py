"""C15 -- each file is formatted with the configuration the documented search finds.

Runtime monitor: generated directory trees (configuration files of both names below / at / above the
working directory, XDG / HOME locations, .editorconfig files) are handed to the real `stylua` binary
in write mode (or through stdin); the bytes it leaves on disk / prints are compared with the library's
output (`sv libfmt`) under the configuration that a small model of the README section "Finding the
configuration" and of the option help predicts. Every configuration file sets a distinct
`indent_width` with `indent_type = "Spaces"`, so the configuration that was really applied can be
read off the output and named in the finding.
"""
import posixpath

import clilib
import cfgmodel as M

PROP = "C15"

META = {
    "level": "exploration",
    "rule": ("Pinned (identical for every seed): exhaustive placement grid -- every subset of {above cwd, cwd, "
             "intermediate directory, the file's directory} holding a configuration file (names stylua.toml / "
             ".stylua.toml / both in one directory, rotated) x target shape {relative file, absolute file, directory, "
             "`.`, --stdin-filepath, plain stdin} x {default, --search-parent-directories}; every subset of the four "
             "XDG/HOME locations; --config-path spellings; every subset of four command-line overrides over three kinds "
             "of found configuration; .editorconfig placements / sections / root=true / --no-editorconfig; all orders of "
             "explicit targets at three depths (memo stress); a pinned `..` sub-family and a pinned "
             "editorconfig-versus-override sub-family. Seeded: random trees (depth <= 4) with configuration files of "
             "either name at random levels, .editorconfig files, XDG/HOME files, random target lists (relative, "
             "./-prefixed, absolute, directories, stdin) and random flag subsets. A case is distinct by its files + cwd "
             "+ argv; it is non-trivial when, for at least one judged file, another configuration present in the tree "
             "(or the defaults) would have given different bytes than the configuration the model selects. Also pinned: user-level locations with targets outside the working directory (absolute file, directory, --stdin-filepath) with and without -s; linked files, directories and configuration files."),
    "assumptions": [
        "model written from README 'Finding the configuration' and the --help texts; when both names exist in one "
        "directory the model takes the one the documentation mentions first (stylua.toml)",
        ".editorconfig semantics follow the EditorConfig specification (nearest file wins, later sections win, "
        "root=true stops); property -> option mapping as tabulated in src/editorconfig.rs; an .editorconfig above the "
        "working directory is documented by neither source and is observed but not judged",
        "stdin without --stdin-filepath is treated as a Lua file located in the working directory",
        "a target outside the working directory is only generated in the pinned `..` sub-family",
        "sv libfmt (Config built from Rust enum variants directly) is the reference for 'the library's output'",
    ],
}

CWD = "up1/up2/proj"
WIDTHS = [1, 2, 3, 5, 6, 7, 8, 9, 10, 11, 12, 13, 14, 15, 16, 17, 18, 19]


class Builder:
    """Collects the files of one case and hands out distinct indent widths."""

    def __init__(self, family, cwd=CWD):
        self.files = {}
        self.cwd = cwd
        self.family = family
        self.w = 0
        self.k = 0
        self.env = {}

    def width(self):
        self.w += 1
        return WIDTHS[(self.w - 1) % len(WIDTHS)] + 20 * ((self.w - 1) // len(WIDTHS))

    def at(self, d, name):
        d = posixpath.normpath(posixpath.join(self.cwd, d)) if not d.startswith("@") and d != "/" else d
        if d == "/":
            d = ""
        if d == ".":
            d = ""
        return (d + "/" if d and not d.endswith("/") else d) + name

    def toml(self, d, kind="stylua.toml", extra=None, path=None):
        """kind: 'stylua.toml' | '.stylua.toml' | 'both' (both: two files, two widths)"""
        names = M.CONFIG_NAMES if kind == "both" else [kind]
        for n in names:
            s = {"indent_type": "Spaces", "indent_width": self.width()}
            if extra:
                s.update(extra)
            self.files[path or self.at(d, n)] = M.toml_text(s)

    def ec(self, d, sections=None, root=False):
        if sections is None:
            sections = [("*", {"indent_style": "space", "indent_size": str(self.width())})]
        self.files[self.at(d, ".editorconfig")] = M.editorconfig_text(sections, root=root)

    def lua(self, rel):
        self.k += 1
        self.files[self.at(posixpath.dirname(rel), posixpath.basename(rel))] = M.lua_probe(self.k)

    def case(self, argv, stdin=None, tag="", dirs=None):
        c = {"prop": PROP, "family": self.family, "tag": tag, "files": dict(self.files), "cwd": self.cwd,
             "argv": list(argv), "env": dict(self.env), "stdin": stdin}
        if dirs:
            c["dirs"] = list(dirs)
        return c


ABS = M.ROOT_TOKEN + "/" + CWD

# ------------------------------------------------------------------------------------------------
# pinned families
# ------------------------------------------------------------------------------------------------

LEVELS = ["above", "cwd", "mid", "leaf"]
LEVEL_DIR = {"above": "..", "cwd": ".", "mid": "a", "leaf": "a/b"}
NAME_KINDS = ["stylua.toml", ".stylua.toml", "both"]
SHAPES = ["file-rel", "file-abs", "dir", "dot", "stdin-filepath", "stdin"]


def _targets(shape):
    if shape == "file-rel":
        return ["a/b/t.lua"], None
    if shape == "file-abs":
        return [ABS + "/a/b/t.lua"], None
    if shape == "dir":
        return ["a"], None
    if shape == "dot":
        return ["."], None
    if shape == "stdin-filepath":
        return ["--stdin-filepath", "a/b/zz.lua", "-"], M.lua_probe(900)
    return ["-"], M.lua_probe(901)


def fam_placement(tier):
    cases = []
    n = 0
    namings = [None] if tier == "quick" else [None, "stylua.toml", ".stylua.toml", "both"]
    for naming in namings:
        for mask in range(16):
            for shape in SHAPES:
                for sflag in (False, True):
                    b = Builder("placement")
                    for i, lv in enumerate(LEVELS):
                        if mask >> i & 1:
                            n += 1
                            b.toml(LEVEL_DIR[lv], naming or NAME_KINDS[n % 3])
                    for f in ("t0.lua", "a/t1.lua", "a/b/t.lua", "d/t2.lua"):
                        b.lua(f)
                    tg, stdin = _targets(shape)
                    argv = (["--search-parent-directories"] if sflag else []) + tg
                    cases.append(b.case(argv, stdin, tag=f"mask{mask}:{shape}:{'s' if sflag else '-'}:{naming or 'rot'}"))
    return cases


XDG_LOCS = ["@xdg/", "@xdg/stylua/", "@home/.config/", "@home/.config/stylua/"]


def fam_xdg(tier):
    cases = []
    n = 0
    for mask in range(16):
        for sflag, above, unset in ((True, False, False), (False, False, False), (True, True, False), (True, False, True)):
            if (above or unset) and mask not in (1, 2, 4, 8, 5, 10, 15):
                continue
            b = Builder("xdg-home")
            for i, loc in enumerate(XDG_LOCS):
                if mask >> i & 1:
                    n += 1
                    b.toml(None, path=loc + M.CONFIG_NAMES[n % 2])
            if above:
                b.toml("/", ".stylua.toml")  # at the tree root, three levels above cwd
            if unset:
                b.env["XDG_CONFIG_HOME"] = None
            b.lua("t0.lua")
            b.lua("a/t1.lua")
            argv = (["-s"] if sflag else []) + [".", ] if n % 2 else (["-s"] if sflag else []) + ["a/t1.lua", "t0.lua"]
            cases.append(b.case(argv, tag=f"xdgmask{mask}:{'s' if sflag else '-'}:{'above' if above else ''}:{'unset' if unset else ''}"))
            # the same search with every candidate directory present (those without a configuration
            # file are empty directories): an empty directory is not a configuration
            if sflag and not above:
                cases.append(b.case(argv, tag=f"xdgmask{mask}:s:emptydirs:{'unset' if unset else ''}",
                                    dirs=[loc.rstrip("/") for loc in XDG_LOCS if loc.rstrip("/") not in ("@xdg",)]))
    # a target that is not below the working directory is walked up to the root of the file system; without -s the
    # user-level locations are still not consulted (and with -s they are)
    for mask in (1, 2, 4, 8, 15):
        for sflag in (False, True):
            for shape in ("abs-file", "abs-dir", "stdin-filepath"):
                b = Builder("xdg-home")
                for i, loc in enumerate(XDG_LOCS):
                    if mask >> i & 1:
                        n += 1
                        b.toml(None, path=loc + M.CONFIG_NAMES[n % 2])
                b.lua("t0.lua")
                b.k += 1
                b.files["up1/elsewhere/lib/t9.lua"] = M.lua_probe(b.k)
                out = M.ROOT_TOKEN + "/up1/elsewhere"
                argv = {"abs-file": [out + "/lib/t9.lua", "t0.lua"], "abs-dir": [out], "stdin-filepath": ["--stdin-filepath", out + "/lib/zz.lua", "-"]}[shape]
                c = b.case((["-s"] if sflag else []) + argv, stdin=M.lua_probe(905) if shape == "stdin-filepath" else None,
                           tag=f"xdgmask{mask}:{'s' if sflag else '-'}:outside-cwd:{shape}")
                cases.append(c)
    # the same targets with a configuration file at each level of their own ancestry: the target's directory, below /
    # at / above the deepest directory they share with the working directory, the root of the tree
    for li, loc in enumerate(("up1/elsewhere/lib", "up1/elsewhere", "up1", "")):
        for shape in ("abs-file", "abs-dir", "stdin-filepath"):
            for second in (None, "up1") if loc in ("", "up1/elsewhere") else (None,):
                b = Builder("outside-cwd")
                b.toml(None, path=(loc + "/" if loc else "") + M.CONFIG_NAMES[li % 2])
                if second is not None and second != loc:
                    b.toml(None, path=second + "/" + M.CONFIG_NAMES[(li + 1) % 2])
                b.lua("t0.lua")
                b.k += 1
                b.files["up1/elsewhere/lib/t9.lua"] = M.lua_probe(b.k)
                out = M.ROOT_TOKEN + "/up1/elsewhere"
                argv = {"abs-file": [out + "/lib/t9.lua", "t0.lua"], "abs-dir": [out], "stdin-filepath": ["--stdin-filepath", out + "/lib/zz.lua", "-"]}[shape]
                cases.append(b.case(argv, stdin=M.lua_probe(906) if shape == "stdin-filepath" else None,
                                    tag=f"outside-cwd:cfg@{loc or 'root'}{'+' + second if second else ''}:{shape}"))
    return cases


def fam_config_path(tier):
    cases = []
    spellings = [["--config-path", "conf/custom.toml"], ["-f", "conf/custom.toml"], ["--config-path=conf/custom.toml"],
                 ["--config-path", ABS + "/conf/custom.toml"], ["--config-path", "./conf/../conf/custom.toml"]]
    for i, sp in enumerate(spellings):
        for j, (tg, stdin) in enumerate(([["a/b/t.lua", "t0.lua"], None], [["."], None],
                                         [["--stdin-filepath", "a/b/zz.lua", "-"], M.lua_probe(902)], [["-"], M.lua_probe(903)])):
            b = Builder("config-path")
            b.toml(None, path=CWD + "/conf/custom.toml", extra={"quote_style": "ForceSingle"})
            if (i + j) % 2 == 0:
                b.toml("a/b", "stylua.toml")
                b.toml(".", ".stylua.toml")
            else:
                b.ec(".")
            for f in ("t0.lua", "a/b/t.lua"):
                b.lua(f)
            extra = ["--search-parent-directories"] if (i + j) % 3 == 0 else []
            cases.append(b.case(sp + extra + tg, stdin, tag=f"cfgpath{i}:{j}"))
    # a config file with a standard name, outside the search path, named explicitly
    b = Builder("config-path")
    b.toml("..", "stylua.toml")
    b.toml(".", "stylua.toml")
    b.lua("t0.lua")
    cases.append(b.case(["--config-path", "../stylua.toml", "t0.lua"], tag="cfgpath-above"))
    return cases


OVERRIDES = [["--indent-width", "4"], ["--quote-style", "ForceSingle"], ["--call-parentheses", "None"], ["--column-width", "30"]]


def fam_overrides(tier):
    cases = []
    for kind in ("toml-cwd", "config-path", "none", "toml-leaf-dot"):
        for mask in range(16):
            b = Builder("overrides")
            extra = {"quote_style": "ForceDouble", "call_parentheses": "NoSingleTable", "column_width": 100}
            argv = []
            if kind == "toml-cwd":
                b.toml(".", "stylua.toml", extra=extra)
            elif kind == "toml-leaf-dot":
                b.toml("a/b", ".stylua.toml", extra=extra)
            elif kind == "config-path":
                b.toml(None, path=CWD + "/conf/c.toml", extra=extra)
                argv += ["--config-path", "conf/c.toml"]
            b.lua("t0.lua")
            b.lua("a/b/t.lua")
            for i, ov in enumerate(OVERRIDES):
                if mask >> i & 1:
                    argv += ov if (mask + i) % 2 else [ov[0] + "=" + ov[1]]
            if mask % 4 == 3:
                cases.append(b.case(argv + ["-"], M.lua_probe(904), tag=f"ov:{kind}:{mask}:stdin"))
            else:
                cases.append(b.case(argv + (["."] if mask % 2 else ["a/b/t.lua", "t0.lua"]), tag=f"ov:{kind}:{mask}"))
    return cases


def fam_editorconfig(tier):
    cases = []

    def add(tag, build, argv, stdin=None):
        b = Builder("editorconfig")
        for f in ("t0.lua", "a/t1.lua", "a/b/t.lua", "a/b/n.txt"):
            b.lua(f)
        build(b)
        cases.append(b.case(argv, stdin, tag=tag))

    sp = lambda w: {"indent_style": "space", "indent_size": str(w)}
    for argv, stdin, tg in ((["."], None, "dot"), (["a/b/t.lua", "t0.lua"], None, "files"), (["a/b/n.txt"], None, "txt"),
                            (["--stdin-filepath", "a/b/zz.lua", "-"], M.lua_probe(905), "stdin-fp"), (["-"], M.lua_probe(906), "stdin")):
        add("ec-cwd:" + tg, lambda b: b.ec("."), argv, stdin)
        add("ec-cwd+leaf:" + tg, lambda b: (b.ec("."), b.ec("a/b")), argv, stdin)
        add("ec-cwd+leaf-root:" + tg, lambda b: (b.ec(".", [("*", dict(sp(b.width()), quote_type="single"))]),
                                                 b.ec("a/b", [("*", sp(b.width()))], root=True)), argv, stdin)
        add("ec-sections:" + tg, lambda b: b.ec(".", [("*", sp(b.width())), ("*.txt", sp(b.width())), ("*.lua", sp(b.width()))]), argv, stdin)
        add("ec-sections-rev:" + tg, lambda b: b.ec(".", [("*.lua", sp(b.width())), ("*", dict(sp(b.width()), quote_type="single"))]), argv, stdin)
        add("ec-nonmatching:" + tg, lambda b: b.ec(".", [("*.md", sp(b.width()))]), argv, stdin)
        add("ec-disabled:" + tg, lambda b: b.ec("."), ["--no-editorconfig"] + argv, stdin)
        add("ec+toml-cwd:" + tg, lambda b: (b.ec("a/b"), b.toml(".", ".stylua.toml")), argv, stdin)
        add("ec+toml-above:" + tg, lambda b: (b.ec("."), b.toml("..", "stylua.toml")), argv, stdin)
        add("ec+toml-above-s:" + tg, lambda b: (b.ec("."), b.toml("..", "stylua.toml")), ["-s"] + argv, stdin)
        add("ec-above(unspecified):" + tg, lambda b: b.ec(".."), argv, stdin)
        add("ec-above-shadowed-by-root:" + tg, lambda b: (b.ec(".."), b.ec(".", [("*", sp(b.width()))], root=True)), argv, stdin)
        add("ec-other-keys:" + tg, lambda b: b.ec(".", [("*", {"quote_type": "single", "call_parentheses": "None", "max_line_length": "40",
                                                               "end_of_line": "crlf", "indent_style": "space", "indent_size": "tab",
                                                               "tab_width": "3"})]), argv, stdin)
        add("ec+nonoverlapping-override:" + tg, lambda b: b.ec("."), ["--quote-style", "ForceSingle", "--call-parentheses=None"] + argv, stdin)
    # sections that tell files of ONE directory apart: the properties belong to the file, not to its directory
    for k, argv in enumerate((["."], ["a/b"], ["a/b/gen.lua", "a/b/t.lua", "a/b/u.luau"], ["a/b/u.luau", "a/b/t.lua", "a/b/gen.lua"],
                              ["a/b/t.lua", "a/b", "t0.lua"], ["--num-threads", "1", "a/b"])):
        for where in (".", "a/b"):
            b = Builder("editorconfig")
            for f in ("t0.lua", "gen.lua", "a/t1.lua", "a/b/t.lua", "a/b/gen.lua", "a/b/u.luau", "a/b/n.txt"):
                b.lua(f)
            b.ec(where, [("*.lua", sp(b.width())), ("gen.lua", dict(sp(b.width()), quote_type="single")), ("*.luau", sp(b.width()))])
            cases.append(b.case(argv, None, tag=f"ec-per-file:{where}:{k}"))
    return cases


def fam_memo(tier):
    import itertools
    cases = []
    targets = ["a/b/c/t.lua", "a/t1.lua", "t0.lua", "a/b/t2.lua"]
    patterns = [["."], ["a"], ["a/b/c"], [".", "a/b/c"], ["a", "a/b"], [], ["a/b"], ["..", "a/b/c"]]
    perms = list(itertools.permutations(range(4)))
    pick = perms if tier != "quick" else [perms[i] for i in (0, 5, 9, 14, 18, 23)]
    for pi, pat in enumerate(patterns):
        for perm in pick:
            b = Builder("memo-order")
            for i, d in enumerate(pat):
                b.toml(d, NAME_KINDS[(pi + i) % 3])
            for f in targets:
                b.lua(f)
            argv = [targets[i] for i in perm]
            if sum(perm[:2]) % 2:
                argv = ["./" + x for x in argv]
            cases.append(b.case((["-s"] if pi == 7 else []) + argv, tag=f"memo:{pi}:{''.join(map(str, perm))}"))
    return cases


def fam_dotdot(tier):
    """ALL paths containing `..` live here (pinned): known defect class D7."""
    cases = []

    def add(tag, cfg_dirs, argv, cwd=CWD, files=("d.lua", "sub/x.lua", "other/e.lua")):
        b = Builder("dotdot", cwd=CWD)
        for d in cfg_dirs:
            b.toml(d, "stylua.toml")
        for f in files:
            b.lua(f)
        c = b.case(argv, tag=tag)
        c["cwd"] = cwd
        cases.append(c)

    add("sub/../d.lua:cfg=sub", ["sub"], ["sub/../d.lua"])
    add("sub/../d.lua:cfg=sub+cwd", ["sub", "."], ["sub/../d.lua"])
    add("sub/../other/e.lua:cfg=sub", ["sub"], ["sub/../other/e.lua"])
    add("sub/../sub/x.lua:cfg=sub", ["sub"], ["sub/../sub/x.lua"])
    add("other/../sub/x.lua:cfg=other", ["other"], ["other/../sub/x.lua", "d.lua"])
    add("dir sub/..:cfg=sub", ["sub"], ["sub/.."])
    add("cwd=sub ../other/e.lua:cfg=sub", ["sub"], ["../other/e.lua"], cwd=CWD + "/sub")
    add("cwd=sub ../other/e.lua:cfg=sub+other", ["sub", "other"], ["../other/e.lua"], cwd=CWD + "/sub")
    add("stdin-filepath sub/../d.lua:cfg=sub", ["sub"], ["--stdin-filepath", "sub/../d.lua", "-"])
    cases[-1]["stdin"] = M.lua_probe(907)
    if tier != "quick":
        add("abs sub/../d.lua:cfg=sub", ["sub"], [ABS + "/sub/../d.lua"])
        add("./sub/../d.lua:cfg=sub", ["sub"], ["./sub/../d.lua", "sub/x.lua"])
        add("sub/../d.lua -s:cfg=sub+above", ["sub", ".."], ["-s", "sub/../d.lua"])
        add("sub/deep/../../d.lua:cfg=sub/deep", ["sub/deep"], ["sub/deep/../../d.lua"], files=("d.lua", "sub/deep/y.lua"))
    return cases


def fam_ec_vs_override(tier):
    """Pinned: a command-line format option whose option is ALSO set by the applicable .editorconfig."""
    cases = []
    pairs = [({"indent_style": "space", "indent_size": "6"}, ["--indent-width", "2"]),
             ({"indent_style": "space", "indent_size": "6"}, ["--indent-type", "Tabs"]),
             ({"quote_type": "single"}, ["--quote-style", "ForceDouble"]),
             ({"max_line_length": "200"}, ["--column-width", "30"]),
             ({"end_of_line": "crlf"}, ["--line-endings", "Unix"]),
             ({"call_parentheses": "None"}, ["--call-parentheses", "Always"]),
             ({"collapse_simple_statement": "Always"}, ["--collapse-simple-statement", "Never"]),
             ({"space_after_function_names": "Always"}, ["--space-after-function-names", "Never"]),
             ({"sort_requires": "false"}, ["--sort-requires"])]
    for i, (kv, ov) in enumerate(pairs):
        b = Builder("ec-vs-override")
        b.ec(".", [("*", kv)])
        b.lua("t0.lua")
        b.files[b.at(".", "c.lua")] = COLLAPSE_PROBE
        if i % 3 == 2:
            cases.append(b.case(ov + ["-"], COLLAPSE_PROBE + M.lua_probe(908), tag="ecov:" + ov[0]))
        else:
            cases.append(b.case(ov + (["."] if i % 2 else ["t0.lua", "c.lua"]), tag="ecov:" + ov[0]))
    return cases


COLLAPSE_PROBE = ("local b = require('b')\nlocal a = require(\"a\")\n"
                  "local function  f (x) return x end\nif a then return end\nf  (1)\n")

# ------------------------------------------------------------------------------------------------
# seeded family
# ------------------------------------------------------------------------------------------------

DIR_POOL = ["a", "a/b", "a/b/c", "d", "d/e", "a/g"]
EXTRA_SETTINGS = [{"quote_style": "AutoPreferSingle"}, {"quote_style": "ForceSingle"}, {"call_parentheses": "None"},
                  {"call_parentheses": "NoSingleString"}, {"column_width": 40}, {"line_endings": "Windows"},
                  {"sort_requires": True}, {"syntax": "Lua51"}, {"collapse_simple_statement": "Always"}]
SEED_OVERRIDES = [("indent_width", ["--indent-width", "4"]), ("indent_type", ["--indent-type", "tabs"]),
                  ("quote_style", ["--quote-style", "forcedouble"]), ("quote_style", ["--quote-style", "AutoPreferSingle"]),
                  ("call_parentheses", ["--call-parentheses", "NoSingleTable"]), ("column_width", ["--column-width", "50"]),
                  ("line_endings", ["--line-endings", "WINDOWS"]), ("syntax", ["--syntax", "luau"]),
                  ("collapse_simple_statement", ["--collapse-simple-statement", "ConditionalOnly"]),
                  ("space_after_function_names", ["--space-after-function-names", "Calls"]), ("sort_requires", ["--sort-requires"])]


def seeded_case(rng, idx):
    depth = rng.below(3) + 1
    cwd = "/".join(["up1", "up2", "up3"][:depth] + ["proj"]) if rng.chance(5, 6) else "proj"
    b = Builder("seeded", cwd=cwd)
    dirs = ["."] + [d for d in DIR_POOL if rng.chance(2, 3)]
    dirs = [d for d in dirs if d == "." or posixpath.dirname(d) in dirs or posixpath.dirname(d) == ""]
    lua_files = []
    for d in dirs:
        for n in range(1 + rng.below(2)):
            f = posixpath.normpath(posixpath.join(d, f"m{n}.lua"))
            b.lua(f)
            lua_files.append(f)
    # configuration files: below / at cwd
    for d in dirs:
        if rng.chance(1, 3):
            kind = rng.pick(NAME_KINDS)
            if rng.chance(1, 12):
                b.files[b.at(d, rng.pick(M.CONFIG_NAMES))] = ""  # an empty file is a valid configuration: all defaults
            else:
                b.toml(d, kind, extra=rng.pick(EXTRA_SETTINGS) if rng.chance(1, 2) else None)
    # above cwd
    up = ".."
    for _ in range(depth if cwd != "proj" else 0):
        if rng.chance(1, 3):
            b.toml(up, rng.pick(NAME_KINDS), extra=rng.pick(EXTRA_SETTINGS) if rng.chance(1, 3) else None)
        up += "/.."
    for loc in XDG_LOCS:
        if rng.chance(1, 6):
            b.toml(None, path=loc + rng.pick(M.CONFIG_NAMES))
    empty_dirs = [loc.rstrip("/") for loc in XDG_LOCS[1:] if rng.chance(1, 4)]
    # .editorconfig files (only indentation + quote keys; overrides are kept disjoint, see sanitise)
    ec_dirs = [d for d in dirs if rng.chance(1, 4)] + ([".."] if cwd != "proj" and rng.chance(1, 8) else [])
    for d in ec_dirs:
        secs = []
        for g in rng.sample(["*", "*.lua", "*.txt", "*.{lua,luau}"], 1 + rng.below(2)):
            kv = {"indent_style": "space", "indent_size": str(b.width())}
            if rng.chance(1, 4):
                kv["quote_type"] = rng.pick(["single", "double"])
            secs.append((g, kv))
        b.ec(d, secs, root=rng.chance(1, 5))
    # flags
    argv = []
    if rng.chance(1, 3):
        argv.append(rng.pick(["-s", "--search-parent-directories"]))
    if rng.chance(1, 6):
        argv.append("--no-editorconfig")
    if rng.chance(1, 8):
        cands = [p for p in b.files if p.endswith(".toml") and not p.startswith("@")]
        if not cands or rng.chance(1, 2):
            b.toml(None, path=cwd + "/conf/my.toml", extra=rng.pick(EXTRA_SETTINGS))
            cands = [cwd + "/conf/my.toml"]
        p = rng.pick(cands)
        if M.is_under(p, cwd):
            rel = M.rel_to(p, cwd)
            argv += ["--config-path", rng.pick([rel, "./" + rel, M.ROOT_TOKEN + "/" + p])]
        else:
            argv += ["--config-path", M.ROOT_TOKEN + "/" + p]
    seen_opts = set()
    for opt, ov in rng.shuffle(SEED_OVERRIDES)[:rng.below(4)]:
        if opt not in seen_opts:
            seen_opts.add(opt)
            argv += ov
    # targets
    mode = rng.below(10)
    stdin = None
    if mode == 0:
        argv += ["-"]
        stdin = M.lua_probe(950 + idx % 40)
    elif mode == 1:
        d = rng.pick(dirs)
        fp = posixpath.normpath(posixpath.join(d, rng.pick(["m0.lua", "nonexistent.lua"])))
        argv += ["--stdin-filepath", rng.pick([fp, "./" + fp, M.ROOT_TOKEN + "/" + cwd + "/" + fp]), "-"]
        stdin = M.lua_probe(950 + idx % 40)
    else:
        style = rng.pick(["plain", "dot", "abs"])
        cands = []
        if mode in (2, 3, 4):
            cands = rng.sample(lua_files, min(len(lua_files), 1 + rng.below(4)))
        elif mode in (5, 6):
            cands = rng.sample([d for d in dirs if d != "."] or ["."], 1) + rng.sample(lua_files, rng.below(3))
        else:
            cands = ["."] if style != "plain" or rng.chance(1, 2) else [d for d in dirs if d != "."][:2] or ["."]
        if "." in cands and style == "plain" and len(cands) > 1:
            style = "dot"
        # deeper-before-ancestor and the reverse both occur
        cands = sorted(set(cands), key=lambda p: (p.count("/"), p), reverse=rng.chance(1, 2)) if rng.chance(2, 3) else rng.shuffle(sorted(set(cands)))
        for p in cands:
            if style == "plain":
                argv.append(p)
            elif style == "dot":
                argv.append(p if p == "." else "./" + p)
            else:
                argv.append(M.ROOT_TOKEN + "/" + cwd + ("" if p == "." else "/" + p))
    c = b.case(argv, stdin, tag=f"seeded#{idx}", dirs=empty_dirs)
    return sanitise(c)


def sanitise(case):
    """Keep the seeded family away from the trigger of the known defect class
    'editorconfig-outranks-cli-override': drop overrides of options that an applicable .editorconfig sets."""
    for _ in range(4):
        args = M.parse_argv(case["argv"])
        clash = set()
        for fp, _via in selected_files(case, args):
            mc = M.model_config(case, args, fp)
            if mc["rule"] == "editorconfig" or mc["unspecified"]:
                tf = M.tree_files(case)
                _, touched = M.apply_editorconfig(M.defaults(), M.editorconfig_properties(tf, fp))
                clash |= touched & set(args.overrides)
        if not clash:
            return case
        argv = []
        i = 0
        a = case["argv"]
        while i < len(a):
            opt = M.OPT_OF_FLAG.get(a[i])
            if opt in clash:
                i += 1 if opt == "sort_requires" else 2
                continue
            argv.append(a[i])
            i += 1
        case["argv"] = argv
    return case


# ------------------------------------------------------------------------------------------------
# model of what is formatted (C15 trees have no ignore files / hidden entries) and the judge
# ------------------------------------------------------------------------------------------------

def selected_files(case, args):
    """[(path relative to the tree root, shape)] -- for stdin: the (possibly virtual) path whose directory
    governs the search."""
    cwd = case["cwd"]
    tf = M.tree_files(case)
    if args.stdin:
        if args.stdin_filepath is not None:
            return [(M.norm_rel(cwd, args.stdin_filepath), "stdin-filepath")]
        return [((cwd + "/" if cwd else "") + "stdin.lua", "stdin")]
    out = {}
    ds = M.dirs_of(tf)
    for t in args.targets:
        p = M.norm_rel(cwd, t)
        shape = "abs" if t.startswith(M.ROOT_TOKEN) else ("dotslash" if t.startswith("./") or t == "." else "rel")
        if ".." in t.split("/"):
            shape += "+dotdot"
        if p in tf:
            out.setdefault(p, "file-" + shape)
        elif p in ds:
            for f in sorted(tf):
                if M.is_under(f, p) and f != p and (f.endswith(".lua") or f.endswith(".luau")) \
                        and not any(seg.startswith(".") for seg in M.rel_to(f, p).split("/")):
                    out.setdefault(f, "dir-" + shape)
    return sorted(out.items())


def flags_code(args):
    return "".join(c for c, on in (("s", args.search_parents), ("f", args.config_path is not None),
                                   ("n", args.no_editorconfig), ("o", bool(args.overrides))) if on) or "-"


def candidates(case, args, fp):
    """Other configurations present in the case: [(label, cfg)] for attribution and non-triviality."""
    cwd = case["cwd"]
    fd = posixpath.dirname(fp)
    out = [("default", dict(M.defaults(), **args.overrides)), ("default-without-overrides", M.defaults())]
    for p, text in sorted(case["files"].items()):
        if not p.endswith(".toml"):
            continue
        try:
            s = M.parse_toml_subset(text)
        except ValueError:
            continue
        d = posixpath.dirname(p)
        if p.startswith(M.XDG_PREFIX):
            loc = "xdg"
        elif p.startswith(M.HOME_PREFIX):
            loc = "home"
        elif d == fd:
            loc = "file-dir"
        elif d == cwd:
            loc = "cwd"
        elif M.is_under(fd, d) and M.is_under(d, cwd):
            loc = "between"
        elif M.is_under(cwd, d):
            loc = "above-cwd"
        elif M.is_under(fd, d):
            loc = "ancestor-outside-cwd"
        else:
            loc = "non-ancestor"
        name = "dot" if posixpath.basename(p).startswith(".") else "plain"
        out.append((f"toml.{loc}.{name}", dict(M.defaults(), **dict(s, **args.overrides))))
        if args.overrides:
            out.append((f"toml.{loc}.{name}-without-overrides", dict(M.defaults(), **s)))
    tf = M.tree_files(case)
    props = M.editorconfig_properties(tf, fp)
    if props:
        c, _ = M.apply_editorconfig(M.defaults(), props)
        out.append(("editorconfig", dict(c, **args.overrides)))
        c2, _ = M.apply_editorconfig(dict(M.defaults(), **args.overrides), props)
        out.append(("editorconfig-over-overrides", c2))
        if M.is_under(fp, cwd):
            c3, _ = M.apply_editorconfig(M.defaults(), M.editorconfig_properties(tf, fp, stop_dir=cwd))
            out.append(("editorconfig-bounded-by-cwd", dict(c3, **args.overrides)))
    return out


def judge(case, o, acc):
    """-> list of findings for this one execution (also appended to acc)."""
    found = []
    if not M.check_harness(acc, case, o):
        return found
    try:
        args = M.parse_argv(case["argv"])
    except ValueError as e:
        acc.incon("model: " + str(e))
        return found
    acc.evaluations += 1
    fam = case.get("family", "?")
    acc.count("family." + fam)
    fl = flags_code(args)
    acc.count("flags." + fl)
    for opt in args.overrides:
        acc.count("override." + opt)
    sel = selected_files(case, args)
    before, after = o.before, o.after
    nontrivial = False
    judged_any = False

    def report(oracle, sig, detail):
        f = {"oracle": oracle, "signature": sig, "detail": detail}
        found.append(f)
        acc.finding(oracle, sig, detail, case)

    if o.rc != 0:
        sig = f"C15:exit-status:{fam if fam in ('dotdot', 'ec-vs-override') else 'any'}:{fl}"
        report("exit-status", sig, f"write-mode run over parseable files ended with status {o.rc}; stderr: {M.clip(o.err, 300)}")
        return found

    expected_after = dict(before)
    for fp, shape in sel:
        if fp is None:
            acc.incon("target outside the tree")
            continue
        mc = M.model_config(case, args, fp)
        acc.count("shape." + shape)
        if mc["unspecified"]:
            acc.count("unspecified." + mc["unspecified"])
        else:
            acc.count("rule." + mc["rule"])
            if mc["source"]:
                acc.count("name." + posixpath.basename(mc["source"]))
                d = posixpath.dirname(mc["source"])
                if all((d + "/" if d else "") + n in case["files"] for n in M.CONFIG_NAMES):
                    acc.count("both-names-in-chosen-dir")
        stdin_mode = shape.startswith("stdin")
        src = case.get("stdin") if stdin_mode else before.get(fp)
        if src is None:
            acc.incon("selected file missing from snapshot: " + fp)
            continue
        if isinstance(src, bytes):
            src = src.decode("utf-8")
        ref = M.ref_format(src, mc["cfg"])
        if ref[0] != "ok":
            acc.incon(f"reference could not format the probe under {mc['cfg']}: {ref[0]}")
            continue
        got = o.out if stdin_mode else after.get(fp, b"").decode("utf-8", "replace")
        if not stdin_mode:
            expected_after[fp] = ref[1].encode("utf-8")
        # which other configurations would have been distinguishable?
        cands = candidates(case, args, fp)
        outs = []
        for label, c in cands:
            r = M.ref_format(src, c)
            outs.append((label, r[1] if r[0] == "ok" else None))
        if mc["unspecified"]:
            which = [label for label, t in outs if t == got]
            acc.count("unspecified." + mc["unspecified"] + ".observed=" + (which[0] if which else "other"))
            continue
        judged_any = True
        if any(t is not None and t != ref[1] for _, t in outs):
            nontrivial = True
        if got != ref[1]:
            which = [label for label, t in outs if t == got]
            applied = which[0] if which else "unknown"
            kind, n = M.indent_of_first_nested_line(got)
            if fam == "dotdot" and which:
                sig = "C15:lexical-dotdot"
            elif fam == "ec-vs-override" and "editorconfig-over-overrides" in which:
                sig = "C15:editorconfig-outranks-cli-override"
            else:
                sig = f"C15:{mc['rule']}:{shape}:{fl}:got={applied}" + (":" + fam if fam in ("dotdot", "ec-vs-override") else "")
            cfgs_opened = [p for p in o.opened if p.endswith(".toml") or p.endswith(".editorconfig")]
            report("config-search", sig,
                   f"{'stdout' if stdin_mode else fp} differs from the library output under the configuration the documented search "
                   f"selects (rule {mc['rule']}, source {mc['source']}, cfg {mc['cfg']}); the bytes equal the library output under: "
                   f"{which or 'none of the configurations in the tree'}; first nested line indented by {n} {kind}; configuration "
                   f"files opened by the process: {cfgs_opened}; argv {case['argv']} cwd {case['cwd']}; expected {M.clip(ref[1], 200)!r} "
                   f"got {M.clip(got, 200)!r}")
    # every other file keeps its bytes
    if judged_any or not sel:
        for p in sorted(set(before) | set(after)):
            if not args.stdin and any(p == fp for fp, _ in sel):
                continue
            if before.get(p) != after.get(p):
                report("untouched", f"C15:other-file-changed:{fl}", f"{p} is not a target but its bytes changed; argv {case['argv']}")
                break
    if nontrivial and not found:
        acc.nontrivial.add(M.case_key(case))
    elif nontrivial:
        acc.count("nontrivial-but-failing")
    if not found:
        acc.sample(case, {"rc": o.rc, "rules": sorted({M.model_config(case, args, fp)["rule"] for fp, _ in sel if fp})})
    return found


# ------------------------------------------------------------------------------------------------
# entry points
# ------------------------------------------------------------------------------------------------

def build_cases(tier, seed):
    pinned = []
    for fam in (fam_placement, fam_xdg, fam_config_path, fam_overrides, fam_editorconfig, fam_memo, fam_dotdot, fam_ec_vs_override):
        pinned += fam(tier)
    rng = clilib.Rng(seed)
    n = 150 if tier == "quick" else 8000
    seeded = [seeded_case(rng, i) for i in range(n)]
    return pinned, seeded


def symlink_leg(acc):
    """A target reached through a symbolic link (a linked file, or a file below a linked directory)
    takes the configuration nearest to the path it was GIVEN as, not the one next to the link target.
    Direct oracle: the bytes of the link target afterwards = the library's output under that
    configuration."""
    probe = M.lua_probe(951)
    near = {"indent_type": "Spaces", "indent_width": 2, "quote_style": "AutoPreferSingle"}
    far = {"indent_type": "Spaces", "indent_width": 6}
    want_near = M.ref_format(probe, clilib.cfg(**near))[1].encode()
    want_default = M.ref_format(probe, clilib.cfg())[1].encode()
    scenarios = [
        ("linked-file", {CWD + "/a/stylua.toml": M.toml_text(near), CWD + "/b/stylua.toml": M.toml_text(far), CWD + "/b/real.lua": probe},
         {CWD + "/a/link.lua": "../b/real.lua"}, ["a/link.lua"], CWD + "/b/real.lua", want_near),
        ("linked-directory-outside-cwd", {CWD + "/stylua.toml": M.toml_text(near), "up1/up2/shared/mod.lua": probe},
         {CWD + "/vendor": "../shared"}, ["vendor/mod.lua"], "up1/up2/shared/mod.lua", want_near),
        ("linked-file-no-config-at-link", {CWD + "/b/stylua.toml": M.toml_text(far), CWD + "/b/real.lua": probe},
         {CWD + "/a/link.lua": "../b/real.lua"}, ["a/link.lua"], CWD + "/b/real.lua", want_default),
    ]
    # the configuration file itself is a symbolic link to a file kept elsewhere
    scenarios.append(("linked-configuration", {CWD + "/stylua.toml": M.toml_text(far), CWD + "/shared/team.toml": M.toml_text(near), CWD + "/app/src/x.lua": probe},
                      {CWD + "/app/stylua.toml": "../shared/team.toml"}, ["app/src/x.lua"], CWD + "/app/src/x.lua", want_near))
    scenarios.append(("linked-dot-configuration", {CWD + "/shared/team.toml": M.toml_text(near), CWD + "/tool/y.lua": probe},
                      {CWD + "/tool/.stylua.toml": "../shared/team.toml"}, ["tool"], CWD + "/tool/y.lua", want_near))
    for tag, files, links, argv, target, want in scenarios:
        case = {"prop": PROP, "family": "symlink", "tag": tag, "files": files, "links": links, "cwd": CWD, "argv": argv, "env": {}, "stdin": None}
        o = M.run_case(case, strace=False)
        if o.harness_error or o.timed_out:
            acc.incon(f"symlink leg: {o.harness_error or 'timeout'}")
            continue
        acc.count("symlink_leg.runs")
        got = o.after.get(target)
        if o.rc != 0 or got != want:
            acc.finding("symlink-config", f"C15:symlink:{tag}", f"[{tag}] argv {argv}: exit {o.rc}; {target} is {None if got is None else got[:120]!r}, expected {want[:120]!r}", case)


def run(tier, seed):
    acc = M.Acc(PROP)
    if not clilib.strace_available():
        acc.incon("strace unavailable: attribution by opened configuration files is missing (verdicts unaffected)")
    pinned, seeded = build_cases(tier, seed)
    cases = pinned + seeded
    acc.items_total = len(cases)
    acc.count("cases.pinned", len(pinned))
    acc.count("cases.seeded", len(seeded))
    B = 400
    try:
        for i in range(0, len(cases), B):
            chunk = cases[i:i + B]
            for c, o in zip(chunk, M.run_many(chunk, strace=clilib.strace_available())):
                judge(c, o, acc)
        symlink_leg(acc)
    finally:
        M.ref_close()
    return acc.result()


def replay(case):
    acc = M.Acc(PROP)
    try:
        if case.get("family") == "symlink":
            symlink_leg(acc)
            return [f for f in acc.findings if f["case"].get("tag") == case.get("tag")]
        o = M.run_case(case, strace=clilib.strace_available())
        return judge(case, o, acc)
    finally:
        M.ref_close()
