"""C09, command-line leg: `--range-start` / `--range-end` reach the library as given.

The library part of C09 (harness/src/props/c09.rs) decides what a range may touch. This leg closes
the remaining gap between the property and its users: the CLI must hand the library exactly the
range the user wrote — one bound alone, both bounds, bounds beyond the text — for file arguments
(the file on disk afterwards) and for stdin (stdout). Oracle: the library's own answer for that
(text, configuration, range), from `sv libfmt`.
"""
import os

import clilib
import c17lib as L

PROGRAMS = [
    "local   a  =  1\nlocal b   =   2\nlocal   c =  3\n",
    "local function   f( x )\n   return   x+1\nend\nlocal   t  = { 1,2,\n 3 }\nprint( f( t[1] ) )\n",
    "if   a   then\n  b  =  1\nelse\n    c   = 2\nend\nwhile  x  do\n y( )\nend\nreturn   1\n",
    "-- head\nlocal   a = 1 -- one\n\n\nlocal   b = 2\n-- tail   \n\n",
]


def _cases(tier, seed):
    rng = clilib.Rng(seed * 1000003 + 9)
    cases = []
    for pi, text in enumerate(PROGRAMS):
        n = len(text)
        # statement starts = offsets of line starts that begin a top-level statement (good enough
        # here: the oracle is the library's answer for the same numbers, whatever they hit)
        marks = sorted({0, n // 3, n // 2, 2 * n // 3, n - 1, n, n + 7} | {i + 1 for i, ch in enumerate(text) if ch == "\n"})
        pairs = [(None, None)]
        for a in marks:
            pairs.append((a, None))
            pairs.append((None, a))
        for _ in range(6 if tier == "quick" else 40):
            a, b = rng.pick(marks), rng.pick(marks)
            pairs.append((min(a, b), max(a, b)))
        pairs.append((n // 2, 1))  # inverted
        for (s, e) in pairs:
            for how in ("file", "stdin"):
                cases.append({"program": pi, "range": [s, e], "how": how})
    if tier == "quick":
        cases = [c for k, c in enumerate(cases) if k % 3 == seed % 3 or c["range"][0] is None or c["range"][1] is None]
    return cases


def run_case(case, ref, binary=None):
    text = PROGRAMS[case["program"]]
    s, e = case["range"]
    cfg_ = clilib.cfg()
    rg = None if s is None and e is None else [s, e]
    want = ref.format(text, cfg_, rg)
    args = []
    if s is not None:
        args += ["--range-start", str(s)]
    if e is not None:
        args += ["--range-end", str(e)]
    with clilib.Scratch(prefix="sv-c09-") as sc:
        sc.write("t.lua", text.encode())
        if case["how"] == "file":
            run = clilib.run_cli(args + ["t.lua"], sc.root, sc.env({}), binary=binary)
            got = open(os.path.join(sc.root, "t.lua"), "rb").read()
        else:
            run = clilib.run_cli(args + ["-"], sc.root, sc.env({}), stdin=text.encode(), binary=binary)
            got = run.out
    findings = []
    c = {"cli_range_case": case, "argv": args}
    if run.timed_out:
        return None, c
    if want[0] == "ok":
        if run.rc != 0:
            findings.append({"oracle": "cli-range", "signature": f"C09:cli:exit:{run.rc}", "detail": f"{case}: the library accepts this range, the CLI exits {run.rc}: {run.err[:200]!r}", "case": c})
        elif got != want[1].encode():
            kind = "open-start" if s is None else ("open-end" if e is None else "both-bounds")
            findings.append({"oracle": "cli-range", "signature": f"C09:cli:{case['how']}:{kind}:differs-from-library",
                             "detail": f"{case}: the CLI result is not the library's output for the same range: {L._first_diff(got, want[1].encode())}", "case": c})
    else:
        if run.rc == 0:
            findings.append({"oracle": "cli-range", "signature": "C09:cli:accepted-what-library-rejects", "detail": f"{case}: library says {want[0]}, CLI exit 0", "case": c})
    return findings, c


def run(tier, seed):
    ref = L.Ref()
    evaluations, findings, inconclusive = 0, [], 0
    counters = {}
    try:
        for case in _cases(tier, seed):
            f, _ = run_case(case, ref)
            if f is None:
                inconclusive += 1
                continue
            evaluations += 1
            s, e = case["range"]
            k = "cli_range." + case["how"] + "." + ("none" if s is None and e is None else "start-only" if e is None else "end-only" if s is None else "both")
            counters[k] = counters.get(k, 0) + 1
            findings.extend(f)
    finally:
        ref.close()
    return evaluations, findings, inconclusive, counters


def replay(case):
    ref = L.Ref()
    try:
        f, _ = run_case(case["cli_range_case"], ref)
        return f or []
    finally:
        ref.close()
