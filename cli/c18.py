"""C18 — diffs printed by `--check` reconstruct the formatted file.

Monitor: the real `stylua --check --output-format {unified,json,summary,standard}` is run over files in
a scratch tree; the checker's own unified-diff applier and JSON line-range applier (c17lib) are applied
to the ORIGINAL bytes and the result is compared, byte for byte, with the library reference
(`sv libfmt`) for the same text under the same configuration. Summary/standard output is compared as a
set of file names with the set of files whose original differs from the reference.
"""
import concurrent.futures as cf
import time

import clilib
import c17lib as L
import svlib

META = {
    "level": "exploration",
    "rule": ("One case = a set of 1-6 files (original bytes) + format flags; every case is run once per output format "
             "(unified, json, summary, standard) with `--check`, each run is one evaluation. Pinned: every corpus file "
             "(tests/inputs*/**/*.lua that the reference accepts) x column widths as the original; originals derived "
             "from the formatted text by line-level edits (final newline removed, CRLF under --line-endings Windows and "
             "Unix, blanks on the first / last line, blanks on every k-th line = many hunks, insertion of 2-5 blank "
             "lines = pure multi-line deletions, blank-line removal, lone CR, empty / blank-only files); sort-requires "
             "block rotations (pure multi-line insertions, pinned family only); multi-file runs (attribution). Seeded: "
             "random corpus file x random width x random edit chain, random multi-file sets. A case is distinct by "
             "(hash of the file contents, flags, output format) and non-trivial when at least one file differs from "
             "its formatted text, i.e. a diff had to be printed and was applied. The pinned special cases are repeated under --color always / never for the three machine-readable formats."),
    "assumptions": [
        "`sv libfmt` (stylua_lib built from the same tree, Config built directly from Rust enum values) is the reference for 'its formatted text'",
        "a line ends at LF, CRLF or a lone CR (the three forms Lua's lexer treats as a line break); JSON line numbers are 0-based and inclusive, a mismatch with empty `original` is an insertion before original_start_line",
        "the Standard format is only judged for presence of its `Diff in <file>:` title, not reconstructed",
        "unified diffs carry no file name (`--- old`/`+++ new`), so in multi-file runs a diff is attributed to the unique file it applies to and reconstructs",
        "the exit status is observed and counted but is the subject of C13, not judged here",
    ],
}

FORMATS = ["unified", "json", "summary", "standard"]


# ------------------------------------------------------------------------------------------------
# one case
# ------------------------------------------------------------------------------------------------

def case_key(case):
    parts = [n + ":" + L.sha(L.dec(c)) for n, c in sorted(case["files"].items())]
    return L.sha("|".join(parts) + "|" + " ".join(L.flags_for(case["cfg"])) + "|" + str(case.get("stdin", "")) + "|" + " ".join(case.get("extra_args", [])))


def run_case(case, ref, timeout=120):
    """-> dict(evaluations, findings, nontrivial keys, inconclusive, notes, skipped)"""
    res = {"evaluations": 0, "findings": [], "nontrivial": [], "inconclusive": 0, "notes": [], "skipped": 0, "counters": {}}
    counters = res["counters"]
    cfg_ = clilib.cfg(**case["cfg"])
    files = {}
    for n, c in case["files"].items():
        o = L.dec(c)
        r = ref.format(o, cfg_)
        if r[0] != "ok":
            if len(case["files"]) == 1:
                res["skipped"] = 1
                return res
            continue
        files[n] = (o, r[1].encode("utf-8"))
    if not files:
        res["skipped"] = 1
        return res
    names = sorted(files)
    order = case.get("argv_order") or names
    order = [n for n in order if n in files]
    key = case_key(case)
    differs = any(o != f for o, f in files.values())
    with clilib.Scratch(prefix="sv-c18-") as s:
        for n in names:
            s.write(n, files[n][0])
        for fmt in case.get("formats", FORMATS):
            judged = files
            if case.get("stdin"):
                # the same text through stdin: the diff must still lead from what was read to the formatted text
                o0, f0 = files[names[0]]
                args = ["--check", "--output-format", fmt] + L.flags_for(case["cfg"]) + case.get("extra_args", []) \
                    + (["--stdin-filepath", names[0]] if case["stdin"] == "filepath" else []) + ["-"]
                run = clilib.run_cli(args, s.root, s.env(), stdin=o0, timeout=timeout)
                judged = {"stdin": (o0, f0)}
            else:
                args = ["--check", "--output-format", fmt] + L.flags_for(case["cfg"]) + case.get("extra_args", []) + ["--"] + order
                run = clilib.run_cli(args, s.root, s.env(), timeout=timeout)
            if run.timed_out:
                res["inconclusive"] += 1
                res["notes"].append("timeout")
                continue
            res["evaluations"] += 1
            local = {}
            probs = L.judge_check_output(fmt, run.out, judged, local)
            for k, v in local.items():
                counters[k] = counters.get(k, 0) + v
            exp_rc = 1 if differs else 0
            if run.rc != exp_rc:
                counters[f"exit_status_other_than_model.{run.rc}"] = counters.get(f"exit_status_other_than_model.{run.rc}", 0) + 1
            if differs:
                res["nontrivial"].append(key + ":" + fmt)
            else:
                counters["already_formatted_runs"] = counters.get("already_formatted_runs", 0) + 1
                if not run.out.strip() or fmt == "summary":
                    counters["already_formatted_runs.silent"] = counters.get("already_formatted_runs.silent", 0) + 1
            for oracle, sig_, detail in probs:
                c2 = dict(case)
                c2["formats"] = [fmt]
                res["findings"].append({"oracle": oracle, "signature": sig_,
                                        "detail": f"[{case.get('family')}] {detail} | stderr: {run.err[:200].decode('utf-8', 'replace')}",
                                        "case": c2})
    return res


# ------------------------------------------------------------------------------------------------
# workload
# ------------------------------------------------------------------------------------------------

def mk(family, files, cfg_=None, **kw):
    c = {"family": family, "files": {n: L.enc(b) for n, b in files.items()}, "cfg": cfg_ or {}}
    c.update(kw)
    return c


def requires_block(names, rot, nl=b"\n", header=b""):
    ls = [b'local %s = require("%s")' % (n.encode(), n.encode()) + nl for n in names]
    ls = ls[rot:] + ls[:rot]
    return header + b"".join(ls)


def pinned_d9():
    """The ONLY family that rotates require blocks under --sort-requires: pure insertions of >= 2 lines (D9)."""
    cs = []
    so = {"sort_requires": True}
    cs.append(mk("d9:rot2of4", {"f.lua": requires_block(["a", "b", "c", "d"], 2)}, so))
    cs.append(mk("d9:rot3of6", {"f.lua": requires_block(["a", "b", "c", "d", "e", "f"], 3)}, so))
    cs.append(mk("d9:rot2of5+header", {"f.lua": requires_block(["ma", "mb", "mc", "md", "me"], 3, header=b"-- header\n")}, so))
    cs.append(mk("d9:rot1of3", {"f.lua": requires_block(["a", "b", "c"], 2)}, so))  # single-line insertion: must hold
    return cs


def derived_cases(name, formatted, tier, fam="derived"):
    """Originals derived from a formatted text F by line-level edits. The reference is asked again for each
    edited text, so no assumption is made that F is a fixed point."""
    F = formatted
    cs = []
    nl = len(L.split_lines(F))
    if nl == 0:
        return cs
    cs.append(mk(f"{fam}:identity", {"f.lua": F}))
    cs.append(mk(f"{fam}:no-final-newline", {"f.lua": L.ed_strip_final_newline(F)}))
    cs.append(mk(f"{fam}:crlf->windows", {"f.lua": L.ed_crlf(F)}, {"line_endings": "Windows"}))
    cs.append(mk(f"{fam}:crlf->unix", {"f.lua": L.ed_crlf(F)}, {"line_endings": "Unix"}, formats=["unified", "json"]))
    cs.append(mk(f"{fam}:lf->windows", {"f.lua": F}, {"line_endings": "Windows"}, formats=["unified", "json"]))
    cs.append(mk(f"{fam}:first-line", {"f.lua": L.ed_space_line(F, 0)}, formats=["unified", "json"]))
    cs.append(mk(f"{fam}:last-line", {"f.lua": L.ed_space_line(F, -1)}, formats=["unified", "json"]))
    cs.append(mk(f"{fam}:last-line+no-final-newline", {"f.lua": L.ed_strip_final_newline(L.ed_space_line(F, -1))}, formats=["unified", "json"]))
    cs.append(mk(f"{fam}:first+last", {"f.lua": L.ed_space_line(L.ed_space_line(F, 0), -1)}, formats=["unified", "json"]))
    if nl >= 12:
        cs.append(mk(f"{fam}:many-hunks/9", {"f.lua": L.ed_many(F, 9, 1)}, formats=["unified", "json"]))
        cs.append(mk(f"{fam}:many-hunks/4", {"f.lua": L.ed_many(F, 4, 2)}, formats=["unified", "json"]))
        cs.append(mk(f"{fam}:many-hunks/9+crlf", {"f.lua": L.ed_crlf(L.ed_many(F, 9, 1))}, {"line_endings": "Windows"}, formats=["unified", "json"]))
    # pure deletions of >= 2 lines: blank lines added before a line
    mid = nl // 2
    cs.append(mk(f"{fam}:insert-3-blank-mid", {"f.lua": L.ed_insert_blank(F, mid, 3)}, formats=["unified", "json"]))
    cs.append(mk(f"{fam}:insert-2-blank-top", {"f.lua": L.ed_insert_blank(F, 0, 2)}, formats=["unified", "json"]))
    cs.append(mk(f"{fam}:insert-5-blank-end", {"f.lua": L.ed_insert_blank(F, nl, 5)}, formats=["unified", "json"]))
    if tier == "thorough":
        cs.append(mk(f"{fam}:insert-blank-several", {"f.lua": L.ed_insert_blank(L.ed_insert_blank(F, mid, 4), max(0, mid // 2), 2)}, formats=["unified", "json"]))
        cs.append(mk(f"{fam}:indent-first", {"f.lua": L.ed_indent_line(F, 0)}, formats=["unified", "json"]))
        cs.append(mk(f"{fam}:indent-last", {"f.lua": L.ed_indent_line(F, -1)}, formats=["unified", "json"]))
    if L.blank_positions(F):
        cs.append(mk(f"{fam}:delete-blank-lines", {"f.lua": L.ed_delete_blank(F)}, formats=["unified", "json"]))
    return cs


def pinned_special():
    cs = []
    cs.append(mk("special:empty", {"f.lua": b""}))
    cs.append(mk("special:blank-only", {"f.lua": b"\n\n  \n"}))
    cs.append(mk("special:comment-only", {"f.lua": b"--  c   \n\n\n\n-- d"}))
    cs.append(mk("special:one-line-no-newline", {"f.lua": b"local   x = 1"}))
    cs.append(mk("special:lone-cr-in-string", {"f.lua": b"local s = [[a\rb]]\nlocal   t = 1\n"}, formats=["unified", "json"]))
    cs.append(mk("special:lone-cr-line-ends", {"f.lua": b"local   a = 1\rlocal b   = 2\rreturn a+b\r"}, formats=["unified", "json"]))
    cs.append(mk("special:comment-that-looks-like-header", {"f.lua": b"-- old\nlocal   a = 1\n-- old  \n--- old\n-- new\n"}))
    cs.append(mk("special:string-that-looks-like-a-diff", {"f.lua": b"local s = [[\n--- old\n+++ new\n@@ -1 +1 @@\n-x\n+y\n\\ No newline at end of file\n]]\nlocal   a = 1\n"}, formats=["unified", "json"]))
    cs.append(mk("special:at-at-lines", {"f.lua": b"local a = {\n'@@ -1,2 +1,2 @@',\n\"\\\\ No newline at end of file\"   }\n"}, formats=["unified", "json"]))
    # witness of the stale diff-op indexes (dependency `similar` 2.4.0, Compact hook): deletion, kept line, insertion of an equal line
    cs.append(mk("special:delete-keep-insert-equal-line", {"f.lua": b"-- c\n\n\n\nf({ a = false})\nf({ a = false })\n"}, formats=["unified", "json"]))
    cs.append(mk("special:no-final-newline+equal-lines", {"f.lua": b"call('x')\ncall(\"x\")\ncall({ 1 })"}, formats=["unified", "json"]))
    # a change at both ends with a long unchanged middle (two hunks far apart)
    mid = b"".join(b"local v%d = %d\n" % (i, i) for i in range(40))
    cs.append(mk("special:two-far-hunks", {"f.lua": b"local   a = 1\n" + mid + b"local   z = 1"}))
    # names in sub directories and with blanks
    cs.append(mk("special:names", {"sub/x y.lua": b"local   a = 1\n", "sub/ok.lua": b"local a = 1\n", "z.lua": b"return   1\n"}))
    # through stdin (with and without --stdin-filepath)
    for kind in ("plain", "filepath"):
        cs.append(mk(f"special:stdin-{kind}", {"f.lua": b"local   x = 1\nlocal y   = 2\nreturn   x+y\n"}, stdin=kind))
        cs.append(mk(f"special:stdin-{kind}:no-final-newline", {"f.lua": b"local   x = 1\nreturn   x"}, stdin=kind))
        cs.append(mk(f"special:stdin-{kind}:formatted", {"f.lua": b"local x = 1\n"}, stdin=kind))
        cs.append(mk(f"special:stdin-{kind}:crlf", {"f.lua": b"local   x = 1\r\nreturn   x\r\n"}, {"line_endings": "Windows"}, stdin=kind))
    # names that need care when printed: backslash (not a separator here), quote (JSON escaping), tab, non-ASCII
    cs.append(mk("special:names-odd", {"sub/back\\slash.lua": b"local   a = 1\n", "gen\\out/mod.lua": b"local   b = 1\n", "q\"uote.lua": b"local   c = 1\n",
                                       "tab\tname.lua": b"local   d = 1\n", "\u00fcn\u00ef/\u00e7\u00e9.lua": b"local   e = 1\n", "ok.lua": b"local f = 1\n"}))
    return cs


def multi_case(fam, texts, rng_or_none=None):
    files = {}
    for i, b in enumerate(texts):
        files[f"m{i}.lua"] = b
    order = sorted(files)
    if rng_or_none is not None:
        order = rng_or_none.shuffle(order)
    return mk(fam, files, argv_order=order)


def build_workload(tier, seed, ref):
    corpus = L.corpus()
    quick = tier != "thorough"
    cases = []
    # ---- pinned 1: corpus originals x widths
    widths = [120, 40] if quick else [120, 100, 80, 60, 40, 20]
    for i, (name, text) in enumerate(corpus):
        for w in widths:
            fm = FORMATS if (w == 120 or not quick) else ["unified", "json"]
            cases.append(mk("corpus", {"f.lua": text.encode("utf-8")}, {"column_width": w} if w != 120 else {}, formats=fm, src=name))
            if len(cases) % 4 == 0:
                cases.append(mk("corpus:stdin", {"f.lua": text.encode("utf-8")}, {"column_width": w} if w != 120 else {}, formats=fm, src=name, stdin="plain"))
    for name, text in corpus:
        if "sort-requires" in name:
            cases.append(mk("corpus+sort-requires", {"f.lua": text.encode("utf-8")}, {"sort_requires": True}, src=name))
    # ---- pinned 2: derived from formatted text
    step = 5 if quick else 1
    for i, (name, text) in enumerate(corpus):
        if i % step:
            continue
        r = ref.format(text, clilib.cfg())
        if r[0] != "ok":
            continue
        for c in derived_cases(name, r[1].encode("utf-8"), tier):
            c["src"] = name
            cases.append(c)
    cases += pinned_special()
    cases += pinned_d9()
    # the machine-readable formats are the same bytes whatever --color says (a diff is applied by a program)
    for k, c in enumerate(pinned_special() + pinned_d9()):
        for col in (("always", "never") if (not quick or k % 2 == 0) else ("always",)):
            c2 = dict(c)
            c2["extra_args"] = ["--color", col]
            c2["formats"] = [f for f in c.get("formats", FORMATS) if f != "standard"]
            c2["family"] = str(c.get("family")) + ":color-" + col
            if c2["formats"]:
                cases.append(c2)
    # ---- pinned 3: multi-file runs
    texts = [t.encode("utf-8") for _, t in corpus]
    for k in range(0, len(texts) - 6, 60 if quick else 12):
        group = texts[k:k + 5]
        r = ref.format(corpus[k + 5][1], clilib.cfg())
        if r[0] == "ok":
            group = group + [r[1].encode("utf-8")]  # one already formatted file
        cases.append(multi_case("multi:pinned", group))
    n_pinned = len(cases)
    # ---- seeded
    rng = clilib.Rng(seed * 1000003 + 18)
    n_seeded = 400 if quick else 5000
    edits = ["none", "nofinal", "crlf", "first", "last", "many", "blank+", "blank-", "indent"]
    for j in range(n_seeded):
        name, text = rng.pick(corpus)
        cfg_ = {}
        if rng.chance(3, 4):
            cfg_["column_width"] = 20 + rng.below(140)
        if rng.chance(1, 4):
            cfg_["indent_type"] = "Spaces"
            cfg_["indent_width"] = rng.pick([2, 3, 4, 8])
        b = text.encode("utf-8")
        if rng.chance(2, 3):
            r = ref.format(text, clilib.cfg(**cfg_))
            if r[0] != "ok":
                continue
            b = r[1].encode("utf-8")
        chain = []
        for _ in range(1 + rng.below(3)):
            e = rng.pick(edits)
            chain.append(e)
            nl = max(1, len(L.split_lines(b)))
            if e == "nofinal":
                b = L.ed_strip_final_newline(b)
            elif e == "crlf":
                b = L.ed_crlf(b)
                cfg_["line_endings"] = rng.pick(["Windows", "Unix"])
            elif e == "first":
                b = L.ed_space_line(b, 0)
            elif e == "last":
                b = L.ed_space_line(b, -1)
            elif e == "many":
                b = L.ed_many(b, 2 + rng.below(12), rng.below(5))
            elif e == "blank+":
                b = L.ed_insert_blank(b, rng.below(nl + 1), 2 + rng.below(4), b"\r\n" if b"\r\n" in b else b"\n")
            elif e == "blank-":
                b = L.ed_delete_blank(b)
            elif e == "indent":
                b = L.ed_indent_line(b, rng.below(nl))
        cases.append(mk("seeded:" + "+".join(chain), {"f.lua": b}, cfg_, src=name))
    for j in range(60 if quick else 800):
        k = 2 + rng.below(5)
        group = []
        for _ in range(k):
            name, text = rng.pick(corpus)
            if rng.chance(1, 3):
                r = ref.format(text, clilib.cfg())
                if r[0] == "ok":
                    group.append(L.ed_space_line(r[1].encode("utf-8"), -1) if rng.chance(1, 2) else r[1].encode("utf-8"))
                    continue
            group.append(text.encode("utf-8"))
        # identical contents would make unified attribution ambiguous only in name, never in verdict; keep them distinct anyway
        seen = set()
        uniq = []
        for g in group:
            if g not in seen:
                seen.add(g)
                uniq.append(g)
        cases.append(multi_case("multi:seeded", uniq, rng))
    return cases, n_pinned


# ------------------------------------------------------------------------------------------------
# entry points
# ------------------------------------------------------------------------------------------------

def run(tier, seed):
    t0 = time.time()
    budget = 75 if tier != "thorough" else 540
    ref = L.Ref()
    counters = {}
    out = {"evaluations": 0, "nontrivial": set(), "findings": [], "samples": [], "counters": counters,
           "inconclusive": 0, "inconclusive_notes": [], "items_total": 0}
    try:
        cases, n_pinned = build_workload(tier, seed, ref)
        out["items_total"] = len(cases)
        counters["cases.pinned"] = n_pinned
        counters["cases.seeded"] = len(cases) - n_pinned
        fams = {}
        skipped = 0
        not_run = 0

        def work(c):
            if time.time() - t0 > budget:
                return None
            return run_case(c, ref)

        with cf.ThreadPoolExecutor(max_workers=svlib.NCPU) as ex:
            for c, r in zip(cases, ex.map(work, cases)):
                if r is None:
                    not_run += 1
                    continue
                fam = c["family"].split(":")[0]
                fams[fam] = fams.get(fam, 0) + r["evaluations"]
                out["evaluations"] += r["evaluations"]
                out["nontrivial"].update(r["nontrivial"])
                out["findings"].extend(r["findings"])
                out["inconclusive"] += r["inconclusive"]
                out["inconclusive_notes"].extend(r["notes"][:2])
                skipped += r["skipped"]
                for k, v in r["counters"].items():
                    counters[k] = counters.get(k, 0) + v
        for k, v in fams.items():
            counters["evaluations.family." + k] = v
        counters["cases.skipped_reference_rejects_input"] = skipped
        counters["cases.not_run_budget"] = not_run
        if not_run:
            out["inconclusive_notes"].append(f"{not_run} cases not run: wall-clock budget of the tier reached")
        # samples: three small non-trivial cases written out
        for c in cases:
            if len(out["samples"]) >= 3:
                break
            body = next(iter(c["files"].values()))
            if c["family"] in ("derived:many-hunks/9", "d9:rot2of4", "derived:no-final-newline") and len(body.get("text", "x" * 9999)) < 1500:
                if not any(s["family"] == c["family"] for s in out["samples"]):
                    out["samples"].append({"family": c["family"], "files": c["files"], "cfg": c["cfg"], "src": c.get("src")})
    finally:
        ref.close()
    out["nontrivial"] = sorted(out["nontrivial"])
    # one finding per (signature, family) is enough for the report; keep the smallest witness first
    out["findings"].sort(key=lambda f: (f["signature"], sum(len(v.get("text", v.get("b64", ""))) for v in f["case"]["files"].values())))
    dedup, seen = [], {}
    for f in out["findings"]:
        k = f["signature"]
        seen[k] = seen.get(k, 0) + 1
        if seen[k] <= 3:
            dedup.append(f)
    for k, v in seen.items():
        counters["failing_evaluations." + k] = v
    out["findings"] = dedup
    return out


def replay(case):
    ref = L.Ref()
    try:
        return run_case(case, ref)["findings"]
    finally:
        ref.close()
