"""C17 — stdin mode writes the formatted text to stdout and nothing else.

Monitor: the real `stylua [options] -` is fed through a pipe (in one piece, or in small chunks by a
writer thread), stdout / exit status are compared with the library reference (`sv libfmt`) under the
configuration the options and the scratch tree resolve to, and the file system is watched with strace
(write-intent syscalls below the scratch area) plus a before/after snapshot of the tree.
"""
import concurrent.futures as cf
import os
import subprocess
import threading
import time

import clilib
import c17lib as L
import cfgmodel as M
import svlib

META = {
    "level": "exploration",
    "rule": ("One case = (stdin bytes, option list, scratch tree with config / ignore files, feeding method); one case is "
             "one CLI execution = one evaluation. Pinned: corpus files (tests/inputs*/**/*.lua) as is / CRLF / without "
             "final newline; invalid programs (truncated corpus files, unclosed strings and comments); empty and "
             "blank-only inputs; invalid UTF-8; 5 MB inputs; a grid of every format flag value, --verify, --check with "
             "each --output-format, ranges, thread counts and the other options accepted together with `-` over a fixed "
             "input set; config placement for --stdin-filepath (stylua.toml next to the named path / in cwd / "
             ".stylua.toml / --config-path / XDG with -s, each with a distinct indent_width so the applied config is "
             "readable off the output); --respect-ignores with ignored and not-ignored --stdin-filepath. Seeded: random "
             "corpus file x variant x 1-3 random flags x mode x placement x feeding method. Distinct by (hash of input, "
             "argument list, tree). Non-trivial: the expected stdout differs from the input (formatting cases), or the "
             "input is rejected and non-empty (error cases), or the path is ignored and formatting WOULD change the text "
             "(pass-through cases) -- i.e. passing input through / formatting anyway / printing nothing would be noticed. Also pinned: an ignore file above the working directory (not consulted without -s), pass-through and range runs whose last line is 1023 ... 70000 bytes long and unterminated."),
    "assumptions": [
        "`sv libfmt` (stylua_lib from the same tree, Config built from Rust enum values, not via clap/serde) is 'the library's formatted output'",
        "expected configuration = defaults, overlaid by the nearest stylua.toml/.stylua.toml between the --stdin-filepath directory (or cwd) and cwd (or --config-path, or XDG with -s), overlaid by CLI flags; only placements on which the documentation is explicit are generated",
        "a path is 'ignored' when a .styluaignore in cwd names its directory (`gen/`) or its file-name pattern (`*.skip.lua`)",
        "in --check mode stdout carries the diff: judged are exit status, diff presence and attribution to `stdin`, and absence of file writes (diff content is C18's subject; reconstruction is attempted and counted); the summary format's header/footer lines are not counted as output on a parse error",
        "any library error (parse error, --verify failure, invalid UTF-8) must give exit 2 and empty stdout",
        "write intent = strace sees open(..O_WRONLY|O_RDWR|O_CREAT|O_TRUNC|O_APPEND), rename, unlink, mkdir, chmod, truncate, link, utimensat on any path (terminals, /dev/null and /proc excepted); chunk-fed and multi-megabyte runs are watched by snapshot only",
    ],
}

IGNORE_FILE = "gen/\n*.skip.lua\n*.gen.lua\n!keep.gen.lua\n"


def toml_for(ov):
    out = []
    for k, v in ov.items():
        out.append(f"{k} = {v}" if isinstance(v, int) and not isinstance(v, bool) else f'{k} = "{v}"')
    return "\n".join(out) + "\n"


def gen_input(kind, n):
    if kind == "bigcomment":
        line = b"-- " + b"x" * 96 + b"\n"
        return b"local   a=1\n" + line * n + b"local  s = [[\n" + (b"y" * 99 + b"\n") * 1000 + b"]]\nreturn   a\n"
    if kind == "bigcomment-invalid":
        return gen_input("bigcomment", n) + b"local = 1\n"
    if kind == "bigcode":
        return b"".join(b"local   v%d  =  { a=1,b  = 2 }\nif v%d   then\n        print( 'x%d' )\nend\n" % (i, i, i) for i in range(n))
    if kind == "bigstring-crlf":
        return b"local  s = [[\r\n" + (b"z" * 62 + b"\r\n") * n + b"]]\r\nreturn   s"
    raise ValueError(kind)


def case_input(case):
    if "input_gen" in case:
        return gen_input(*case["input_gen"])
    return L.dec(case["input"])


def case_key(case):
    tree = "|".join(f"{k}={v}" for k, v in sorted(case.get("tree", {}).items()))
    inp = "gen:" + repr(case["input_gen"]) if "input_gen" in case else L.sha(L.dec(case["input"]))
    return L.sha(inp + "|" + " ".join(build_args(case, "/S")) + "|" + tree + "|" + case.get("feed", "pipe"))


def build_args(case, root):
    a = L.flags_for(case.get("cfg", {}))
    mode = case.get("mode", "format")
    if mode.startswith("check"):
        a.append("--check")
        if ":" in mode:
            a += ["--output-format", mode.split(":")[1]]
    if case.get("verify"):
        a.append("--verify")
    rg = case.get("range")
    if rg:
        if rg[0] is not None:
            a += ["--range-start", str(rg[0])]
        if rg[1] is not None:
            a += ["--range-end", str(rg[1])]
    for x in case.get("args", []):  # last: `-g <glob> --` must be directly in front of the `-`
        a.append(x.replace("{ROOT}", root))
    return a + ["-"]


# ------------------------------------------------------------------------------------------------
# running
# ------------------------------------------------------------------------------------------------

def run_chunked(args, cwd, env, data, chunk, timeout):
    """Feed stdin in chunks of `chunk` bytes from a writer thread (stresses the read loop / buffering)."""
    p = subprocess.Popen([clilib.STYLUA] + args, cwd=cwd, env=env, stdin=subprocess.PIPE, stdout=subprocess.PIPE, stderr=subprocess.PIPE)
    bufs = {"out": b"", "err": b""}

    def writer():
        try:
            for i in range(0, len(data), chunk):
                p.stdin.write(data[i:i + chunk])
                p.stdin.flush()
                if (i // chunk) % 64 == 0:
                    time.sleep(0)
        except (BrokenPipeError, OSError):
            pass
        finally:
            try:
                p.stdin.close()
            except OSError:
                pass

    def reader(name, f):
        bufs[name] = f.read()

    ts = [threading.Thread(target=writer), threading.Thread(target=reader, args=("out", p.stdout)),
          threading.Thread(target=reader, args=("err", p.stderr))]
    for t in ts:
        t.start()
    timed_out = False
    try:
        p.wait(timeout=timeout)
    except subprocess.TimeoutExpired:
        timed_out = True
        p.kill()
        p.wait()
    for t in ts:
        t.join(timeout=10)
    return clilib.Run(None if timed_out else p.returncode, bufs["out"], bufs["err"], None, args, timed_out)


def classify_stdout(got, want, inp):
    if got == b"":
        return "stdout-empty"
    if got == inp and inp != want:
        return "input-passed-through"
    if want and want in got:
        return "extra-bytes-around-formatted-text"
    if got.replace(b"\r\n", b"\n") == want.replace(b"\r\n", b"\n"):
        return "line-endings-differ"
    if len(got) < len(want) and want.startswith(got):
        return "truncated"
    return "differs"


def run_case(case, ref, timeout=240):
    """-> dict(evaluations, findings, nontrivial, inconclusive, notes, counters)"""
    res = {"evaluations": 0, "findings": [], "nontrivial": [], "inconclusive": 0, "notes": [], "counters": {}}
    c = res["counters"]

    def bump(k, n=1):
        c[k] = c.get(k, 0) + n

    def finding(oracle, sig_, detail):
        if case.get("sig_tag"):
            # pinned cases that pin a listed defect carry its name in every signature they produce
            sig_ = sig_ + ":" + case["sig_tag"]
        res["findings"].append({"oracle": oracle, "signature": sig_, "detail": f"[{case.get('family')}] {detail}", "case": case})

    inp = case_input(case)
    mode = case.get("mode", "format")
    eff = dict(case.get("tree_cfg", {}))
    eff.update(case.get("cfg", {}))
    cfg_ = clilib.cfg(**eff)
    # ---- expectation from the library reference
    try:
        text = inp.decode("utf-8")
        utf8 = True
    except UnicodeDecodeError:
        text, utf8 = None, False
    fmt_res = None
    if utf8:
        fmt_res = ref.format(text, cfg_, case.get("range"), bool(case.get("verify")))
        if fmt_res[0] == "panic":
            res["inconclusive"] += 1
            res["notes"].append("reference panicked on the input")
            return res
    if not utf8:
        expect = ("error", "invalid-utf8")
    elif case.get("expect_skip"):
        expect = ("ok", inp)
    elif fmt_res[0] == "ok":
        expect = ("ok", fmt_res[1].encode("utf-8"))
    else:
        expect = ("error", fmt_res[0])
    with clilib.Scratch(prefix="sv-c17-") as s:
        for rel, content in case.get("tree", {}).items():
            if rel.startswith("XDG/"):
                s.write(rel[4:], content, base=s.xdg)
            else:
                s.write(rel, content)
        for d in case.get("dirs", []):
            os.makedirs(os.path.join(s.root, d), exist_ok=True)
        args = build_args(case, s.root)
        before = clilib.snapshot(s.base)
        feed = case.get("feed", "pipe")
        use_strace = bool(case.get("strace", True)) and feed == "pipe"
        if use_strace and not clilib.strace_available():
            use_strace = False
            bump("strace_unavailable")
        run_cwd = os.path.join(s.root, case["cwd_sub"]) if case.get("cwd_sub") else s.root
        os.makedirs(run_cwd, exist_ok=True)
        before = clilib.snapshot(s.base)
        if len(inp) < 100000:
            timeout = min(timeout, 45)  # generous for a small input even on a loaded machine
        if feed.startswith("chunk:"):
            run = run_chunked(args, run_cwd, s.env(), inp, int(feed.split(":")[1]), timeout)
        else:
            run = clilib.run_cli(args, run_cwd, s.env(), stdin=inp, strace=use_strace, timeout=timeout)
        after = clilib.snapshot(s.base)
        if run.timed_out:
            # a small input that the library formats at once and the CLI does not finish in `timeout`
            # seconds, twice in a row, is not load: the process does not terminate
            if len(inp) < 100000 and feed == "pipe":
                run2 = clilib.run_cli(args, run_cwd, s.env(), stdin=inp, strace=False, timeout=timeout)
                if run2.timed_out:
                    res["evaluations"] = 1
                    finding("termination", "C17:no-termination", f"stylua {' '.join(args)} did not terminate within {timeout}s (twice) on {len(inp)} bytes of input")
                    return res
            res["inconclusive"] += 1
            res["notes"].append(f"timeout after {timeout}s ({case.get('family')})")
            return res
        res["evaluations"] = 1
        err_txt = run.err[:300].decode("utf-8", "replace")
        # ---- file system
        d = clilib.snapshot_diff(before, after, ignore_dir_mtime=False)
        if d:
            rank = ["created", "deleted", "content", "kind", "inode", "mode", "mtime"]
            worst = min((x[1] for x in d), key=rank.index)
            finding("fs-snapshot", "C17:fs-changed:" + worst, f"scratch area changed: {d[:5]}")
        if use_strace:
            # anywhere in the file system, not only below the scratch area (terminals and /proc are not files)
            w = [e for e in (run.events or []) if e["write_intent"]
                 and any(not q.startswith(("/dev/null", "/dev/tty", "/dev/pts", "/proc/")) for q in e["paths"])]
            bump("strace.watched_runs")
            if w:
                rel = [(e["call"], e["paths"][0].replace(s.base, "<scratch>"), e["flags"]) for e in w[:5]]
                finding("fs-strace", "C17:fs-write-intent:" + w[0]["call"], f"write-intent syscalls: {rel}")
        # ---- exit status + stdout
        kind = expect[0]
        if mode == "format":
            if kind == "ok":
                want = expect[1]
                if run.rc != 0:
                    finding("exit-status", f"C17:exit:got={run.rc}:expected=0", f"input accepted by the library, exit {run.rc}; stderr: {err_txt}")
                if run.out != want:
                    cl = classify_stdout(run.out, want, inp)
                    what = "ignored-path-not-passed-through" if case.get("expect_skip") else "stdout-not-library-output"
                    finding("stdout", f"C17:{what}:{cl}",
                            f"stdout ({len(run.out)} bytes) != expected ({len(want)} bytes): {L._first_diff(run.out, want)}; stderr: {err_txt}")
                else:
                    bump("stdout_equal_reference")
            else:
                if run.rc != 2:
                    finding("exit-status", f"C17:exit:got={run.rc}:expected=2:{expect[1]}", f"library rejects the input ({expect[1]}), exit {run.rc}")
                if run.out != b"":
                    cl = "input-passed-through" if run.out == inp else "bytes"
                    finding("stdout-on-error", f"C17:stdout-on-error:{cl}", f"{len(run.out)} bytes on stdout although the input is rejected ({expect[1]}): {run.out[:80]!r}")
                else:
                    bump("error_exit2_silent")
        else:
            fmtname = mode.split(":")[1] if ":" in mode else "standard"
            if kind == "ok":
                want = expect[1]
                exp_rc = 1 if want != inp else 0
                if run.rc != exp_rc:
                    finding("exit-status", f"C17:check:exit:got={run.rc}:expected={exp_rc}", f"check mode, formatted text {'differs from' if exp_rc else 'equals'} input, exit {run.rc}; stderr: {err_txt}")
                probs = L.judge_check_output(fmtname, run.out, {"stdin": (inp, want)}, {})
                content_only = ("C18:unified:reconstruction", "C18:unified:unparsable", "C18:unified:hunk-header-wrong-body-right",
                                "C18:json:reconstruction", "C18:json:multi-line-insert", "C18:json:inconsistent-line-indexes")
                if not probs:
                    bump("check.diff_ok." + fmtname)
                for oracle, sig_, detail in probs:
                    if sig_ in content_only:
                        bump("check.diff_content_problem_left_to_C18." + sig_)
                        continue
                    finding("check-" + oracle, sig_.replace("C18:", "C17:check:"), detail)
            else:
                if run.rc != 2:
                    finding("exit-status", f"C17:check:exit:got={run.rc}:expected=2:{expect[1]}", f"library rejects the input ({expect[1]}), exit {run.rc}")
                body = run.out
                if fmtname == "summary":
                    listed, _, _ = L.parse_summary(run.out)
                    body = "\n".join(listed).encode()
                if body.strip():
                    finding("stdout-on-error", "C17:check:stdout-on-error", f"stdout on a rejected input: {body[:80]!r}")
                else:
                    bump("error_exit2_silent")
        # ---- non-trivial?
        nt = False
        if kind == "error":
            nt = len(inp.strip()) > 0
        elif case.get("expect_skip"):
            nt = fmt_res is not None and (fmt_res[0] != "ok" or fmt_res[1].encode("utf-8") != inp)
        else:
            nt = expect[1] != inp
        if nt:
            res["nontrivial"].append(case_key(case))
        bump("mode." + mode.split(":")[0])
        bump("expect." + (("skip" if case.get("expect_skip") else "ok") if kind == "ok" else "error:" + expect[1]))
        bump("feed." + feed.split(":")[0])
    return res


# ------------------------------------------------------------------------------------------------
# workload
# ------------------------------------------------------------------------------------------------

def mk(family, inp, **kw):
    c = {"family": family}
    if isinstance(inp, (bytes, str)):
        c["input"] = L.enc(inp if isinstance(inp, bytes) else inp.encode("utf-8"))
    else:
        c["input_gen"] = list(inp)
    c.update(kw)
    return c


FLAG_GRID = [
    {"column_width": 40}, {"column_width": 80}, {"column_width": 20}, {"column_width": 1},
    {"indent_type": "Spaces"}, {"indent_type": "Spaces", "indent_width": 2}, {"indent_width": 3}, {"indent_type": "Tabs", "indent_width": 8},
    {"quote_style": "ForceSingle"}, {"quote_style": "AutoPreferSingle"}, {"quote_style": "ForceDouble"},
    {"line_endings": "Windows"}, {"line_endings": "Unix"},
    {"call_parentheses": "None"}, {"call_parentheses": "NoSingleString"}, {"call_parentheses": "NoSingleTable"}, {"call_parentheses": "Input"},
    {"collapse_simple_statement": "Always"}, {"collapse_simple_statement": "FunctionOnly"}, {"collapse_simple_statement": "ConditionalOnly"},
    {"sort_requires": True},
    {"syntax": "Lua51"}, {"syntax": "Lua52"}, {"syntax": "Lua53"}, {"syntax": "Lua54"}, {"syntax": "Luau"}, {"syntax": "LuaJIT"}, {"syntax": "All"},
    {"space_after_function_names": "Always"}, {"space_after_function_names": "Definitions"}, {"space_after_function_names": "Calls"},
]

OTHER_OPTS = [
    ["--num-threads", "0"], ["--num-threads", "1"], ["--num-threads", "2"], ["--num-threads", "16"], ["--color", "Never"], ["--color", "Always"], ["--verbose"],
    ["--allow-hidden"], ["--no-editorconfig"], ["--search-parent-directories"], ["--respect-ignores"], ["--output-format", "json"],
    ["--output-format", "standard"], ["-g", "*.txt", "--"], ["--stdin-filepath", "does/not/exist.lua"], ["--stdin-filepath", "x.txt"],
]

MODES = ["format", "check:standard", "check:unified", "check:json", "check:summary"]

INVALID_SNIPPETS = [
    b"local x = = 1\n", b"function (\n", b"local s = 'unclosed\n", b"--[[ unclosed comment\nlocal x = 1\n", b"local t = { 1, 2\n",
    b"if x then\n", b"return return\n", b"x = 1 +\n", b"local s = [==[ never closed ]=]\n", b"\x00\x01\x02", b"end\n", b"local 1x = 2\n",
    b"goto = = 3\n", b"local x <const = 1\n", b"}{\n", b"\xef\xbb\xbflocal  x = 1\n",
]

BLANK_INPUTS = [b"", b"\n", b"\n\n\n", b"   ", b" \t \n\t\n", b"\r\n", b"\r\n\r\n", b"-- only a comment", b"--[[ block ]]\n\n\n", b"#!/usr/bin/lua\n", b";", b";;\n"]

BAD_UTF8 = [b"local v = 1 -- \xff\xfe\n", b"\xff", b"local s = '\xc3", b"local s = '\xed\xa0\x80'\n", b"-- \xc0\xaf\nlocal x = 1\n", b"local   x = 1\n" * 2000 + b"\x80"]


def placements():
    """(family, tree, args, tree_cfg) with explicit documentation backing."""
    sp = lambda n: {"indent_type": "Spaces", "indent_width": n}
    P = []
    P.append(("cfg:cwd", {"stylua.toml": toml_for(sp(5))}, [], sp(5)))
    P.append(("cfg:cwd-dotfile", {".stylua.toml": toml_for(sp(6))}, [], sp(6)))
    P.append(("cfg:cwd-both-names", {"stylua.toml": toml_for(sp(5)), ".stylua.toml": toml_for(sp(6))}, [], sp(5)))
    P.append(("cfg:next-to-stdin-filepath", {"stylua.toml": toml_for(sp(5)), "src/stylua.toml": toml_for(sp(3))}, ["--stdin-filepath", "src/a.lua"], sp(3)))
    P.append(("cfg:next-to-stdin-filepath-only", {"src/stylua.toml": toml_for(sp(3))}, ["--stdin-filepath", "src/a.lua"], sp(3)))
    P.append(("cfg:stdin-filepath-absolute", {"stylua.toml": toml_for(sp(5)), "src/stylua.toml": toml_for(sp(3))}, ["--stdin-filepath", "{ROOT}/src/a.lua"], sp(3)))
    P.append(("cfg:stdin-filepath-in-cwd", {"stylua.toml": toml_for(sp(5)), "src/stylua.toml": toml_for(sp(3))}, ["--stdin-filepath", "a.lua"], sp(5)))
    P.append(("cfg:stdin-filepath-other-dir", {"stylua.toml": toml_for(sp(5)), "src/stylua.toml": toml_for(sp(3)), "lib/x.lua": "return 1\n"}, ["--stdin-filepath", "lib/a.lua"], sp(5)))
    P.append(("cfg:stdin-filepath-deeper", {"src/stylua.toml": toml_for(sp(3)), "src/deep/er/x.lua": "return 1\n"}, ["--stdin-filepath", "src/deep/er/a.lua"], sp(3)))
    P.append(("cfg:no-stdin-filepath-ignores-subdir-config", {"src/stylua.toml": toml_for(sp(3))}, [], {}))
    P.append(("cfg:config-path", {"stylua.toml": toml_for(sp(5)), "alt/my.toml": toml_for(sp(7))}, ["--config-path", "alt/my.toml"], sp(7)))
    P.append(("cfg:config-path-beats-stdin-filepath", {"src/stylua.toml": toml_for(sp(3)), "alt/my.toml": toml_for(sp(7))}, ["--config-path", "alt/my.toml", "--stdin-filepath", "src/a.lua"], sp(7)))
    P.append(("cfg:xdg-with-search-parents", {"XDG/stylua.toml": toml_for(sp(6))}, ["--search-parent-directories"], sp(6)))
    P.append(("cfg:xdg-without-search-parents", {"XDG/stylua.toml": toml_for(sp(6))}, [], {}))
    # configuration above the working directory (the 4th element may carry the working directory):
    # found with --search-parent-directories, for stdin with and without --stdin-filepath; not found without the flag
    P.append(("cfg:above-cwd-with-search-parents", {"stylua.toml": toml_for(sp(7)), "proj/src/x.lua": "return 1\n"}, ["--search-parent-directories"], sp(7), "proj/src"))
    P.append(("cfg:above-cwd-with-search-parents+filepath", {"stylua.toml": toml_for(sp(7)), "proj/src/x.lua": "return 1\n"}, ["-s", "--stdin-filepath", "a.lua"], sp(7), "proj/src"))
    P.append(("cfg:above-cwd-without-search-parents", {"stylua.toml": toml_for(sp(7)), "proj/src/x.lua": "return 1\n"}, [], {}, "proj/src"))
    P.append(("cfg:above-cwd-nearest-wins", {"stylua.toml": toml_for(sp(7)), "proj/.stylua.toml": toml_for(sp(2)), "proj/src/x.lua": "return 1\n"}, ["-s"], sp(2), "proj/src"))
    # a --stdin-filepath outside the working directory: the walk up from its directory never meets cwd and goes on to the root
    P.append(("cfg:stdin-filepath-outside-cwd", {"stylua.toml": toml_for(sp(7)), "proj/a/x.lua": "return 1\n", "proj/b/y.lua": "return 1\n"},
              ["--stdin-filepath", "../b/z.lua"], sp(7), "proj/a"))
    P.append(("cfg:stdin-filepath-outside-cwd-absolute", {"stylua.toml": toml_for(sp(7)), "proj/a/x.lua": "return 1\n", "proj/b/y.lua": "return 1\n"},
              ["--stdin-filepath", "{ROOT}/proj/b/z.lua"], sp(7), "proj/a"))
    # .editorconfig is the source when no stylua.toml is found - for plain stdin too; command-line options
    # win over it whichever way the text comes in
    ec_props = {"indent_style": "space", "indent_size": "2", "quote_type": "single", "max_line_length": "70"}
    ec_text = "root = true\n\n[*.lua]\n" + "".join(f"{k} = {v}\n" for k, v in ec_props.items())
    ec_cfg_full, ec_touched = M.apply_editorconfig(clilib.cfg(), ec_props)
    ec_cfg = {k: ec_cfg_full[k] for k in ec_touched}
    P.append(("cfg:editorconfig-cwd", {".editorconfig": ec_text}, [], ec_cfg))
    P.append(("cfg:editorconfig-cwd+filepath", {".editorconfig": ec_text}, ["--stdin-filepath", "src/a.lua"], ec_cfg))
    P.append(("cfg:editorconfig-disabled", {".editorconfig": ec_text}, ["--no-editorconfig"], {}))
    P.append(("cfg:other-keys", {"stylua.toml": 'column_width = 50\nquote_style = "ForceSingle"\ncall_parentheses = "None"\n'}, [],
              {"column_width": 50, "quote_style": "ForceSingle", "call_parentheses": "None"}))
    return P


def ignore_cases():
    """(family, args, expect_skip)"""
    tree = {".styluaignore": IGNORE_FILE, "src/keep.lua": "return 1\n", "gen/x.lua": "return 1\n"}
    I = []
    I.append(("ign:dir", ["--respect-ignores", "--stdin-filepath", "gen/a.lua"], True))
    I.append(("ign:dir-nested", ["--respect-ignores", "--stdin-filepath", "gen/sub/a.lua"], True))
    I.append(("ign:pattern", ["--respect-ignores", "--stdin-filepath", "src/a.skip.lua"], True))
    I.append(("ign:pattern-cwd", ["--respect-ignores", "--stdin-filepath", "b.skip.lua"], True))
    I.append(("ign:absolute", ["--respect-ignores", "--stdin-filepath", "{ROOT}/gen/a.lua"], True))
    I.append(("ign:not-ignored", ["--respect-ignores", "--stdin-filepath", "src/a.lua"], False))
    I.append(("ign:not-ignored-cwd", ["--respect-ignores", "--stdin-filepath", "a.lua"], False))
    I.append(("ign:no-respect-flag", ["--stdin-filepath", "gen/a.lua"], False))
    I.append(("ign:no-filepath", ["--respect-ignores"], False))
    # gitignore negation: `*.gen.lua` then `!keep.gen.lua` re-includes the file
    I.append(("ign:negated-reincluded", ["--respect-ignores", "--stdin-filepath", "src/keep.gen.lua"], False))
    I.append(("ign:negated-reincluded-cwd", ["--respect-ignores", "--stdin-filepath", "keep.gen.lua"], False))
    I.append(("ign:negated-sibling-still-ignored", ["--respect-ignores", "--stdin-filepath", "src/other.gen.lua"], True))
    return tree, I


def build_workload(tier, seed, ref):
    quick = tier != "thorough"
    corpus = L.corpus()
    cases = []
    # ---- pinned A: corpus as is / CRLF / no final newline (format mode)
    step = 4 if quick else 1
    for i, (name, text) in enumerate(corpus):
        if i % step:
            continue
        b = text.encode("utf-8")
        cases.append(mk("corpus", b, src=name))
        cases.append(mk("corpus:crlf", L.ed_crlf(b), src=name, cfg={"line_endings": "Windows"} if i % 2 else {}))
        cases.append(mk("corpus:no-final-newline", L.ed_strip_final_newline(b), src=name))
        if i % (3 * step) == 0:
            cut = b[: max(1, len(b) * 3 // 5)]
            cases.append(mk("corpus:truncated", cut, src=name))
            cases.append(mk("corpus:chunk-fed", b, src=name, feed="chunk:" + str([1, 7, 64, 4096][(i // step) % 4])))
    # ---- pinned B: invalid / blank / bad UTF-8 in every mode
    for k, b in enumerate(INVALID_SNIPPETS):
        for m in MODES:
            cases.append(mk("invalid", b, mode=m))
        cases.append(mk("invalid:format+json", b, args=["--output-format", "json"]))
        cases.append(mk("invalid:verify", b, verify=True))
        cases.append(mk("invalid:chunk", b, feed="chunk:1"))
    for b in BLANK_INPUTS:
        for m in MODES:
            cases.append(mk("blank", b, mode=m))
        cases.append(mk("blank:windows", b, cfg={"line_endings": "Windows"}))
    for b in BAD_UTF8:
        for m in MODES:
            cases.append(mk("bad-utf8", b, mode=m))
        cases.append(mk("bad-utf8:chunk", b, feed="chunk:3"))
        cases.append(mk("bad-utf8:ignored-path", b, tree={".styluaignore": IGNORE_FILE}, args=["--respect-ignores", "--stdin-filepath", "gen/a.lua"]))
    # ---- pinned C: option grid over a fixed input set
    picks = [corpus[i] for i in range(0, len(corpus), len(corpus) // (8 if quick else 40))]
    extra = [("snippet:calls", "local   x = f 'a'  g{1}  h( \"b\" )\nlocal function  foo ( a,b ) return  a+b end\nif x then return end\n"),
             ("snippet:requires", 'local b = require("b")\nlocal a = require("a")\nlocal   z = 1\n')]
    grid_inputs = [(n, t.encode("utf-8")) for n, t in picks] + [(n, t.encode("utf-8")) for n, t in extra]
    for n, b in grid_inputs:
        for ov in FLAG_GRID:
            cases.append(mk("grid:flag", b, cfg=ov, src=n))
        for o in OTHER_OPTS:
            cases.append(mk("grid:option", b, args=o, src=n))
        for m in MODES[1:]:
            cases.append(mk("grid:check", b, mode=m, src=n))
            cases.append(mk("grid:check+width", b, mode=m, cfg={"column_width": 60}, src=n))
        cases.append(mk("grid:verify", b, verify=True, src=n))
        cases.append(mk("grid:verify+sort", b, verify=True, cfg={"sort_requires": True}, src=n))
        cases.append(mk("grid:verify+check", b, verify=True, mode="check:unified", src=n))
        ln = len(b)
        for rg in ([0, ln // 2], [ln // 3, None], [None, ln // 4], [ln // 2, ln // 2], [ln + 10, None]):
            cases.append(mk("grid:range", b, range=rg, src=n))
        cases.append(mk("grid:chunk", b, feed="chunk:5", src=n, cfg={"column_width": 80}))
    # ---- pinned D: config placement
    for pl in placements():
        fam, tree, args, tcfg = pl[:4]
        extra = {"cwd_sub": pl[4]} if len(pl) > 4 else {}
        for n, b in grid_inputs[:: (3 if quick else 1)]:
            cases.append(mk(fam, b, tree=tree, args=args, tree_cfg=tcfg, src=n, **extra))
            cases.append(mk(fam + "+cli-width", b, tree=tree, args=args, tree_cfg=tcfg, cfg={"indent_width": 2}, src=n, **extra))
            # command-line options that overlap what the configuration source sets
            cases.append(mk(fam + "+cli-overlap", b, tree=tree, args=args, tree_cfg=tcfg,
                            cfg={"indent_type": "Tabs", "quote_style": "ForceDouble", "column_width": 77}, src=n, **extra))
        cases.append(mk(fam + ":check", grid_inputs[-2][1], tree=tree, args=args, tree_cfg=tcfg, mode="check:unified", **extra))
    # ---- pinned E: ignored paths
    itree, icases = ignore_cases()
    for fam, args, skip in icases:
        for n, b in grid_inputs[:: (3 if quick else 1)]:
            cases.append(mk(fam, b, tree=itree, args=args, expect_skip=skip, src=n))
        cases.append(mk(fam + ":invalid-input", INVALID_SNIPPETS[0], tree=itree, args=args, expect_skip=skip))
        cases.append(mk(fam + ":crlf-no-final-newline", b"local   x = 1\r\nreturn   x", tree=itree, args=args, expect_skip=skip))
        for m in MODES[1:]:
            cases.append(mk(fam + ":check", grid_inputs[-2][1], tree=itree, args=args, expect_skip=skip, mode=m))
        cases.append(mk(fam + ":chunk", grid_inputs[-2][1], tree=itree, args=args, expect_skip=skip, feed="chunk:2"))
    # ---- pinned E2: a second .styluaignore next to the named path, besides the one in cwd. A path is
    # ignored when either file excludes it (gitignore semantics: the nearer file adds patterns, it
    # does not switch the outer one off).
    ntree = {".styluaignore": "dist/\nlib/\n", "vendor/.styluaignore": "generated.lua\n*.min.lua\n/anchored.lua\nsub/*.lua\n", "lib/.styluaignore": "# nothing ignored here\n",
             "vendor/x.lua": "return 1\n", "vendor/sub/y.lua": "return 1\n", "lib/m.lua": "return 1\n"}
    nested = [("ign2:nearer-file-excludes", "vendor/generated.lua", True, None),
              ("ign2:nearer-file-pattern", "vendor/a.min.lua", True, None),
              ("ign2:intermediate-file-pattern", "vendor/deep/a.min.lua", True, "intermediate-dir-styluaignore-not-consulted"),
              ("ign2:nearer-file-present-not-matching", "vendor/other.lua", False, None),
              ("ign2:cwd-file-excludes-dir-without-own-file", "dist/a.lua", True, None),
              ("ign2:neither-excludes", "src/a.lua", False, None),
              # patterns with a slash are relative to the directory of the file that holds them
              ("ign2:nearer-file-anchored", "vendor/anchored.lua", True, None),
              ("ign2:nearer-file-anchored-other-name", "vendor/unanchored.lua", False, None),
              ("ign2:parent-file-dir-pattern-with-search-parents", "-s:vendor/sub/a.lua", True, None),
              ("ign2:cwd-file-excludes-dir-with-own-file", "lib/m.lua", True, "own-dir-styluaignore-shadows-cwd")]
    for fam, path, skip, tag in nested:
        pre = []
        if path.startswith("-s:"):
            pre, path = ["--search-parent-directories"], path[3:]
        for n, b in grid_inputs[:: (6 if quick else 2)]:
            kw = dict(tree=ntree, args=pre + ["--respect-ignores", "--stdin-filepath", path], expect_skip=skip, src=n)
            if tag:
                kw["sig_tag"] = tag
            cases.append(mk(fam, b, **kw))
    # ---- pinned E3: a .styluaignore above the working directory is only consulted with --search-parent-directories
    atree = {".styluaignore": "blocked/\n*.gen.lua\n", "proj/src/x.lua": "return 1\n", "proj/blocked/y.lua": "return 1\n"}
    above = [("ign3:above-cwd-file-not-consulted", "src/a.gen.lua", False),
             ("ign3:above-cwd-file-not-consulted:dir-pattern", "blocked/a.lua", False),
             ("ign3:above-cwd-file-not-consulted:absolute", "{ROOT}/proj/src/a.gen.lua", False),
             ("ign3:above-cwd-file-not-consulted:bare-name", "a.gen.lua", False),
             # (with --search-parent-directories the documentation does not say whether ignore files above the
             # working directory count; only a path that no ignore file matches is generated)
             ("ign3:above-cwd-file-with-search-parents:not-matching", "-s:src/a.lua", False)]
    for fam, path, skip in above:
        pre = []
        if path.startswith("-s:"):
            pre, path = ["--search-parent-directories"], path[3:]
        for n, b in grid_inputs[:: (6 if quick else 2)]:
            cases.append(mk(fam, b, tree=atree, args=pre + ["--respect-ignores", "--stdin-filepath", path], expect_skip=skip, src=n, cwd_sub="proj"))
    # ---- pinned E4: what is passed through is passed through whole: long last lines without a line ending
    for k, (head, tail_len) in enumerate(((b"-- licence\n-- header\n", 1023), (b"-- licence\n", 1024), (b"-- l\n\n", 1025), (b"x=1\n", 5000), (b"", 3000), (b"a=1\nb=2\n", 70000))):
        body = head + b"local   t={" + b",".join(b"%d" % (i % 10) for i in range(tail_len // 2)) + b"}"
        cases.append(mk(f"ign:pass-through-long-last-line:{k}", body, tree={".styluaignore": IGNORE_FILE}, args=["--respect-ignores", "--stdin-filepath", "gen/a.lua"], expect_skip=True))
        cases.append(mk(f"ign:pass-through-long-last-line:{k}:chunk", body, tree={".styluaignore": IGNORE_FILE}, args=["--respect-ignores", "--stdin-filepath", "gen/a.lua"], expect_skip=True, feed="chunk:7"))
        # the same text formatted up to its first line only: the unformatted tail is printed whole as well
        if head:
            cases.append(mk(f"range:long-unformatted-last-line:{k}", body, range=[0, max(len(head) - 1, 1)]))
    # ---- pinned F: multi-megabyte inputs (first, they take longest)
    big = []
    big.append(mk("big:5MB-comments", ("bigcomment", 52000), strace=False))
    big.append(mk("big:5MB-comments:chunk-fed", ("bigcomment", 52000), feed="chunk:4093"))
    big.append(mk("big:5MB-comments:check-unified", ("bigcomment", 52000), mode="check:unified", strace=False))
    big.append(mk("big:5MB-comments:ignored", ("bigcomment", 52000), tree={".styluaignore": IGNORE_FILE}, args=["--respect-ignores", "--stdin-filepath", "gen/a.lua"], expect_skip=True, strace=False))
    big.append(mk("big:4MB-crlf-string", ("bigstring-crlf", 64000), strace=False, cfg={"line_endings": "Windows"}))
    big.append(mk("big:1MB-code", ("bigcode", 14000), strace=False))
    big.append(mk("big:1MB-code:chunk-fed", ("bigcode", 14000), feed="chunk:1021"))
    big.append(mk("big:5MB-invalid", ("bigcomment-invalid", 52000), strace=False))
    if not quick:
        big.append(mk("big:5MB-code", ("bigcode", 66000), strace=False))
    n_pinned = len(cases) + len(big)
    # ---- seeded
    rng = clilib.Rng(seed * 1000003 + 17)
    P = placements()
    for j in range(1200 if quick else 15000):
        name, text = rng.pick(corpus)
        b = text.encode("utf-8")
        v = rng.below(6)
        if v == 1:
            b = L.ed_crlf(b)
        elif v == 2:
            b = L.ed_strip_final_newline(b)
        elif v == 3:
            b = b[: rng.below(len(b) + 1)]
        elif v == 4:
            b = L.ed_insert_blank(b, rng.below(20), 1 + rng.below(4))
        cfg_ = {}
        for _ in range(rng.below(4)):
            cfg_.update(rng.pick(FLAG_GRID))
        kw = {"cfg": cfg_, "src": name, "mode": rng.pick(MODES) if rng.chance(1, 3) else "format"}
        if rng.chance(1, 6):
            kw["verify"] = True
        if rng.chance(1, 8):
            kw["range"] = [rng.below(len(b) + 1), None if rng.chance(1, 2) else rng.below(len(b) + 20)]
        if rng.chance(1, 5):
            pl = rng.pick(P)
            fam, tree, args, tcfg = pl[:4]
            kw.update(tree=tree, args=list(args), tree_cfg=tcfg)
            if len(pl) > 4:
                kw["cwd_sub"] = pl[4]
        elif rng.chance(1, 6):
            fam, args, skip = rng.pick(icases)
            kw.update(tree=itree, args=list(args), expect_skip=skip)
        elif rng.chance(1, 4):
            kw["args"] = list(rng.pick(OTHER_OPTS))
        if rng.chance(1, 5):
            kw["feed"] = "chunk:" + str(rng.pick([1, 2, 3, 13, 100, 1000, 8192]))
        if kw["mode"] != "format" and "--output-format" in kw.get("args", []):
            kw["args"] = []  # the option may be given once
        cases.append(mk("seeded", b, **kw))
    return big + cases, n_pinned


def run(tier, seed):
    t0 = time.time()
    budget = 75 if tier != "thorough" else 540
    ref = L.Ref()
    counters = {}
    out = {"evaluations": 0, "nontrivial": set(), "findings": [], "samples": [], "counters": counters,
           "inconclusive": 0, "inconclusive_notes": [], "items_total": 0}
    try:
        cases, n_pinned = build_workload(tier, seed, ref)
        out["items_total"] = len(cases)
        counters["cases.pinned"] = n_pinned
        counters["cases.seeded"] = len(cases) - n_pinned
        if not clilib.strace_available():
            out["inconclusive"] += 1
            out["inconclusive_notes"].append("strace unavailable: the write-intent oracle did not run (snapshots only)")
        not_run = 0
        fams = {}

        def work(c):
            if time.time() - t0 > budget and not c["family"].startswith("big"):
                return None
            return run_case(c, ref)

        with cf.ThreadPoolExecutor(max_workers=svlib.NCPU) as ex:
            for c, r in zip(cases, ex.map(work, cases)):
                if r is None:
                    not_run += 1
                    continue
                fam = c["family"].split(":")[0]
                fams[fam] = fams.get(fam, 0) + r["evaluations"]
                out["evaluations"] += r["evaluations"]
                out["nontrivial"].update(r["nontrivial"])
                out["findings"].extend(r["findings"])
                out["inconclusive"] += r["inconclusive"]
                out["inconclusive_notes"].extend(r["notes"][:2])
                for k, v in r["counters"].items():
                    counters[k] = counters.get(k, 0) + v
        for k, v in fams.items():
            counters["evaluations.family." + k] = v
        counters["cases.not_run_budget"] = not_run
        if not_run:
            out["inconclusive_notes"].append(f"{not_run} cases not run: wall-clock budget of the tier reached")
        want = ["cfg:next-to-stdin-filepath", "ign:dir", "invalid"]
        for c in cases:
            if c["family"] in want and "input" in c and len(c["input"].get("text", "x" * 9999)) < 1200:
                want.remove(c["family"])
                out["samples"].append({k: c[k] for k in c if k != "src"})
    finally:
        ref.close()
    out["nontrivial"] = sorted(out["nontrivial"])
    out["findings"].sort(key=lambda f: (f["signature"], "input_gen" in f["case"], len(str(f["case"].get("input", "")))))
    dedup, seen = [], {}
    for f in out["findings"]:
        k = f["signature"]
        seen[k] = seen.get(k, 0) + 1
        if seen[k] <= 3:
            dedup.append(f)
    for k, v in seen.items():
        counters["failing_evaluations." + k] = v
    out["findings"] = dedup
    return out


def replay(case):
    ref = L.Ref()
    try:
        return run_case(case, ref)["findings"]
    finally:
        ref.close()
