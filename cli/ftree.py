"""Shared by the C13 / C14 monitors: replayable *cases* (a small directory tree whose files carry an
outcome class, an argument list, environment extras, an optional strace fault injection), the
model of which files a run selects and what must happen to each, and the executor that runs the
real binary on a fresh scratch tree and returns raw observations.

Only unambiguous selections are generated (explicit file arguments; `*.lua`/`*.luau` files below
directory arguments; simple basename globs; no hidden files, no ignore files, no overlapping
arguments) - selection subtleties are C16's business, configuration search is C15's.

The class of a file is never taken from the generator's intention: it is *computed* from the bytes
with the library reference (`sv libfmt`) under the options of the run, so the model cannot disagree
with the tree it judges.
"""
import base64
import concurrent.futures
import fnmatch
import json
import os
import re

import clilib
import svlib

MARKER = "SVCRASHMARK"
MARKER_ENV = "STYLUA_VERIF_PANIC_MARKER"
OLD_MTIME = 978307200  # 2001-01-01: every tree entry gets an old, distinct mtime; any touch shows
WORKERS = min(16, svlib.NCPU)

FAIL_CLASSES = ("unparseable", "invalid-utf8", "verify-fail", "crash", "eacces-read", "eacces-write")


# ------------------------------------------------------------------------------------------------
# file specs:  str (utf-8 text) | {"b64": ...} (raw bytes) | {"symlink": target} | {"dir": 1}
# ------------------------------------------------------------------------------------------------

def enc(data):
    if isinstance(data, str):
        return data
    try:
        return data.decode("utf-8")
    except UnicodeDecodeError:
        return {"b64": base64.b64encode(data).decode("ascii")}


def spec_bytes(spec):
    """bytes of a regular-file spec, None for symlinks / directories."""
    if isinstance(spec, str):
        return spec.encode("utf-8")
    if "b64" in spec:
        return base64.b64decode(spec["b64"])
    return None


def materialize(sc, files, modes=None):
    """Create the tree in dict order (creation order decides readdir order on tmpfs), then give every
    entry an old, distinct mtime so that any later write / touch is visible in the snapshot."""
    for rel, spec in files.items():
        p = os.path.join(sc.root, rel)
        os.makedirs(os.path.dirname(p), exist_ok=True)
        if isinstance(spec, dict) and "symlink" in spec:
            os.symlink(spec["symlink"], p)
        elif isinstance(spec, dict) and "dir" in spec:
            os.makedirs(p, exist_ok=True)
        else:
            with open(p, "wb") as f:
                f.write(spec_bytes(spec))
    entries = []
    for dp, dns, fns in os.walk(sc.root):
        for n in dns + fns:
            entries.append(os.path.join(dp, n))
    entries.sort(key=lambda p: (-p.count(os.sep), p))  # deepest first; parents after their children
    for i, p in enumerate(entries):
        t = OLD_MTIME + i
        os.utime(p, (t, t), follow_symlinks=False)
    os.utime(sc.root, (OLD_MTIME - 1, OLD_MTIME - 1))
    # permission bits last (case["modes"]: rel -> octal string); they do not stop a process that may
    # write despite them (root), which is what the model asks the kernel about, not the bits
    for rel, m in (modes or {}).items():
        os.chmod(os.path.join(sc.root, rel), int(m, 8))


# ------------------------------------------------------------------------------------------------
# options -> argv / Config
# ------------------------------------------------------------------------------------------------

def config_for(opts):
    kw = {}
    if opts.get("sort"):
        kw["sort_requires"] = True
    if opts.get("spaces"):
        kw["indent_type"] = "Spaces"
    return clilib.cfg(**kw)


def build_argv(opts, targets):
    a = []
    if opts.get("check"):
        a.append("--check")
    if opts.get("format"):
        a += ["--output-format", opts["format"]]
    if opts.get("verify"):
        a.append("--verify")
    if opts.get("sort"):
        a.append("--sort-requires")
    if opts.get("spaces"):
        a += ["--indent-type", "Spaces"]
    if opts.get("threads") is not None:
        a += ["--num-threads", str(opts["threads"])]
    if opts.get("range"):
        rs, re_ = opts["range"]
        if rs is not None:
            a += ["--range-start", str(rs)]
        if re_ is not None:
            a += ["--range-end", str(re_)]
    if opts.get("verbose"):
        a.append("--verbose")
    if opts.get("globs"):
        for g in opts["globs"]:
            a += ["-g", g]
        a.append("--")
    return a + list(targets)


def make_case(files, opts, targets, env=None, inject=None, tag=""):
    return {"files": files, "opts": opts, "targets": list(targets), "argv": build_argv(opts, targets),
            "env": dict(env or {}), "inject": [list(x) for x in (inject or [])], "tag": tag}


# ------------------------------------------------------------------------------------------------
# the model: selection, classes, expected effects
# ------------------------------------------------------------------------------------------------

def norm_target(t):
    if t.startswith("{ROOT}"):
        t = t[len("{ROOT}"):].lstrip("/") or "."
    return os.path.normpath(t)


def link_target(files, rel):
    """tree path of the regular file a symbolic link leads to, None when it dangles"""
    spec = files.get(rel)
    if not (isinstance(spec, dict) and "symlink" in spec):
        return None
    t = os.path.normpath(os.path.join(os.path.dirname(rel), spec["symlink"]))
    if t in files and spec_bytes(files[t]) is not None:
        return t
    return None


def _kind(files, rel):
    if rel == ".":
        return "dir"
    spec = files.get(rel)
    if spec is not None:
        if isinstance(spec, dict) and "symlink" in spec:
            # a link to a regular file is that file under the link's name (the generators only link to files
            # that no argument selects under their own name)
            return "linkfile" if link_target(files, rel) else "symlink"
        if isinstance(spec, dict) and "dir" in spec:
            return "dir"
        return "file"
    if any(k.startswith(rel + "/") for k in files):
        return "dir"
    return None


def glob_selected(rel, globs):
    base = os.path.basename(rel)
    if not globs:
        return base.endswith(".lua") or base.endswith(".luau")
    res = None
    for g in globs:  # gitignore-style whitelist of basename patterns; the last matching pattern wins
        neg = g.startswith("!")
        pat = g[1:] if neg else g
        if fnmatch.fnmatchcase(base, pat):
            res = not neg
    return bool(res)


def parse_inject(case):
    """-> (normalised relpath, n) for `openat:error=EACCES:when=n`, or None. At most one injection per
    run: strace keeps a single expression per syscall, and its counter runs over all -P paths."""
    inj = case.get("inject") or []
    if not inj:
        return None
    if len(inj) != 1:
        raise svlib.HarnessError("at most one fault injection per case")
    path, expr = inj[0]
    m = re.match(r"^openat:error=EACCES:when=(\d+)$", expr)
    if not m:
        raise svlib.HarnessError(f"unsupported injection {expr}")
    return (os.path.normpath(path), int(m.group(1)))


def model(case, lf):
    """-> dict: selected {rel: info}, order (selection order), missing [target spellings],
    skipped_links [rel], exit_check, exit_write, classes (sorted class names incl. 'missing')."""
    files, opts = case["files"], case["opts"]
    cfg_ = config_for(opts)
    marker = (case.get("env") or {}).get(MARKER_ENV) or None
    inj = parse_inject(case)
    order, missing, skipped_links = [], [], []
    for t in case["targets"]:
        rel = norm_target(t)
        k = _kind(files, rel)
        if k is None or k == "symlink":  # only dangling symlinks are ever generated
            missing.append(t)
        elif k in ("file", "linkfile"):
            order.append(rel)
        else:
            prefix = "" if rel == "." else rel + "/"
            for f in files:
                if not f.startswith(prefix):
                    continue
                fk = _kind(files, f)
                if fk == "symlink":
                    skipped_links.append(f)
                elif fk in ("file", "linkfile") and glob_selected(f, opts.get("globs")):
                    order.append(f)
    if len(set(order)) != len(order):
        raise svlib.HarnessError("generator produced overlapping arguments")
    selected = {}
    for rel in order:
        data = spec_bytes(files[link_target(files, rel) or rel])
        rg = opts.get("range")
        if rg and (rg[0] in (None, 0)) and (rg[1] is None or rg[1] >= len(data)):
            # a range that covers the whole text is no restriction: the expectation is taken from the
            # run without a range (an oracle the range handling of the library cannot influence)
            rg = None
        r = lf.format(data, cfg_, rg, verify=bool(opts.get("verify")), panic_marker=marker)
        expected = data
        if r[0] == "ok":
            out = r[1].encode("utf-8")
            cls = "formatted" if out == data else "unformatted"
            expected = out
        elif r[0] == "parse_error":
            cls = "unparseable"
        elif r[0] == "verify_error":
            cls = "verify-fail"
        elif r[0] == "panic":
            cls = "crash"
        elif r[0] == "unreadable":
            cls = "invalid-utf8"
        else:
            raise svlib.HarnessError(f"unexpected libfmt reply {r[0]}")
        mode = (case.get("modes") or {}).get(rel)
        if mode is not None and not (int(mode, 8) & 0o200) and os.geteuid() != 0 and not opts.get("check") and cls == "unformatted":
            cls, expected = "eacces-write", data
        if inj and inj[0] == rel:
            if inj[1] == 1:
                cls, expected = "eacces-read", data
            elif inj[1] == 2 and not opts.get("check") and cls == "unformatted":
                cls, expected = "eacces-write", data
        fails = cls in FAIL_CLASSES
        selected[rel] = {"cls": cls, "fails": fails, "differs": cls == "unformatted",
                         "needs_write": cls in ("unformatted", "eacces-write"),
                         "original": data, "final_write_mode": data if fails else expected}
    any_fail = bool(missing) or any(i["fails"] for i in selected.values())
    any_diff = any(i["differs"] for i in selected.values())
    classes = sorted({i["cls"] for i in selected.values()} | ({"missing"} if missing else set()))
    return {"selected": selected, "order": order, "missing": missing, "skipped_links": skipped_links,
            "exit_check": 2 if any_fail else (1 if any_diff else 0), "exit_write": 2 if any_fail else 0,
            "classes": classes}


def class_multiset(mdl):
    c = {}
    for i in mdl["selected"].values():
        c[i["cls"]] = c.get(i["cls"], 0) + 1
    if mdl["missing"]:
        c["missing"] = len(mdl["missing"])
    return "+".join(f"{k}{v}" for k, v in sorted(c.items())) or "none"


def bad_classes(mdl):
    """the classes of a case that are not 'formatted' (signature component)."""
    return "+".join(c for c in mdl["classes"] if c != "formatted") or "none"


def target_shape(case):
    kinds = set()
    for t in case["targets"]:
        k = _kind(case["files"], norm_target(t))
        kinds.add({"file": "file", "dir": "dir"}.get(k, "absent"))
    return "+".join(sorted(kinds))


def case_key(prop, case, mdl):
    o = case["opts"]
    return "|".join([prop, "check" if o.get("check") else "write", str(o.get("format")), class_multiset(mdl),
                     target_shape(case), f"t{o.get('threads')}", f"v{int(bool(o.get('verify')))}",
                     f"s{int(bool(o.get('sort')))}", f"g{int(bool(o.get('globs')))}", f"sp{int(bool(o.get('spaces')))}",
                     "inj" if case.get("inject") else "noinj", f"n{len(case['targets'])}"])


# ------------------------------------------------------------------------------------------------
# execution (thread-safe: no libfmt in here)
# ------------------------------------------------------------------------------------------------

def execute(case, exit_trace=False):
    """Run the case once on a fresh scratch tree. -> observation dict."""
    inject = [tuple(x) for x in (case.get("inject") or [])]
    have_strace = clilib.strace_available()
    if inject and not have_strace:
        return {"skipped": "strace unavailable (fault injection impossible)"}
    with clilib.Scratch(prefix="sv-ft-") as sc:
        materialize(sc, case["files"], case.get("modes"))
        before = clilib.snapshot(sc.root)
        extra = dict(case.get("env") or {})
        tr_path = None
        if exit_trace:
            tr_path = os.path.join(sc.base, "exit.trace")
            extra["STYLUA_VERIF_TRACE"] = tr_path
        argv = [a.replace("{ROOT}", sc.root) for a in case["argv"]]
        # strace -P matches the path *string* a syscall passes (plus the canonical form), so the faulted
        # file is named in every spelling the walker can produce for it: x, ./x and absolute
        spelled = []
        for path, expr in inject:
            rel = os.path.normpath(path)
            spelled += [(rel, expr), ("./" + rel, expr), (os.path.join(sc.root, rel), expr)]
        run = clilib.run_cli(argv, sc.root, sc.env(extra), strace=have_strace and not inject,
                             inject=spelled or None, timeout=60)
        after = clilib.snapshot(sc.root)
        trace = []
        if tr_path and os.path.exists(tr_path):
            for line in open(tr_path, errors="replace"):
                p = line.split()
                if len(p) >= 3:
                    trace.append(p[1:])
        events = None
        if run.events is not None:
            events = []
            for e in clilib.events_in_tree(run.events, sc.root):
                e = dict(e)
                e["rel"] = [os.path.relpath(p, sc.root) for p in e["paths"]]
                del e["paths"]
                events.append(e)
        err = b"\n".join(l for l in run.err.split(b"\n") if not l.startswith(b"strace:"))
        return {"rc": run.rc, "out": run.out, "err": err, "timed_out": run.timed_out, "events": events,
                "before": before, "after": after, "root": sc.root, "exit_trace": trace,
                "strace_full": have_strace and not inject}


def run_all(cases, exec_fn, on_result):
    """Execute every case on a thread pool (each execution is a subprocess); results are handed to
    on_result(case, obs_or_exception) on the calling thread (which owns the libfmt pipe)."""
    with concurrent.futures.ThreadPoolExecutor(max_workers=WORKERS) as ex:
        futs = {ex.submit(exec_fn, c): c for c in cases}
        for fut in concurrent.futures.as_completed(futs):
            c = futs[fut]
            try:
                obs = fut.result()
            except svlib.HarnessError:
                raise
            except Exception as e:  # harness trouble is never a verdict
                obs = e
            on_result(c, obs)


def printed_rel(p, root):
    """a path as the tool printed it -> path relative to the tree root."""
    if os.path.isabs(p):
        return os.path.relpath(os.path.normpath(p), root)
    return os.path.normpath(p)


# ------------------------------------------------------------------------------------------------
# shrinking a failing case (stable signatures: the class set of a *minimal* failing case)
# ------------------------------------------------------------------------------------------------

def without(case, rel=None, target=None):
    files = dict(case["files"])
    targets = list(case["targets"])
    inject = list(case.get("inject") or [])
    if rel is not None:
        files.pop(rel, None)
        targets = [t for t in targets if norm_target(t) != rel]
        inject = [x for x in inject if os.path.normpath(x[0]) != rel]
    if target is not None:
        targets = [t for t in targets if t != target]
    if not targets:
        return None
    # a directory argument that lost its last file must still exist (else it would turn into a missing path)
    for t in targets:
        r = norm_target(t)
        if _kind(case["files"], r) == "dir" and _kind(files, r) is None:
            files[r] = {"dir": 1}
    return make_case(files, case["opts"], targets, case.get("env"), inject, case.get("tag", ""))


def minimise(case, still_fails, budget=30):
    """Greedy one-at-a-time removal of files and arguments while still_fails(case) holds."""
    cur = case
    changed = True
    while changed and budget > 0:
        changed = False
        cands = [("rel", r) for r in cur["files"]] + [("target", t) for t in cur["targets"]]
        for kind, x in cands:
            if budget <= 0:
                break
            if kind == "rel" and x not in cur["files"]:
                continue
            if kind == "target" and x not in cur["targets"]:
                continue
            nxt = without(cur, rel=x) if kind == "rel" else without(cur, target=x)
            if nxt is None or (nxt["files"] == cur["files"] and nxt["targets"] == cur["targets"]):
                continue
            budget -= 1
            try:
                if still_fails(nxt):
                    cur = nxt
                    changed = True
            except svlib.HarnessError:
                pass
    return cur


# ------------------------------------------------------------------------------------------------
# texts
# ------------------------------------------------------------------------------------------------

def unformatted_text(k, variant):
    v = variant % 14
    if v == 11:  # nothing but white space: differs from its formatted text (empty)
        return "\n\n  \n"
    if v == 12:
        return "\r\n\r\n"
    if v == 13:
        return " \t "
    if v == 0:
        return clilib.lua_unformatted(k)
    if v == 1:  # several separated hunks
        lines = [f"local a{k}_{i} = {i}" for i in range(30)]
        lines[2] = f"local   a{k}_2   =   2"
        lines[15] = f"local a{k}_15 = {{ 1,2,3 }}"
        lines[28] = f"if a{k}_1 then print( a{k}_3 ) end"
        return "\n".join(lines) + "\n"
    if v == 2:  # CRLF
        return f"local v{k} = 1\r\nlocal w{k} = 2\r\n"
    if v == 3:  # no final newline
        return f"local v{k} = 1"
    if v == 4:  # Luau
        return f"local v{k}:number=1\ntype T{k}={{a:number}}\n"
    if v == 5:  # quotes
        return f"local s{k} = 'x{k}'\n"
    if v == 6:  # large: keeps a worker busy while others finish
        return "".join(f"local   b{k}_{i}  =  {{ {i},  {i + 1} }}\n" for i in range(300))
    if v == 7:  # blank lines around
        return f"\n\nlocal v{k} = 1\n\n\n"
    if v == 8:  # non-ASCII
        return f"local s{k} = \"héllo ✓\"   \nreturn   s{k}\n"
    if v == 9:  # function body, indentation
        return f"function f{k}( a,b )\nreturn a+b\nend\n"
    return f"local t{k} = {{\n  a = 1,\n      b = 2,\n}}\n"


def requires_text(k):
    return f'local b{k} = require("b{k}")\nlocal a{k} = require("a{k}")\n'


def unparseable_text(k, variant):
    v = variant % 8
    return [clilib.lua_unparseable(k), f"local x{k} = 'unclosed\n", f"x{k} = = 1\n", f"@@@ {k}\n",
            f"end -- {k}\n", f"local y{k} = 1 --[[ never closed {k}\n",
            # a byte order mark is not Lua: formatted text behind it, and a comment behind it
            f"\ufefflocal v{k} = {k}\n", f"\ufeff-- only a comment {k}\n"][v]


def invalid_utf8_bytes(k, variant):
    v = variant % 4
    return [clilib.lua_invalid_utf8(k), b"\xc3\x28 local x = 1\n", b"\x00\xff\x00\xfe binary " + str(k).encode(),
            f"local v{k} = 1\n".encode() + b"\x80\n"][v]


def formatted_text(lf, cfg_, k, variant):
    v = variant % 13
    if v == 11:
        return ""
    if v == 12:
        return f"-- only a comment {k}\n"
    r = lf.format(unformatted_text(k, v % 11), cfg_)
    if r[0] == "ok" and lf.format(r[1], cfg_)[1] == r[1]:
        return r[1]
    return f"local v{k} = {k}\n"


def text_for(lf, cfg_, cls, k, variant):
    """content spec for an *intended* class (the judged class is recomputed from the bytes)."""
    if cls == "F":
        return formatted_text(lf, cfg_, k, variant)
    if cls == "U":
        return unformatted_text(k, variant)
    if cls == "P":
        return unparseable_text(k, variant)
    if cls == "X":
        return enc(invalid_utf8_bytes(k, variant))
    if cls == "V":
        return requires_text(k)
    if cls == "C":
        base = unformatted_text(k, variant) if variant % 2 == 0 else formatted_text(lf, cfg_, k, variant)
        return base + f"-- {MARKER} {k}\n"
    raise ValueError(cls)


def short_case(case, mdl=None, obs=None):
    """compact rendering for evidence samples."""
    files = {}
    for rel, spec in list(case["files"].items())[:8]:
        if isinstance(spec, str):
            files[rel] = spec if len(spec) <= 100 else spec[:100] + f"...(+{len(spec) - 100} chars)"
        else:
            files[rel] = spec if len(json.dumps(spec)) <= 120 else {"b64": "..."}
    s = {"files": files, "argv": case["argv"], "env": case.get("env") or {}, "inject": case.get("inject") or []}
    if len(case["files"]) > 8:
        s["more_files"] = len(case["files"]) - 8
    if mdl is not None:
        s["classes"] = {r: i["cls"] for r, i in list(mdl["selected"].items())[:12]}
        s["missing_arguments"] = mdl["missing"]
        s["expected_exit"] = mdl["exit_check"] if case["opts"].get("check") else mdl["exit_write"]
    if obs is not None:
        s["observed_exit"] = obs.get("rc")
    return s
