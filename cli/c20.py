"""C20 -- an option means the same thing wherever it is written.

Pinned, exhaustive part: every documented option x every documented value (numeric options over
{1,2,3,4,8,40,80,120,1000}) x every carrier -- `stylua.toml`, `.stylua.toml`, the command-line flag in
exact / lower / upper case (and the flag overriding a different value in stylua.toml), the
`.editorconfig` key in every spelling the mapping table lists -- is run through the real binary on a
probe whose formatting is sensitive to every option; the bytes on disk are compared between
carriers and with the library's output for the directly constructed Config (`sv libfmt`, which uses
none of serde / clap / ec4rs).  Malformed configuration files (every key misspelled three ways, every
value given two wrong types, invalid enum values, unknown key / table, unknown key inside
[sort_requires], broken TOML) must end with exit status 2 and no file modified (snapshot + strace).
Seeded part: random multi-option configurations written through toml / flags / a toml+flag mix /
.editorconfig.  Thorough adds a malformed configuration that governs only a LATER directory of the
walk (classified separately).
"""
import clilib
import cfgmodel as M

PROP = "C20"

META = {
    "level": "exploration",
    "rule": ("Pinned and exhaustive: option x documented value x carrier (stylua.toml, .stylua.toml, flag exact / lower / upper "
             "case, flag over a stylua.toml holding a different value, every .editorconfig spelling of the value) on a probe "
             "file for which every option has at least two values with different output (measured, see sensitivity); "
             "syntax is probed with six dialect-specific files whose accept/reject pattern differs per dialect. Malformed "
             "files: 11 keys x 3 misspellings, wrong-typed values, invalid enum values, unknown key / table, unknown key in "
             "[sort_requires], broken TOML, through stylua.toml / .stylua.toml / --config-path, targets as directory / file / "
             "stdin. Seeded: random multi-option configurations through four carriers. Distinct = (option, value, carrier) or "
             "(malformation, carrier, target shape); non-trivial = the value changed the bytes relative to the default "
             "configuration or to the overridden stylua.toml value, or the malformed file governed an unformatted target. Carriers added: flags with --no-editorconfig, and toml / flags / .editorconfig ([*.lua] and [*]) for code piped through stdin with and without --stdin-filepath."),
    "assumptions": [
        "documented values = README option table; EditorConfig keys and spellings = the table in src/editorconfig.rs plus the "
        "EditorConfig specification for the standard keys (the README only links to editorconfig.org)",
        "a lower/upper-case flag value that the flag parser itself rejects (usage error, nothing read) is counted as 'variant not "
        "accepted', not judged",
        "sv libfmt builds Config from Rust enum variants directly and is the reference for 'the library's output'",
    ],
}

PROBE = '''local zeta = require("zeta")
local alpha = require('alpha')
local s1, s2, s3 = 'single', "double", 'it\\'s "both"'
local s4 = "say 'a' 'b' \\"x\\""
local function  add (a, b) return a + b end
function obj.method  (self) return self end
if zeta then return end
call "string"
call { 1, 2 }
call  ("paren")
call  ({ 3 })
print  (add(1, 2))
g()
f(a)
gg(bb)
h(a, bc)
if alpha then
    while s1 do
        for i = 1, 2 do
            local t = { first = 1, second = 2 }
        end
    end
end
if alpha then
    while s1 do
        for i = 1, 2 do
            n100 = fn(aaaaaaaaaaaaaaaaaaaaaa, bbbbbbbbbbbbbbbbbbbbbb, cccccccccccccccccccccc, dddddddddddddddddddd, e)
            n108 = fn(aaaaaaaaaaaaaaaaaaaaaaaa, bbbbbbbbbbbbbbbbbbbbbbbb, cccccccccccccccccccccccc, dddddddddddddddddddddd, e)
            n112 = fn(aaaaaaaaaaaaaaaaaaaaaaaaa, bbbbbbbbbbbbbbbbbbbbbbbbb, ccccccccccccccccccccccccc, ddddddddddddddddddddddd, e)
            n116 = fn(aaaaaaaaaaaaaaaaaaaaaaaaaa, bbbbbbbbbbbbbbbbbbbbbbbbbb, cccccccccccccccccccccccccc, dddddddddddddddddddddddd, e)
        end
    end
end
local w40 = fn(aaaaaaaa, bbbbbbbb, cccccccc, dd)
local w80 = fn(aaaaaaaaaaaaaaaa, bbbbbbbbbbbbbbbb, cccccccccccccccc, dddddddddddddddd, ee)
local w120 = fn(aaaaaaaaaaaaaaaaaaaaaaaa, bbbbbbbbbbbbbbbbbbbbbbbb, cccccccccccccccccccccccc, dddddddddddddddddddddddd, eeeeeeeeeeee)
local w1000 = fn(aaaaaaaaaaaaaaaaaaaaaaaaaaaaaaaaaaaaaa, bbbbbbbbbbbbbbbbbbbbbbbbbbbbbbbbbbbbb, cccccccccccccccccccccccccccccccccccccc, dddddddddddddddddddddddddddddddd, eeeeeeeeeeee)
'''

SYNTAX_PROBES = {
    "s_goto.lua": "goto   done\n::done::\nlocal  a=1\n",
    "s_floor.lua": "local  a = 7  //  2\n",
    "s_attr.lua": "local  a  <const>  = 1\n",
    "s_type.lua": "local  a :  number  = 1\n",
    "s_jit.lua": "local  a = 1LL  +  2ULL\n",
    "s_bit.lua": "local  a = 1  &  2  |  3\n",
    "s_plain.lua": "local  a = 'plain'\n",
}

CONTEXT = {"indent_width": {"indent_type": "Spaces"}}
EC_CONTEXT = {"indent_width": {"indent_style": "space"}}


def probe_files(opt):
    # two files of one directory and one of a sub-directory: what the first file of a directory gets, the
    # later ones get too
    return dict(SYNTAX_PROBES) if opt == "syntax" else {"probe.lua": PROBE, "sibling.lua": M.lua_probe(8), "sub/second.lua": M.lua_probe(7)}


def other_value(opt, val):
    vs = M.documented_values(opt)
    return vs[(vs.index(val) + 1) % len(vs)]


def flag_argv(opt, val, variant="exact"):
    if opt == "sort_requires":
        return ["--sort-requires"] if val else []
    s = str(val)
    if variant == "lower":
        s = s.lower()
    elif variant == "upper":
        s = s.upper()
    return [M.FLAG_OF[opt], s]


def mk(family, tag, files, argv, stdin=None, **meta):
    c = {"prop": PROP, "family": family, "tag": tag, "files": dict(files), "cwd": "proj", "argv": list(argv), "env": {}, "stdin": stdin}
    c["files"] = {(k if k.startswith("@") else "proj/" + k): v for k, v in files.items()}
    c.update(meta)
    return c


def carrier_cases():
    cases = []
    for opt in M.OPTION_NAMES:
        for val in M.documented_values(opt):
            want = dict(CONTEXT.get(opt, {}), **{opt: val})
            pf = probe_files(opt)
            meta = {"opt": opt, "val": val, "want": want}
            for name, carrier in (("stylua.toml", "toml"), (".stylua.toml", "dot-toml")):
                cases.append(mk("carrier", f"{opt}={val}:{carrier}", dict(pf, **{name: M.toml_text(want)}), ["."], carrier=carrier, **meta))
            cases.append(mk("carrier", f"{opt}={val}:config-path", dict(pf, **{"cfg/alt.toml": M.toml_text(want)}),
                            ["--config-path", "cfg/alt.toml", "."], carrier="config-path", **meta))
            ctx_flags = []
            for k, v in CONTEXT.get(opt, {}).items():
                ctx_flags += flag_argv(k, v)
            if opt != "syntax":
                # the same value for code piped through stdin (no file of the tree is touched)
                cases.append(mk("carrier", f"{opt}={val}:toml:stdin", {"stylua.toml": M.toml_text(want)}, ["-"], stdin=PROBE,
                                carrier="toml-stdin", carrier_stdin=True, **meta))
            if not (opt == "sort_requires" and not val):
                cases.append(mk("carrier", f"{opt}={val}:flag", pf, ctx_flags + flag_argv(opt, val) + ["."], carrier="flag", **meta))
                # flags do not depend on .editorconfig support being on
                cases.append(mk("carrier", f"{opt}={val}:flag:no-editorconfig", pf, ctx_flags + flag_argv(opt, val) + ["--no-editorconfig", "."],
                                carrier="flag-no-editorconfig", **meta))
                if opt != "syntax":
                    cases.append(mk("carrier", f"{opt}={val}:flag:stdin", {}, ctx_flags + flag_argv(opt, val) + ["-"], stdin=PROBE,
                                    carrier="flag-stdin", carrier_stdin=True, **meta))
                    cases.append(mk("carrier", f"{opt}={val}:flag:no-editorconfig:stdin", {}, ["--no-editorconfig"] + ctx_flags + flag_argv(opt, val) + ["-"],
                                    stdin=PROBE, carrier="flag-no-editorconfig-stdin", carrier_stdin=True, **meta))
                base = dict(CONTEXT.get(opt, {}), **{opt: other_value(opt, val)})
                cases.append(mk("carrier", f"{opt}={val}:flag-over-toml", dict(pf, **{"stylua.toml": M.toml_text(base)}),
                                flag_argv(opt, val) + ["."], carrier="flag-over-toml", base=base, **meta))
                # the flag on top of a configuration file named with --config-path (holding another value),
                # and the value itself in a file named with --config-path
                cases.append(mk("carrier", f"{opt}={val}:flag-over-config-path", dict(pf, **{"cfg/alt.toml": M.toml_text(base)}),
                                ["--config-path", "cfg/alt.toml"] + flag_argv(opt, val) + ["."], carrier="flag-over-config-path", base=base, **meta))
                if opt in M.ENUMS:
                    for variant in ("lower", "upper"):
                        cases.append(mk("carrier", f"{opt}={val}:flag-{variant}", pf, ctx_flags + flag_argv(opt, val, variant) + ["."],
                                        carrier="flag-" + variant, **meta))
            for spelling, kv in M.editorconfig_spellings(opt, val):
                kv = dict(EC_CONTEXT.get(opt, {}), **kv)
                sec = "*.lua" if (len(spelling) + len(str(val))) % 2 else "*"
                cases.append(mk("carrier", f"{opt}={val}:editorconfig:{spelling}", dict(pf, **{".editorconfig": M.editorconfig_text([(sec, kv)])}),
                                ["."], carrier="editorconfig", spelling=spelling, **meta))
                if opt != "syntax":
                    # stdin is Lua code: the `*.lua` sections apply to it, with and without a file name
                    for sec2 in ("*.lua", "*"):
                        ec = {".editorconfig": M.editorconfig_text([(sec2, kv)])}
                        cases.append(mk("carrier", f"{opt}={val}:editorconfig:{spelling}:[{sec2}]:stdin", ec, ["-"], stdin=PROBE,
                                        carrier="editorconfig-stdin", carrier_stdin=True, spelling=spelling, **meta))
                        cases.append(mk("carrier", f"{opt}={val}:editorconfig:{spelling}:[{sec2}]:stdin-filepath", ec, ["--stdin-filepath", "probe.lua", "-"], stdin=PROBE,
                                        carrier="editorconfig-stdin-filepath", carrier_stdin=True, spelling=spelling, **meta))
    # indent_width when the indentation is tabs: it only enters the width of a line (nested long calls of the
    # probe), and every carrier must hand over the same number - also an .editorconfig that sets tab_width besides
    # indent_size (indent_size decides unless it says `tab`)
    for val in M.NUMS:
        want = {"indent_type": "Tabs", "indent_width": val}
        pf = probe_files("indent_width")
        meta = {"opt": "indent_width@tabs", "val": val, "want": want}
        cases.append(mk("carrier", f"indent_width@tabs={val}:toml", dict(pf, **{"stylua.toml": M.toml_text(want)}), ["."], carrier="toml", **meta))
        cases.append(mk("carrier", f"indent_width@tabs={val}:flag", pf, ["--indent-type", "Tabs", "--indent-width", str(val), "."], carrier="flag", **meta))
        for spelling, kv in (("indent_size", {"indent_style": "tab", "indent_size": str(val)}),
                             ("indent_size+tab_width", {"indent_style": "tab", "indent_size": str(val), "tab_width": str(val + 5)}),
                             ("tab_width", {"indent_style": "tab", "indent_size": "tab", "tab_width": str(val)})):
            cases.append(mk("carrier", f"indent_width@tabs={val}:editorconfig:{spelling}", dict(pf, **{".editorconfig": M.editorconfig_text([("*.lua", kv)])}),
                            ["."], carrier="editorconfig", spelling=spelling, **meta))
    # .editorconfig sections are per file name: two files of one directory under different sections get, each,
    # what a stylua.toml / the flags with that file's values give
    for k, (va, vb) in enumerate(((2, 6), (4, 3), (8, 1))):
        fa, fb = "probe.lua", "probe_spec.lua"
        files = {fa: PROBE, fb: M.lua_probe(70 + k)}
        sec = [("*.lua", {"indent_style": "space", "indent_size": str(va), "quote_type": "double"}),
               ("*_spec.lua", {"indent_style": "space", "indent_size": str(vb), "quote_type": "single"})]
        for order in ([fa, fb], [fb, fa], ["."]):
            cases.append(mk("carrier", f"ec-per-file:{k}:{'+'.join(order)}", dict(files, **{".editorconfig": M.editorconfig_text(sec)}), order,
                            carrier="editorconfig", spelling="per-file-sections", opt="indent_width+quote_style", val=f"{va}/{vb}",
                            want={"indent_type": "Spaces", "indent_width": va, "quote_style": "AutoPreferDouble"},
                            want_by_file={"proj/" + fb: {"indent_type": "Spaces", "indent_width": vb, "quote_style": "AutoPreferSingle"}}))
    # the one value only .editorconfig can express
    want = {"column_width": M.USIZE_MAX}
    cases.append(mk("carrier", "column_width=off:editorconfig", dict(probe_files("column_width"), **{".editorconfig": M.editorconfig_text([("*", {"max_line_length": "off"})])}),
                    ["."], carrier="editorconfig", spelling="off", opt="column_width", val="off", want=want))
    return cases


# ------------------------------------------------------------------------------------------------
# malformed configuration files
# ------------------------------------------------------------------------------------------------

VALID_LINE = {
    "syntax": 'syntax = "Lua51"', "column_width": "column_width = 80", "line_endings": 'line_endings = "Windows"',
    "indent_type": 'indent_type = "Spaces"', "indent_width": "indent_width = 2", "quote_style": 'quote_style = "ForceSingle"',
    "call_parentheses": 'call_parentheses = "None"', "space_after_function_names": 'space_after_function_names = "Always"',
    "collapse_simple_statement": 'collapse_simple_statement = "Always"',
}


def misspellings(key):
    return [("drop-letter", key[:-2] + key[-1]), ("hyphen", key.replace("_", "-") if "_" in key else key + "-"), ("capital", key[0].upper() + key[1:])]


def malformed_texts():
    out = []  # (kind, key, text)
    for key, line in VALID_LINE.items():
        rhs = line.split("=", 1)[1]
        for how, bad in misspellings(key):
            out.append((f"misspelled-key.{how}", key, f"{bad} ={rhs}\n"))
        if key in M.INT_OPTS:
            out.append(("wrong-type.string", key, f'{key} = "80"\n'))
            out.append(("wrong-type.bool", key, f"{key} = true\n"))
            out.append(("wrong-type.float", key, f"{key} = 2.5\n"))
            out.append(("invalid-value.negative", key, f"{key} = -1\n"))
        else:
            out.append(("wrong-type.integer", key, f"{key} = 1\n"))
            out.append(("wrong-type.bool", key, f"{key} = false\n"))
            out.append(("wrong-type.array", key, f"{key} = [{rhs.strip()}]\n"))
            v = rhs.strip().strip('"')
            out.append(("invalid-enum.lower-case", key, f'{key} = "{v.lower()}"\n'))
            out.append(("invalid-enum.garbage", key, f'{key} = "{v}x"\n'))
            out.append(("invalid-enum.empty", key, f'{key} = ""\n'))
    for how, bad in misspellings("sort_requires"):
        out.append((f"misspelled-key.{how}", "sort_requires", f"[{bad}]\nenabled = true\n"))
    for how, bad in misspellings("enabled"):
        out.append((f"unknown-key-in-sort_requires.{how}", "sort_requires.enabled", f"[sort_requires]\n{bad} = true\n"))
    out.append(("unknown-key-in-sort_requires.extra", "sort_requires", "[sort_requires]\nenabled = true\norder = \"asc\"\n"))
    out.append(("wrong-type.bool", "sort_requires", "sort_requires = true\n"))
    out.append(("wrong-type.string", "sort_requires.enabled", '[sort_requires]\nenabled = "true"\n'))
    out.append(("wrong-type.integer", "sort_requires.enabled", "[sort_requires]\nenabled = 1\n"))
    out.append(("unknown-table", "-", "indent_width = 2\n\n[format]\nindent_width = 2\n"))
    out.append(("unknown-table.empty", "-", "[tool]\n"))
    out.append(("unknown-key", "-", "indent_width = 2\nmax_width = 100\n"))
    out.append(("unknown-key.editorconfig-name", "-", "indent_size = 2\n"))
    out.append(("invalid-enum.editorconfig-spelling", "quote_style", 'quote_style = "single"\n'))
    out.append(("broken-toml", "-", "indent_width = \n"))
    out.append(("broken-toml.duplicate-key", "indent_width", "indent_width = 2\nindent_width = 2\n"))
    return out


def malformed_cases(tier):
    cases = []
    files = {"probe.lua": PROBE, "sub/second.lua": M.lua_probe(8)}
    texts = malformed_texts()
    for i, (kind, key, text) in enumerate(texts):
        shapes = [i % 6] if tier == "quick" else [i % 6, (i + 3) % 6]
        for shape in shapes:
            meta = {"kind": kind, "key": key}
            if shape == 0:
                c = mk("malformed", f"{kind}:{key}:toml:dir", dict(files, **{"stylua.toml": text}), ["."], **meta)
            elif shape == 1:
                c = mk("malformed", f"{kind}:{key}:dot-toml:file", dict(files, **{".stylua.toml": text}), ["sub/second.lua", "probe.lua"], **meta)
            elif shape == 2:
                c = mk("malformed", f"{kind}:{key}:config-path:dir", dict(files, **{"conf/custom.toml": text}), ["--config-path", "conf/custom.toml", "."], **meta)
            elif shape == 3:
                c = mk("malformed", f"{kind}:{key}:toml:stdin", dict(files, **{"stylua.toml": text}), ["-"], stdin=PROBE, **meta)
            elif shape == 4:
                c = mk("malformed", f"{kind}:{key}:toml+valid-flag:dir", dict(files, **{"stylua.toml": text}), ["--indent-width", "2", "."], **meta)
            else:
                c = mk("malformed", f"{kind}:{key}:toml:check", dict(files, **{"stylua.toml": text}), ["--check", "."], **meta)
            cases.append(c)
        # the same text as the user-level configuration that --search-parent-directories falls back to
        loc = ["@xdg/stylua.toml", "@xdg/stylua/stylua.toml", "@home/.config/stylua.toml", "@home/.config/stylua/.stylua.toml"][i % 4]
        if tier != "quick" or i % 3 == 0:
            cases.append(mk("malformed", f"{kind}:{key}:user-level:{loc.split('/')[0]}", dict(files, **{loc: text}), ["-s", "."], kind=kind, key=key))
    cases.append(mk("malformed", "missing-file:-:config-path:dir", files, ["--config-path", "conf/missing.toml", "."], kind="missing-config-path", key="-"))
    return cases


def later_dir_cases(tier):
    """A malformed configuration that governs only the LAST directory on the command line."""
    if tier == "quick":
        return []
    cases = []
    files = {}
    for i in range(40):
        files[f"a/f{i:02d}.lua"] = M.lua_probe(100 + i)
    files["b/y.lua"] = M.lua_probe(99)
    for r, text in enumerate(["indent_widht = 3\n", 'quote_style = "single"\n', "[tool]\n", "column_width = \"80\"\n"] * 6):
        cases.append(mk("malformed-later-dir", f"later:{r}", dict(files, **{"b/stylua.toml": text}), ["a", "b"], kind="later-dir", key="-"))
    return cases


# ------------------------------------------------------------------------------------------------
# seeded: multi-option configurations
# ------------------------------------------------------------------------------------------------

def seeded_cases(rng, n):
    cases = []
    for i in range(n):
        opts = rng.sample([o for o in M.OPTION_NAMES if o != "syntax"], 2 + rng.below(5))
        want = {}
        for o in opts:
            v = rng.pick(M.documented_values(o))
            want[o] = v
        pf = probe_files("x")
        meta = {"want": want, "opt": "+".join(sorted(want)), "val": "*"}
        tag = f"seeded#{i}"
        cases.append(mk("multi", tag + ":toml", dict(pf, **{rng.pick(M.CONFIG_NAMES): M.toml_text(want)}), ["."], carrier="toml", **meta))
        fl = []
        for o in rng.shuffle(sorted(want)):
            fl += flag_argv(o, want[o], rng.pick(["exact", "lower", "upper"]) if o in M.ENUMS else "exact")
        if not ("sort_requires" in want and not want["sort_requires"]):
            cases.append(mk("multi", tag + ":flags", pf, fl + ["."], carrier="flag", **meta))
        # part in stylua.toml (with deliberately different values for the rest), the rest as flags
        in_toml = {o: want[o] for o in sorted(want)[::2]}
        rest = {o: want[o] for o in want if o not in in_toml and not (o == "sort_requires" and not want[o])}
        base = dict(in_toml, **{o: other_value(o, want[o]) for o in rest})
        if "sort_requires" in want and not want["sort_requires"]:
            base["sort_requires"] = False
        fl = []
        for o in sorted(rest):
            fl += flag_argv(o, rest[o])
        cases.append(mk("multi", tag + ":toml+flags", dict(pf, **{"stylua.toml": M.toml_text(base)}), fl + ["."], carrier="toml+flags", **meta))
        kv = {}
        ok = True
        for o, v in want.items():
            sp = M.editorconfig_spellings(o, v)
            if not sp:
                ok = False
                break
            kv.update(rng.pick(sp)[1])
        if ok:
            cases.append(mk("multi", tag + ":editorconfig", dict(pf, **{".editorconfig": M.editorconfig_text([("*", {}), ("*.lua", kv)])}), ["."],
                            carrier="editorconfig", **meta))
    return cases


# ------------------------------------------------------------------------------------------------
# judging
# ------------------------------------------------------------------------------------------------

def lua_targets(case):
    return sorted(p for p in M.tree_files(case) if p.endswith(".lua"))


STDIN_KEY = "proj/probe.lua"  # code piped through stdin is compared under the name of the probe file


def observe_outputs(case, o):
    """{file: bytes after the run}"""
    d = {p: o.after.get(p) for p in lua_targets(case)}
    if case.get("carrier_stdin"):
        d[STDIN_KEY] = o.out if isinstance(o.out, bytes) else str(o.out).encode("utf-8")
    return d


def expected_outputs(case, cfg_):
    exp = {}
    any_err = False
    if case.get("carrier_stdin"):
        r = M.ref_format(case["stdin"], cfg_)
        if r[0] == "ok":
            exp[STDIN_KEY] = r[1].encode("utf-8")
        else:
            exp[STDIN_KEY] = b""
            any_err = True
    for p in lua_targets(case):
        src = case["files"][p]
        by_file = (case.get("want_by_file") or {}).get(p)
        r = M.ref_format(src, clilib.cfg(**by_file) if by_file else cfg_)
        if r[0] == "ok":
            exp[p] = r[1].encode("utf-8")
        else:
            exp[p] = src.encode("utf-8")
            any_err = True
    return exp, any_err


def flag_variant_rejected(case, o):
    return case.get("carrier") in ("flag-lower", "flag-upper") and o.rc == 2 and not o.diff and "nvalid value" in o.err


def judge_carrier_group(key, group, acc, found_by_case):
    """group: [(case, obs)] for one (opt, val) -- compares every carrier with the library and with stylua.toml"""
    opt, val = key
    by = {}
    for c, o in group:
        by.setdefault(c["carrier"], []).append((c, o))
    toml_out = None
    if "toml" in by:
        toml_out = observe_outputs(*by["toml"][0])
    for c, o in group:
        if not M.check_harness(acc, c, o):
            continue
        acc.evaluations += 1
        carrier = c["carrier"]
        acc.count("carrier." + carrier)
        for one in opt.split("+"):
            acc.count(("option-in-multi." if c["family"] == "multi" else "option.") + one)
        cfg_ = clilib.cfg(**c["want"])
        exp, any_err = expected_outputs(c, cfg_)
        got = observe_outputs(c, o)
        if flag_variant_rejected(c, o):
            acc.count("flag-variant-not-accepted." + carrier)
            continue
        where = "multi" if c["family"] == "multi" else f"{opt}={val}"

        def report(sig, detail, c=c):
            found_by_case.setdefault(id(c), []).append({"oracle": "carrier-equivalence", "signature": sig, "detail": detail})
            acc.finding("carrier-equivalence", sig, detail, c)

        bad = [p for p in exp if got.get(p) != exp[p]]
        want_rc = 2 if any_err else 0
        label = {"dot-toml": "dot-toml", "flag-over-toml": "flag", "toml+flags": "toml+flags", "flag-over-config-path": "flag+config-path"}.get(carrier, carrier)
        if carrier != "toml" and toml_out is not None and any(got.get(p) != toml_out.get(p) for p in exp):
            p = [p for p in exp if got.get(p) != toml_out.get(p)][0]
            report(f"C20:{label}-vs-toml:{where}",
                   f"{c['tag']}: {p} differs between carrier {carrier} ({c['argv']}, files {sorted(k for k in c['files'] if not k.endswith('.lua'))}) and "
                   f"stylua.toml for the same value; exit {o.rc}, stderr {M.clip(o.err, 200)!r}; carrier bytes {M.clip(repr(got.get(p)), 300)} "
                   f"toml bytes {M.clip(repr(toml_out.get(p)), 300)}")
        elif bad:
            p = bad[0]
            report(f"C20:{label}-vs-lib:{where}",
                   f"{c['tag']}: {p} differs from the library output under {c['want']}; exit {o.rc}, stderr {M.clip(o.err, 200)!r}; "
                   f"got {M.clip(repr(got.get(p)), 300)} expected {M.clip(repr(exp[p]), 300)}")
        elif o.rc != want_rc:
            report(f"C20:{label}-exit:{where}", f"{c['tag']}: exit status {o.rc}, expected {want_rc}; stderr {M.clip(o.err, 300)!r}")
        else:
            # did this carrier make an observable difference?
            ref_cfg = clilib.cfg(**c["base"]) if c.get("base") else clilib.cfg()
            dflt, _ = expected_outputs(c, ref_cfg)
            if any(dflt[p] != exp[p] for p in exp):
                acc.nontrivial.add(f"{c['tag']}" if c["family"] == "multi" else f"{where}:{carrier}:{c.get('spelling', '')}")
            else:
                acc.count("trivial(value-equals-baseline-output)")
            acc.sample(c, {"rc": o.rc})


def judge_malformed(case, o, acc):
    found = []
    if not M.check_harness(acc, case, o):
        return found
    acc.evaluations += 1
    acc.count("malformed." + case["kind"].split(".")[0])
    what = []
    if o.rc != 2:
        what.append(f"exit={o.rc}")
    touched = sorted(set(p for p, _ in o.diff) | set(o.writes))
    if touched:
        what.append("modified")
    if case.get("stdin") is not None and o.out:
        what.append("stdout")
    if what:
        sig = f"C20:malformed:{case['kind']}:{case['key']}:{'+'.join(what)}"
        detail = (f"{case['tag']}: configuration text {[v for k, v in case['files'].items() if k.endswith('.toml')]!r} argv {case['argv']}: exit status "
                  f"{o.rc} (expected 2), paths modified or opened for writing: {touched}, stdout {M.clip(o.out, 120)!r}, stderr {M.clip(o.err, 200)!r}")
        found.append({"oracle": "malformed-rejected", "signature": sig, "detail": detail})
        acc.finding("malformed-rejected", sig, detail, case)
    else:
        acc.nontrivial.add(f"malformed:{case['tag']}")
    return found


def judge_later_dir(case, o, acc):
    found = []
    if not M.check_harness(acc, case, o):
        return found
    acc.evaluations += 1
    acc.count("malformed-later-dir.runs")
    rewritten = torn = 0
    for p in lua_targets(case):
        src = case["files"][p].encode("utf-8")
        after = o.after.get(p)
        if after == src:
            continue
        r = M.ref_format(case["files"][p], clilib.cfg())
        if r[0] == "ok" and after == r[1].encode("utf-8"):
            rewritten += 1
        else:
            torn += 1
    governed = o.after.get("proj/b/y.lua") != case["files"]["proj/b/y.lua"].encode("utf-8")
    acc.count("malformed-later-dir.exit=" + str(o.rc))
    acc.count("malformed-later-dir.earlier-files-rewritten", rewritten)
    acc.count("malformed-later-dir.earlier-files-torn", torn)
    acc.count("malformed-later-dir.outcome." + ("torn" if torn else "rewritten" if rewritten else "untouched"))

    def report(sig, detail):
        found.append({"oracle": "malformed-rejected", "signature": sig, "detail": detail})
        acc.finding("malformed-rejected", sig, detail, case)

    if o.rc != 2 or governed:
        report("C20:malformed-later-dir:accepted", f"{case['tag']}: exit {o.rc}, file governed by the malformed configuration modified: {governed}")
    if torn:
        report("C20:malformed-later-dir:torn-write",
               f"{case['tag']}: argv {case['argv']}; b/stylua.toml is malformed; exit {o.rc}; {torn} file(s) of directory a/ were left neither "
               f"original nor formatted (truncated) and {rewritten} were rewritten -- the process exits while worker threads are still writing")
    elif rewritten:
        report("C20:malformed-later-dir",
               f"{case['tag']}: argv {case['argv']}; b/stylua.toml is malformed; exit {o.rc}; {rewritten} of 40 files of directory a/ had "
               f"already been rewritten when the configuration was rejected")
    if not found:
        acc.nontrivial.add("later-dir:untouched")
    return found


def judge_any(cases_obs, acc):
    """cases_obs: [(case, obs)] -> {id(case): findings}"""
    found_by_case = {}
    groups = {}
    for c, o in cases_obs:
        fam = c["family"]
        if fam in ("carrier", "multi"):
            k = (c["opt"], str(c["val"])) if fam == "carrier" else (c["tag"].split(":")[0], "*")
            groups.setdefault((fam, k), []).append((c, o))
        elif fam == "malformed":
            found_by_case[id(c)] = judge_malformed(c, o, acc)
        elif fam == "malformed-later-dir":
            found_by_case[id(c)] = judge_later_dir(c, o, acc)
    for (fam, k), group in groups.items():
        opt = group[0][0]["opt"]
        judge_carrier_group((opt, k[1]) if fam == "carrier" else (opt, k[0]), group, acc, found_by_case)
    return found_by_case


def sensitivity(cases_obs):
    """per option: number of distinct outputs the real binary produced over the documented values (stylua.toml carrier)"""
    seen = {}
    for c, o in cases_obs:
        if c["family"] == "carrier" and c["carrier"] == "toml" and not o.harness_error and not o.timed_out:
            outs = tuple(sorted((p, o.after.get(p)) for p in lua_targets(c)))
            seen.setdefault(c["opt"], set()).add(outs)
    return {k: len(v) for k, v in seen.items()}


def run(tier, seed):
    acc = M.Acc(PROP)
    st = clilib.strace_available()
    if not st:
        acc.incon("strace unavailable: 'no file opened for writing' is judged from snapshots only")
    pinned = carrier_cases() + malformed_cases(tier) + later_dir_cases(tier)
    rng = clilib.Rng(seed)
    seeded = seeded_cases(rng, 120 if tier == "quick" else 6000)
    cases = pinned + seeded
    acc.items_total = len(cases)
    acc.count("cases.pinned", len(pinned))
    acc.count("cases.seeded", len(seeded))
    try:
        later = [c for c in cases if c["family"] == "malformed-later-dir"]
        rest = [c for c in cases if c["family"] != "malformed-later-dir"]
        # the later-directory leg is a race between the exiting main thread and the writers: observed by
        # snapshots only (strace slows the main thread down and hides the window)
        pairs = list(zip(rest, M.run_many(rest, strace=st))) + list(zip(later, M.run_many(later, strace=False, workers=3)))
        judge_any(pairs, acc)
        sens = sensitivity(pairs)
        for opt in M.OPTION_NAMES:
            if sens.get(opt, 0) < 2:
                acc.incon(f"probe is not sensitive to {opt}: {sens.get(opt, 0)} distinct outputs")
    finally:
        M.ref_close()
    n_values = sum(len(M.documented_values(o)) for o in M.OPTION_NAMES)
    return acc.result({"exhaustive": True,
                       "exhaustive_scope": f"{len(M.OPTION_NAMES)} options, {n_values} documented values (+ max_line_length=off), "
                                           f"{acc.counters.get('cases.pinned', 0)} pinned executions; {len(malformed_texts())} malformed texts",
                       "sensitivity_distinct_outputs_per_option": sens})


def replay(case):
    acc = M.Acc(PROP)
    try:
        st = clilib.strace_available()
        cases = [case]
        if case.get("family") in ("carrier", "multi") and case.get("carrier") != "toml":
            # the comparison partner: the same value written in stylua.toml
            partner = mk(case["family"], case["tag"].rsplit(":", 1)[0] + ":toml(replay partner)",
                         dict({k[len("proj/"):]: v for k, v in case["files"].items() if k.endswith(".lua")},
                              **{"stylua.toml": M.toml_text({k: v for k, v in case["want"].items() if not (k == "column_width" and v == M.USIZE_MAX)})}),
                         ["."], carrier="toml", opt=case["opt"], val=case["val"], want=case["want"])
            if case["want"].get("column_width") != M.USIZE_MAX:
                cases.append(partner)
        if case.get("family") == "malformed-later-dir":
            # a race between the exiting main thread and the writer threads: snapshots only, a few attempts
            for _ in range(12):
                obs = M.run_many(cases, strace=False)
                found = judge_any(list(zip(cases, obs)), acc)
                if found.get(id(case)):
                    break
            return found.get(id(case), [])
        obs = M.run_many(cases, strace=st)
        found = judge_any(list(zip(cases, obs)), acc)
        return found.get(id(case), [])
    finally:
        M.ref_close()
