"""Orchestration shared by all checks: builds, worker pool, merging, known findings, evidence."""
import fcntl
import hashlib
import json
import os
import shutil
import signal
import subprocess
import sys
import time

ROOT = os.path.dirname(os.path.dirname(os.path.abspath(__file__)))
REPO = os.environ.get("SV_REPO", "/repo")
TARGET = os.environ.get("SV_TARGET", os.path.join(ROOT, "target"))
SV = os.path.join(TARGET, "harness", "release", "sv")
CLI_BIN = os.path.join(TARGET, "cli", "release", "stylua")
FEATURES = "verif,luau,lua54,luajit"
NCPU = min(16, os.cpu_count() or 4)

LIB_PROPS = ["C01", "C02", "C03", "C04", "C05", "C06", "C07", "C08", "C09", "C10", "C11", "C12"]
CLI_PROPS = ["C13", "C14", "C15", "C16", "C17", "C18", "C19", "C20"]


class HarnessError(Exception):
    pass


def cargo_env():
    env = dict(os.environ)
    env["CARGO_NET_OFFLINE"] = "true"
    env.pop("RUSTFLAGS", None)
    return env


class _Lock:
    def __init__(self, name):
        os.makedirs(TARGET, exist_ok=True)
        self.path = os.path.join(TARGET, name)

    def __enter__(self):
        self.f = open(self.path, "w")
        fcntl.flock(self.f, fcntl.LOCK_EX)
        return self

    def __exit__(self, *a):
        fcntl.flock(self.f, fcntl.LOCK_UN)
        self.f.close()


def _run_build(cmd, cwd, what, verbose=False, env_extra=None):
    t0 = time.time()
    env = cargo_env()
    if env_extra:
        env.update(env_extra)
    p = subprocess.run(cmd, cwd=cwd, env=env, stdout=subprocess.PIPE, stderr=subprocess.STDOUT, text=True)
    if p.returncode != 0:
        tail = "\n".join(p.stdout.splitlines()[-40:])
        raise HarnessError(f"{what} failed to build (exit {p.returncode}):\n{tail}")
    if verbose:
        print(f"built {what} in {time.time() - t0:.1f}s")


SV_DBG = os.path.join(TARGET, "harness", "dbgassert", "sv")


def build_harness(verbose=False, profile="release"):
    """Rebuild the harness (path-depends on /repo, so cargo rebuilds when /repo/src changed).
    profile "dbgassert" = release + debug-assertions + overflow-checks (used by C07)."""
    with _Lock(".build.lock"):
        src = os.path.join(ROOT, "harness")
        if os.path.realpath(REPO) != "/repo":
            # developer mode (self-test mutants in a scratch worktree): build a copy of the harness
            # whose path dependency points at SV_REPO, into SV_TARGET
            src = os.path.join(TARGET, "harness-src")
            shutil.rmtree(src, ignore_errors=True)
            shutil.copytree(os.path.join(ROOT, "harness"), src, ignore=shutil.ignore_patterns("target", ".cargo"))
            ct = open(os.path.join(src, "Cargo.toml")).read().replace('path = "/repo"', f'path = "{REPO}"')
            open(os.path.join(src, "Cargo.toml"), "w").write(ct)
            shutil.copy(os.path.join(REPO, "Cargo.lock"), os.path.join(src, "Cargo.lock"))
        env_extra = {"CARGO_TARGET_DIR": os.path.join(TARGET, "harness")}
        flag = ["--release"] if profile == "release" else ["--profile", profile]
        _run_build(["cargo", "build", "--offline"] + flag, src, f"harness (sv, {profile})", verbose, env_extra)
    out = SV if profile == "release" else os.path.join(TARGET, "harness", profile, "sv")
    if not os.path.exists(out):
        raise HarnessError("harness binary missing after build")
    return out


def build_cli(verbose=False):
    """Rebuild the hooked CLI from /repo's working tree into /verif/target/cli."""
    with _Lock(".build.lock"):
        _run_build(
            ["cargo", "build", "--release", "--offline", "--manifest-path", os.path.join(REPO, "Cargo.toml"),
             "--features", FEATURES, "--bin", "stylua", "--target-dir", os.path.join(TARGET, "cli")],
            ROOT, "hooked stylua CLI", verbose)
    if not os.path.exists(CLI_BIN):
        raise HarnessError("CLI binary missing after build")
    return CLI_BIN


def build_all(verbose=False):
    try:
        build_harness(verbose)
        build_harness(verbose, profile="dbgassert")
        build_cli(verbose)
        return True
    except HarnessError as e:
        print(str(e), file=sys.stderr)
        return False


# --------------------------------------------------------------------------------------------
# worker pool for the Rust monitors
# --------------------------------------------------------------------------------------------

def work_dir(prop):
    base = os.path.join(ROOT, ".work")
    d = os.path.join(base, f"{prop}-{os.getpid()}")
    shutil.rmtree(d, ignore_errors=True)
    os.makedirs(d, exist_ok=True)
    return d


def run_workers(prop, tier, seed, extra_env=None, nshards=NCPU, sv=SV, overall_timeout=None):
    wd = work_dir(prop)
    env = dict(os.environ)
    env["SV_REPO"] = REPO
    # listed signatures are recorded once and do not use up a worker's store of witnesses
    env["SV_KNOWN"] = os.path.join(ROOT, "known_findings.jsonl")
    if extra_env:
        env.update(extra_env)
    procs = {}
    attempt = {}
    outs = []
    aborted = []  # (shard, progress json, reason)

    def spawn(shard, start):
        k = attempt.get(shard, 0)
        attempt[shard] = k + 1
        out = os.path.join(wd, f"out.{shard}.{k}.json")
        prog = os.path.join(wd, f"progress.{shard}.{k}.json")
        cmd = [sv, "worker", prop, tier, str(seed), str(shard), str(nshards), out, prog, str(start)]
        p = subprocess.Popen(cmd, env=env, stdout=subprocess.DEVNULL, stderr=subprocess.PIPE)
        procs[shard] = (p, out, prog)

    for s in range(nshards):
        spawn(s, 0)
    deadline = time.time() + (overall_timeout or (3600 if tier == "quick" else 6 * 3600))
    while procs:
        for shard in list(procs):
            p, out, prog = procs[shard]
            try:
                p.wait(timeout=0.2)
            except subprocess.TimeoutExpired:
                if time.time() > deadline:
                    p.kill()
                    p.wait()
                    aborted.append((shard, None, "overall watchdog (inconclusive)"))
                    del procs[shard]
                continue
            err = p.stderr.read().decode("utf-8", "replace") if p.stderr else ""
            del procs[shard]
            if p.returncode == 0 and os.path.exists(out):
                outs.append(out)
                continue
            # abnormal end: attribute to the case in the progress file, restart after it
            info = None
            try:
                info = json.load(open(prog))
            except Exception:
                pass
            if p.returncode == 75:
                reason = "case-timeout"
            elif p.returncode < 0:
                reason = f"signal-{-p.returncode}"
            else:
                reason = f"exit-{p.returncode}: {err[-300:]}"
            aborted.append((shard, info, reason))
            if info is not None and attempt.get(shard, 0) < 25 and reason != "" and (p.returncode == 75 or p.returncode < 0):
                spawn(shard, int(info.get("item", 0)) + 1)
            elif p.returncode not in (75,) and p.returncode > 0:
                raise HarnessError(f"worker {shard} of {prop} failed: {reason}")
    merged = merge([json.load(open(o)) for o in outs])
    merged["aborted"] = aborted
    shutil.rmtree(wd, ignore_errors=True)
    return merged


def merge(parts):
    m = {"evaluations": 0, "nontrivial": set(), "sites": {}, "counters": {}, "findings": [], "per_signature": {},
         "samples": [], "inconclusive": 0, "inconclusive_notes": [], "items_total": 0}
    for p in parts:
        m["evaluations"] += p.get("evaluations", 0)
        m["nontrivial"].update(p.get("nontrivial", []))
        for k, v in p.get("sites", {}).items():
            m["sites"][k] = m["sites"].get(k, 0) + v
        for k, v in p.get("counters", {}).items():
            if k.startswith("max."):
                m["counters"][k] = max(m["counters"].get(k, 0), v)
            else:
                m["counters"][k] = m["counters"].get(k, 0) + v
        m["findings"].extend(p.get("findings", []))
        for k, v in p.get("per_signature", {}).items():
            m["per_signature"][k] = m["per_signature"].get(k, 0) + v
        for s in p.get("samples", []):
            if len(m["samples"]) < 4:
                m["samples"].append(s)
        m["inconclusive"] += p.get("inconclusive", 0)
        m["inconclusive_notes"].extend(p.get("inconclusive_notes", [])[:5])
        m["items_total"] = max(m["items_total"], p.get("items_total", 0))
    return m


# --------------------------------------------------------------------------------------------
# known findings, verdict lines, replay files, evidence
# --------------------------------------------------------------------------------------------

def load_known():
    path = os.path.join(ROOT, "known_findings.jsonl")
    out = []
    if os.path.exists(path):
        for line in open(path):
            line = line.strip()
            if line and not line.startswith("#"):
                out.append(json.loads(line))
    return out


def write_replay(prop, finding):
    d = os.path.join(ROOT if os.path.realpath(REPO) == "/repo" else TARGET, "replays", prop)
    os.makedirs(d, exist_ok=True)
    h = hashlib.sha1(json.dumps(finding, sort_keys=True).encode()).hexdigest()[:16]
    path = os.path.join(d, f"{h}.json")
    with open(path, "w") as f:
        json.dump(finding, f, indent=1, sort_keys=True)
    return path


def adjudicate(prop, findings):
    """Split findings into known (open entries of known_findings.jsonl, matched by exact signature)
    and new ones. Prints KNOWN-FINDING / VIOLATION lines. Returns (n_violations, known_sigs, new_sigs)."""
    known = {(k["property"], k["signature"]): k for k in load_known() if str(k.get("status", "open")) == "open"}
    seen_known = {}
    seen_new = {}
    for f in findings:
        key = (prop, f["signature"])
        if key in known:
            seen_known.setdefault(f["signature"], f)
        else:
            seen_new.setdefault(f["signature"], f)
    for sig_, f in sorted(seen_known.items()):
        what = known[(prop, sig_)].get("what", "")
        print(f"KNOWN-FINDING: property={prop} {sig_} — {what}")
    for sig_, f in sorted(seen_new.items()):
        f = dict(f)
        f["property"] = prop
        path = write_replay(prop, f)
        print(f"VIOLATION property={prop} replay={path}")
        d = f.get("detail", "")
        print(f"  signature={sig_} oracle={f.get('oracle')} :: {d[:300]}")
    return len(seen_new), sorted(seen_known), sorted(seen_new)


def evidence_dir():
    # developer mode (checks against a scratch copy of /repo): keep /verif/evidence untouched
    if os.path.realpath(REPO) != "/repo":
        return os.path.join(TARGET, "evidence")
    return os.path.join(ROOT, "evidence")


def write_evidence(prop, tier, seed, level, coverage, assumptions, wall_s, violations, extra=None):
    os.makedirs(evidence_dir(), exist_ok=True)
    ev = {
        "property_id": prop,
        "tier": tier,
        "seed": seed,
        "level": level,
        "coverage": coverage,
        "assumptions": assumptions,
        "wall_s": round(wall_s, 2),
        "violations": violations,
    }
    if extra:
        ev.update(extra)
    path = os.path.join(evidence_dir(), f"{prop}.json")
    tmp = path + ".tmp"
    with open(tmp, "w") as f:
        json.dump(ev, f, indent=1, sort_keys=True)
    os.replace(tmp, path)
    return path


def top_items(d, n=60):
    return dict(sorted(d.items(), key=lambda kv: (-kv[1], kv[0]))[:n])


def finish(prop, tier, seed, t0, level, m, rule, assumptions, min_nontrivial=2, extra_cov=None):
    """Common tail of every check: adjudicate, evidence, exit code."""
    findings = m.get("findings", [])
    # aborted workers: C07 judges them, everyone else counts them as inconclusive
    aborted = m.get("aborted", [])
    n_incon = m.get("inconclusive", 0)
    for shard, info, reason in aborted:
        if prop == "C07" and info is not None and reason.startswith("signal-"):
            case = info.get("case", {})
            sig_ = "abort:" + reason + ":text#" + hashlib.sha1(case.get("src", "").encode()).hexdigest()[:8]
            findings.append({"property": prop, "oracle": "abort", "signature": sig_,
                             "detail": f"worker process died with {reason} while formatting this case", "case": case})
        else:
            n_incon += 1
    nviol, known_sigs, new_sigs = adjudicate(prop, findings)
    nontrivial = m.get("nontrivial", set())
    distinct = len(nontrivial) if not isinstance(nontrivial, int) else nontrivial
    coverage = {
        "evaluations": int(m.get("evaluations", 0)),
        "distinct_nontrivial": int(distinct),
        "rule": rule,
        "samples": m.get("samples", [])[:4] or [{"note": "no sample small enough to print"}],
        "work_items": m.get("items_total", 0),
        "inconclusive": n_incon,
        "inconclusive_notes": sorted(set(m.get("inconclusive_notes", [])))[:10] + [f"{r}" for _, _, r in aborted][:10],
        "decision_sites_observed": top_items(m.get("sites", {}), 80),
        "counters": m.get("counters", {}),
        "known_findings_seen": known_sigs,
        "new_violation_signatures": new_sigs,
        "failing_evaluations_by_signature": top_items(m.get("per_signature", {}), 40),
    }
    if extra_cov:
        coverage.update(extra_cov)
    wall = time.time() - t0
    write_evidence(prop, tier, seed, level, coverage, assumptions, wall, nviol)
    print(f"{prop} {tier} seed={seed}: {coverage['evaluations']} evaluations, {distinct} distinct non-trivial, "
          f"{len(known_sigs)} known findings seen, {nviol} new violations, {n_incon} inconclusive, {wall:.1f}s")
    if nviol:
        return 1
    # a required observation point that was never reached means the monitor saw nothing there
    required = {"C05": ["path.paren.flat", "path.paren.hang"], "C08": ["others_compared"], "C09": ["regions_compared"],
                "C04": ["string_literals_rewritten", "number_literals_judged"], "C11": ["calls_judged", "headers_judged", "strings_judged"],
                "C12": ["groups.sorted-group", "groups.ignored-member"]}.get(prop, [])
    missing = [k for k in required if not m.get("counters", {}).get(k)]
    if missing:
        print(f"HARNESS-ERROR property={prop}: required observation points never reached: {missing}", file=sys.stderr)
        return 3
    if coverage["evaluations"] < 1 or distinct < min_nontrivial:
        print(f"HARNESS-ERROR property={prop}: monitors observed nothing non-trivial", file=sys.stderr)
        return 3
    return 0


# --------------------------------------------------------------------------------------------
# Miri leg (auxiliary sanitizer, thorough tier of C04 / C07)
# --------------------------------------------------------------------------------------------

def miri_leg(n_programs=32, shards=16, timeout=1500):
    """Run `sv mirileg` (a small slice of the C04/C07/C02 workload) under Miri in `shards` parallel
    processes. Returns (judged, findings, inconclusive_notes). Undefined behaviour reported by Miri
    is a finding; a build problem or a timeout is inconclusive."""
    env = cargo_env()
    env["CARGO_TARGET_DIR"] = os.path.join(TARGET, "miri")
    env["MIRIFLAGS"] = "-Zmiri-disable-isolation"
    src = os.path.join(ROOT, "harness")
    if os.path.realpath(REPO) != "/repo":
        src = os.path.join(TARGET, "harness-src")
    notes, findings, judged = [], [], 0
    with _Lock(".miri.lock"):
        # first shard alone (builds the Miri sysroot / crate), then the rest in parallel
        def run(k):
            return subprocess.run(["cargo", "+nightly", "miri", "run", "--offline", "--", "mirileg", str(k), str(shards), str(n_programs)],
                                  cwd=src, env=env, capture_output=True, text=True, timeout=timeout)
        try:
            first = run(0)
        except subprocess.TimeoutExpired:
            return 0, [], ["miri: timeout on first shard"]
        results = [first]
        if first.returncode not in (0, 1) and "MIRILEG" not in first.stdout:
            return 0, [], ["miri: could not run (" + first.stderr.strip().splitlines()[-1][:200] + ")" if first.stderr.strip() else "miri: could not run"]
        import concurrent.futures
        with concurrent.futures.ThreadPoolExecutor(max_workers=shards) as ex:
            futs = [ex.submit(run, k) for k in range(1, shards)]
            for f in futs:
                try:
                    results.append(f.result())
                except subprocess.TimeoutExpired:
                    notes.append("miri: shard timeout")
    import re
    for r in results:
        m = re.search(r"MIRILEG judged=(\d+) findings=(\d+)", r.stdout)
        if m:
            judged += int(m.group(1))
        if "Undefined Behavior" in r.stderr or "error: unsupported operation" in r.stderr:
            line = [l for l in r.stderr.splitlines() if "Undefined Behavior" in l or "unsupported operation" in l][0]
            if "unsupported operation" in line:
                notes.append("miri: " + line.strip()[:200])
            else:
                findings.append({"oracle": "miri", "signature": "miri:undefined-behaviour", "detail": r.stderr[-1500:], "case": {"cmd": "sv mirileg"}})
        for l in r.stdout.splitlines():
            if l.startswith("MIRILEG-FINDING"):
                findings.append({"oracle": "miri-leg", "signature": "miri-leg:oracle", "detail": l, "case": {"cmd": "sv mirileg"}})
        if not m and r.returncode != 0 and "Undefined Behavior" not in r.stderr:
            notes.append("miri: shard ended without summary (exit %s)" % r.returncode)
    return judged, findings, notes


# --------------------------------------------------------------------------------------------
# dispatch
# --------------------------------------------------------------------------------------------

LIB_META = {
    "C01": ("exploration", "Pinned: every corpus file x 12-row option array x widths, critical widths (line length of the "
            "infinite-width output +-1), 4 ranges per file, sort_requires on, 26 degenerate programs (empty, comment-only, "
            "shebang-only ...), and the single-comment enumeration (one comment of 3 shapes after every token of the small "
            "corpus files, default and alternative option row); seeded: generated programs (also with a statement-aligned "
            "range) and corpus mutants under random configurations and their critical widths. Oracle: the checker's own full_moon parse of the output "
            "under the same syntax plus the checker's own lexer. Non-trivial = distinct (program, configuration, range) whose "
            "output differs from the input and for which the formatter took at least one logical step. Added by the seeded rounds (all pinned unless said otherwise): comment pairs around one token (7 kinds), the empty-line enumeration (an empty line after token #k), CRLF variants of the enumerations, collapse templates with comments, sorted tiny programs, two-pass witnesses under the 5 call styles, own corpus files (lists, calls, strings, Luau types, Lua 5.4, unicode), and the seeded Luau type-language generator."),
    "C02": ("exploration", "Same workload as C01 (incl. the single-comment enumeration and degenerate programs) with sort_requires off. Oracles: semantic normal form N (generic AST "
            "traversal erasing only the permitted differences) of input vs output, and the own-lexer token stream. "
            "Non-trivial as for C01."),
    "C03": ("exploration", "Same workload as C01 (statement-level comments in seeded programs; every comment the corpus "
            "contains; the single-comment enumeration; every corpus file rewritten with CRLF and mixed line endings). Oracle: own-lexer comment census (multiset of kind, level, text under the two permitted "
            "normalisations) plus token-stream equality (no code swallowed by a comment). Non-trivial as for C01."),
    "C06": ("exploration", "Corpus x option array x widths and critical widths, generated programs and mutants (seeded, "
            "width >= 40); re-spaced canonical text (compact / wide) at every critical width, the block-comment and empty-line enumerations, require blocks, collapse templates with comments, the CRLF corpus (also LF text printed with Windows endings, so that pass 2 reads CRLF), two-pass witnesses under the 5 call styles. Oracle: byte equality of format(format(p)) and format(p). Non-trivial as for C01."),
    "C07": ("exploration", "C01's workload plus: every corpus file at column_width 1/2/3/usize::MAX and indent_width 1..16; hostile ranges "
            "(empty, inverted, beyond the end, usize::MAX, inside a multi-byte character); 16 collapse x ignore x comment templates x 4 "
            "collapse modes x 3 widths x every line-aligned range; nesting-depth ramps d=4..32 of 6 families judged by logical-step growth; "
            "pinned invalid inputs; seeded destroyed inputs (truncate / splice / delete token / junk; about 80 % invalid). The quick "
            "workload is repeated on a release+debug-assertions+overflow-checks build. Oracles: no unwind out of format_code (panic "
            "origin from the panic location), no worker abort (subprocess attribution), H1 tick budget 20000+400n+n^2 and growth bound, "
            "accept/reject agreement with the checker's parser, own-lexer bracket balance on accepted inputs. Every third evaluation that returned Ok, and literal-only programs of every dialect, are repeated with OutputVerification::Full (no panic; no verification error on the literal programs); hostile and statement-aligned ranges are repeated with sort_requires on files with requires; the comment, comment-pair and empty-line enumerations run under the panic and step oracles. Non-trivial as for C01."),
    "C10": ("exploration", "Corpus (as is, and every file rewritten with CRLF and with mixed endings x Unix/Windows), degenerate programs and "
            "generated programs rendered with LF/CRLF/mixed endings and tab/space/mixed "
            "indentation x line_endings x indent_type x indent_width x widths. Oracle: byte-level line-ending, "
            "indentation and end-of-file rules outside string contents (own lexer masks); the comment, comment-pair (with a Windows row) and empty-line enumerations, multi-line block comments written LF->Windows and CRLF->Unix. Non-trivial as for C01."),
}

LIB_META.update({
    "C04": ("exploration", "Pinned and exhaustive: every string body over the 17-symbol escape-relevant alphabet up to length 3 (quick) / 4 "
            "(thorough) plus lengths up to 5 / 6 over the 8 core symbols, in double-quoted, single-quoted and long-bracket (levels 0-2) "
            "form when full_moon accepts the literal, in 4 syntactic positions x 4 quote styles x 2 line endings (+ CRLF-written "
            "programs); numeric spellings of every dialect in 6 contexts (decimal grammar with zero runs, hexadecimal integers and fractions over the digits 0/5/e/E/a with binary exponents, Luau separators and binary, LuaJIT suffixes); an exotic alphabet (BOM, zero-width space, CR, CRLF, tab, NBSP) for the long forms; seeded longer random bodies. Oracle: the checker's own string / "
            "number decoders applied to the k-th literal of input and output. Non-trivial = distinct (batch program, configuration) whose "
            "output differs from the input; coverage counters give the number of literals judged and rewritten."),
    "C05": ("exploration", "Pinned and exhaustive small scope: templates (a o b) p c, a p (b o c), doubled parentheses, (u a) p b, a p (u b), "
            "u(a o b), u(u a), truncation forms (f()), (...), prefix forms, Luau type assertions and if-expressions as operands (also under a parenthesised unary operator), a doubled-pair variant of every template, for every "
            "pair of the 15 (+6 Lua 5.3) binary and 3-4 unary operators (depth 3 over one representative per precedence class in the "
            "thorough tier) x 15 expression contexts x short/long operands x 4 width classes (fits / hangs at top level / hangs at "
            "every level / 40). Oracle: normal form N (operator tree shape, truncation markers in multi-value positions) and re-parse. "
            "The H1 trace counts evaluations of the parenthesis rule per path (paren.flat / paren.hang x context x removed?)."),
    "C09": ("exploration", "Corpus files x statement-aligned / mid-token / nested / open-ended / empty / out-of-bounds ranges (pinned), "
            "construct templates x every statement pair x 2 widths x 2 collapse modes (pinned), generated hostile programs x random "
            "statement-aligned and off-by-one ranges (seeded). Oracle: input with the in-range statements cut out must reappear as "
            "prefix / ordered segments / suffix of the range output, and each replaced region must equal the same statements in the "
            "whole-file output (blank lines at region ends ignored). Non-trivial as for C01."),
    "C08": ("exploration", "Pinned: 14 statement kinds x {single, region, open region} directive x nesting depth 0-2 x 5 tails (none, `;`, ` ;`, "
            "`; -- c`, ` -- c`) x 4 following statements (plain, starts with `(`, none, return) x first/not first in block x widths x collapse "
            "modes, ignored table fields, the repository's ignore inputs; seeded: generated hostile programs with 1-3 directives inserted "
            "before statements at any depth (1 in 4 with empty lines after the directive); pinned directive forms (directive as one line of a block comment, stray `ignore end`, empty lines between directive and node, another comment between); ranges and sort_requires over the same programs. Oracles: (1) the source slice of each model-ignored statement incl. its `;` occurs in the "
            "output in order; (2) every statement unrelated to an ignored one has the text it gets with the directives defused. "
            "Non-trivial as for C01; counters give ignored statements / comparisons made."),
    "C11": ("exploration", "Corpus x the 80 combinations of quote_style x call_parentheses x space_after_function_names (rotating) x widths, 12 "
            "call/quote/function-header templates x all 80 combinations x 3 widths (pinned), generated programs and corpus mutants under "
            "random configurations (seeded). Oracle: every quoted string token (own lexer), every call site with its suffix context and "
            "every function header of the re-parsed output is judged against the rule for the option value. Non-trivial as for C01; "
            "counters give strings / calls / headers judged."),
    "C12": ("exploration", "10 pinned programs (adjacent / blank-line separated / other statement between / mixed kinds / ignore region / single "
            "ignore / comments / two on a line / duplicate names / nested block) with sorting on and off and with ranges; every corpus file "
            "with sorting on and off; seeded require-heavy top levels (duplicate and mixed-case names, type assertions, string-call and "
            "field forms, trailing comments, semicolons, two members on one line, multi-line members, blank lines, line and block comment lines (with and without a following empty line), groups of 21-100 members, look-alike non-members, inline block comments and directives, ignore "
            "directives and regions, random ranges). Oracle: the sequence of per-statement normal forms of the output equals the "
            "independent model's sequence (groups, freezing, stable byte-wise sort); comment census unchanged. Non-trivial as for C01; "
            "counters give groups sorted / frozen."),
})

COMMON_ASSUMPTIONS = [
    "full_moon 1.2.0 (the same parser StyLua uses) is trusted as the syntax oracle; the own lexer guards the tokenizer",
    "the harness builds stylua_lib from /repo's working tree with features verif,luau,lua54,luajit,editorconfig",
    "held = held on the executions produced by this run; paths the workloads never drive are not judged",
]


def run_check(prop, tier, seed, t0):
    if prop in LIB_META:
        build_harness()
        m = run_workers(prop, tier, seed)
        level, rule = LIB_META[prop]
        if prop == "C07":
            # second build profile: release + debug-assertions + overflow-checks (a debug_assert!
            # or an arithmetic overflow is a panic in every `cargo test` build)
            sv_dbg = build_harness(profile="dbgassert")
            m2 = run_workers(prop, "quick", seed, sv=sv_dbg)
            for f in m2.get("findings", []):
                f["detail"] = "(debug-assertions + overflow-checks build) " + f.get("detail", "")
            m["findings"].extend(m2.get("findings", []))
            m["evaluations"] += m2.get("evaluations", 0)
            m["inconclusive"] += m2.get("inconclusive", 0)
            m["aborted"] = m.get("aborted", []) + m2.get("aborted", [])
            m["counters"]["dbgassert_profile.evaluations"] = m2.get("evaluations", 0)
            for k, v in m2.get("per_signature", {}).items():
                m["per_signature"][k] = m["per_signature"].get(k, 0) + v
        extra = None
        if prop == "C09":
            # command-line leg: the range bounds reach the library as written (files and stdin)
            import c09cli
            build_cli()
            ev, cf, inc, cnt = c09cli.run(tier, seed)
            m["evaluations"] += ev
            m["findings"].extend(cf)
            m["inconclusive"] += inc
            m["counters"].update(cnt)
            for f in cf:
                m["per_signature"][f["signature"]] = m["per_signature"].get(f["signature"], 0) + 1
            extra = {"cli_range_leg": {"evaluations": ev, "findings": len(cf),
                                       "what": "4 programs x (no bound, start only, end only, both, inverted, beyond the text) x (file argument, stdin): file contents / stdout equal the library's output for the same range"}}
        if tier == "thorough" and prop in ("C04", "C07") and os.environ.get("SV_NO_MIRI") != "1":
            judged, mf, notes = miri_leg()
            m["findings"].extend(mf)
            m["inconclusive_notes"].extend(notes)
            m["inconclusive"] += len(notes)
            extra = {"miri_leg": {"evaluations_under_miri": judged, "findings": len(mf), "notes": notes,
                                  "what": "16 sharded `cargo +nightly miri run -- mirileg` processes: string-literal rewriting in 3 positions x 4 quote styles and small generated programs with parse + normal-form oracles, checked for undefined behaviour by Miri"}}
        return finish(prop, tier, seed, t0, level, m, rule, COMMON_ASSUMPTIONS, extra_cov=extra)
    if prop in CLI_PROPS:
        # CLI monitors: Python modules cli/cNN.py with META, run(tier, seed) and replay(case)
        import importlib
        try:
            mod = importlib.import_module(prop.lower())
        except ModuleNotFoundError:
            raise HarnessError(f"no check registered for {prop}")
        build_harness()
        build_cli()
        m = mod.run(tier, seed)
        meta = mod.META
        if isinstance(m.get("nontrivial"), list):
            m["nontrivial"] = set(m["nontrivial"])
        return finish(prop, tier, seed, t0, meta["level"], m, meta["rule"], meta.get("assumptions", []) + COMMON_ASSUMPTIONS[1:],
                      extra_cov=m.get("extra_coverage"))
    raise HarnessError(f"no check registered for {prop}")


def replay(path):
    v = json.load(open(path))
    prop = v.get("property", "")
    if prop == "C09" and "cli_range_case" in v.get("case", {}):
        import c09cli
        build_harness()
        build_cli()
        findings = c09cli.replay(v["case"])
        print(json.dumps({"findings": findings}, indent=1, default=str))
        return 1 if findings else 0
    if prop in LIB_PROPS:
        build_harness()
        p = subprocess.run([SV, "replay", path], env=dict(os.environ, SV_REPO=REPO))
        return p.returncode
    if prop in CLI_PROPS:
        import importlib
        mod = importlib.import_module(prop.lower())
        build_harness()
        build_cli()
        findings = mod.replay(v["case"])
        print(json.dumps({"findings": findings}, indent=1, default=str))
        return 1 if findings else 0
    raise HarnessError(f"cannot replay {path}")
