"""C13 - `--check` never writes and its exit status tells the truth.

Monitor: the real `stylua --check` binary is run (under strace) on generated directory trees whose
files are already formatted / unformatted / unparseable / invalid UTF-8 / verification-failing /
crash-injected / unreadable through an injected EACCES, with missing and dangling paths on the
command line, in all four output formats. Observed: the syscall log, byte+mtime+inode+mode snapshots
before and after, the exit status, stdout. Judged against a model that is computed from the tree
with the library reference (`sv libfmt`), never from the generator's intentions.
"""
import posixpath
import json
import re

import clilib
import ftree
import svlib

PROP = "C13"
FORMATS = ["Standard", "Unified", "Json", "Summary"]
THREADS = [1, 2, 16]
SEQ_CLASSES = ["F", "U", "P", "X", "V", "C", "E", "M", "D"]

META = {
    "level": "exploration",
    "rule": ("Pinned (identical for every seed): every single outcome class x 4 output formats, every ordered pair "
             "(thorough: x 4 formats, plus every ordered triple) of the classes {formatted, unformatted, unparseable, "
             "invalid UTF-8, verification-failing, crash-injected, EACCES-on-read (strace injection), missing path, "
             "dangling symlink} as explicit arguments in that order, and directory trees holding one file of every "
             "class x 4 formats x --num-threads 1/2/16. Seeded: random trees (depth <= 3, <= 12 files quick / 25 "
             "thorough, non-Lua files, dangling links, directories named *.lua) with random argument lists (., "
             "directories, explicit files of any extension, ./ and absolute spellings, missing paths, shuffled), "
             "--output-format, --verify, --sort-requires, --indent-type, --num-threads, -g globs, --verbose. "
             "Each CLI execution is one evaluation judged by four oracles (syscalls, snapshot, exit status, "
             "diff set). A case is non-trivial when at least one selected file needs a change or fails (or an "
             "argument is missing); distinct = distinct (format, multiset of outcome classes, argument shape, "
             "thread count, flags) keys."),
    "assumptions": [
        "the formatted form of a file is the library's own output under the options of the run (sv libfmt); the library's "
        "correctness is the business of C01-C12",
        "selection is kept unambiguous (explicit files, *.lua/*.luau below directory arguments, basename globs, no "
        "hidden/ignored files, no overlapping arguments); a dangling symlink below a directory argument is not a "
        "selected file (observed: silently skipped) while the same link named on the command line is a missing path",
        "strace -f sees every file-system syscall of the process tree; under fault injection only openat is traced, "
        "the snapshot oracle still covers those runs",
        "unified diffs carry no file names, so for --output-format Unified only the number of diff blocks is compared",
    ],
}


# ------------------------------------------------------------------------------------------------
# workloads
# ------------------------------------------------------------------------------------------------

def seq_case(lf, seq, fmt, threads, verify, sort, idx, check=True, as_dir=False):
    """explicit arguments f0.lua f1.luau ... in the order of `seq`; with as_dir the same files are created
    in that order inside d/ and reached through the directory argument."""
    need_v = "V" in seq
    opts = {"check": check, "format": fmt, "verify": bool(verify or need_v), "sort": bool(sort or need_v), "threads": threads}
    cfg_ = ftree.config_for(opts)
    files, targets, env, inject = {}, [], {}, []
    for i, c in enumerate(seq):
        k = idx * 10 + i
        name = f"f{i}.lua" if (idx + i) % 3 else f"f{i}.luau"
        if as_dir:
            name = "d/" + name
        if c == "M":
            targets.append(f"missing{i}.lua")
            continue
        if c == "D":
            files[name] = {"symlink": f"nowhere{i}.lua"}
        elif c in ("E", "Er"):
            files[name] = ftree.text_for(lf, cfg_, "U" if (idx + i) % 2 else "F", k, idx + i)
            inject = [[name, "openat:error=EACCES:when=1"]]
        elif c == "Ew":  # write mode only: the second open (for writing) fails = read-only file
            files[name] = ftree.text_for(lf, cfg_, "U", k, idx + i)
            inject = [[name, "openat:error=EACCES:when=2"]]
        elif c == "Fw":  # an already formatted read-only file: must not be opened for writing at all
            files[name] = ftree.text_for(lf, cfg_, "F", k, idx + i)
            inject = [[name, "openat:error=EACCES:when=2"]]
        else:
            files[name] = ftree.text_for(lf, cfg_, c, k, idx + i)
            if c == "C":
                env[ftree.MARKER_ENV] = ftree.MARKER
        targets.append(name if (idx + i) % 4 else "./" + name)
    if as_dir:
        files["d/zz_other.txt"] = "not   lua  =  1\n"
        targets = ["d" if idx % 2 else "./d"]
    return ftree.make_case(files, opts, targets, env, inject, tag=("dirseq:" if as_dir else "seq:") + ",".join(seq))


def dir_case(lf, fmt, threads, variant, check=True):
    """a tree holding one file of every in-directory class, reached through directory arguments."""
    opts = {"check": check, "format": fmt, "verify": True, "sort": True, "threads": threads}
    cfg_ = ftree.config_for(opts)
    k = 900 + variant * 20
    members = [("d/a_ok.lua", "F"), ("d/b_un.lua", "U"), ("d/c_bad.lua", "P"), ("d/sub/d_utf.lua", "X"),
               ("d/sub/e_req.luau", "V"), ("d/sub/deep/f_crash.lua", "C"), ("d/g_un2.luau", "U"), ("e/h_ok.lua", "F"),
               ("e/i_un.lua", "U"), ("top.lua", "U")]
    if variant % 2:
        members.reverse()
    files = {}
    for j, (rel, c) in enumerate(members):
        files[rel] = ftree.text_for(lf, cfg_, c, k + j, variant + j)
    files["d/notes.txt"] = "local   not_lua  =  1\n"
    files["d/sub/data.json"] = "{ \"a\":1 }\n"
    files["e/README"] = "x  =  1\n"
    files["d/sub/link.lua"] = {"symlink": "gone.lua"}
    targets = [["."], ["d", "e", "top.lua"], ["./e", "./d"], ["top.lua", "{ROOT}/d"]][variant % 4]
    return ftree.make_case(files, opts, targets, {ftree.MARKER_ENV: ftree.MARKER}, None, tag=f"dir:{variant % 4}")


NAMES = ["main", "util", "init", "mod", "foo", "bar", "conf", "test_x", "Lib", "sp ace", "ünï", "a-b", "x.y", "skip_me", "z9", "back\\slash", "q'uote"]
DIRS = ["src", "lib", "pkg", "deep", "vendor", "x.lua", "t e", "core"]


def random_case(rng, lf, tier, check=True):
    big = tier == "thorough"
    opts = {"check": check}
    if check:
        opts["format"] = rng.pick(FORMATS + [None])
    else:
        opts["format"] = rng.pick([None, None, "Standard", "Json"])
    opts["verify"] = rng.chance(1, 3)
    opts["sort"] = rng.chance(1, 3)
    opts["threads"] = rng.pick([None, 1, 2, 16])
    opts["spaces"] = rng.chance(1, 6)
    opts["verbose"] = rng.chance(1, 12)
    if rng.chance(1, 8):
        # a range given together with everything else (the whole text, or its first part)
        opts["range"] = rng.pick([[0, None], [None, 1000000], [0, 40], [10, None]])
    use_globs = rng.chance(1, 6)
    if use_globs:
        opts["globs"] = rng.pick([["*.lua"], ["*.luau"], ["*.lua", "*.luau"], ["*.lua", "!skip_*.lua"], ["*.lua", "*.luau", "!skip_*"]])
    cfg_ = ftree.config_for(opts)
    # directories
    dirs = [""]
    for _ in range(rng.below(5 if big else 4)):
        parent = rng.pick(dirs)
        if parent.count("/") >= 2 and parent:
            continue
        name = rng.pick([d for d in DIRS if not (use_globs and d.endswith(".lua"))])
        d = (parent + "/" + name) if parent else name
        if d not in dirs:
            dirs.append(d)
    nfiles = 1 + rng.below(25 if big else 12)
    all_formatted = rng.chance(1, 8)  # exit 0 must be seen too
    files = {}
    want_marker = False
    for i in range(nfiles):
        d = rng.pick(dirs)
        base = rng.pick(NAMES) + str(i)
        roll = rng.below(100)
        if all_formatted:
            c = "F" if roll < 85 else "N"
        elif roll < 28:
            c = "F"
        elif roll < 56:
            c = "U"
        elif roll < 66:
            c = "P"
        elif roll < 73:
            c = "X"
        elif roll < 80:
            c = "V"
        elif roll < 87:
            c = "C"
        elif roll < 96:
            c = "N"
        else:
            c = "L"
        if c == "N":
            rel = (d + "/" if d else "") + base + rng.pick([".txt", ".md", ".json", "", ".lua.bak"])
            files[rel] = ftree.text_for(lf, cfg_, rng.pick(["U", "U", "P", "F"]), i, rng.below(50))
            continue
        rel = (d + "/" if d else "") + base + rng.pick([".lua", ".lua", ".luau"])
        twins = [r for r in files if isinstance(files[r], (str, bytes)) and r.endswith((".lua", ".luau")) and posixpath.dirname(r) == d and posixpath.basename(r).swapcase() != posixpath.basename(r)]
        if twins and rng.chance(1, 8):
            # a second file whose name differs from an existing one only in letter case
            t = rng.pick(twins)
            stem, ext = posixpath.splitext(posixpath.basename(t))
            rel = (d + "/" if d else "") + stem.swapcase() + ext
            if rel in files:
                continue
        if c == "L":
            files[rel] = {"symlink": "nowhere" + str(i)}
            continue
        if c == "C":
            want_marker = True
        files[rel] = ftree.text_for(lf, cfg_, c, i, rng.below(50))
    env = {}
    if want_marker and not rng.chance(1, 8):
        env[ftree.MARKER_ENV] = ftree.MARKER
    elif rng.chance(1, 10):
        env[ftree.MARKER_ENV] = ftree.MARKER
    # arguments: disjoint, shuffled
    shape = rng.below(4)
    tops = []
    for rel in files:
        t = rel.split("/")[0]
        if t not in tops:
            tops.append(t)
    targets = []
    if shape == 0:
        targets = [rng.pick([".", ".", "./", "{ROOT}"])]
    elif shape == 1:
        targets = tops
    else:
        covered = []
        if shape == 3:
            for d in rng.sample([d for d in dirs if d], rng.below(3)):
                if not any(d == c or d.startswith(c + "/") or c.startswith(d + "/") for c in covered):
                    covered.append(d)
        cands = [r for r in files if not any(r.startswith(c + "/") for c in covered)]
        picked = rng.sample(cands, 1 + rng.below(max(1, len(cands))))
        targets = covered + picked
    if use_globs:  # explicit arguments must be directories or files the globs select (explicit + unmatched = C16)
        targets = [t for t in targets if ftree._kind(files, ftree.norm_target(t)) == "dir"
                   or (ftree._kind(files, ftree.norm_target(t)) == "file" and ftree.glob_selected(t, opts["globs"]))]
        if not targets:
            targets = ["."]
    if targets not in (["."], ["./"], ["{ROOT}"]):
        if rng.chance(1, 5):
            targets.append(rng.pick(["missing.lua", "no/such/dir", "absent.luau"]))
        targets = rng.shuffle(targets)
        spelled = []
        for t in targets:
            r = rng.below(10)
            spelled.append("./" + t if r < 3 else ("{ROOT}/" + t if r == 3 else t))
        targets = spelled
    inject = None
    if rng.chance(1, 8):
        order = ftree.model(ftree.make_case(files, opts, targets, env), lf)["order"]
        plain = [r for r in order if re.match(r"^[A-Za-z0-9_./-]+$", r)]
        if plain:
            when = 1 if check else rng.pick([1, 2, 2])
            inject = [[rng.pick(plain), f"openat:error=EACCES:when={when}"]]
    return ftree.make_case(files, opts, targets, env, inject, tag="random")


def pinned_cases(lf, tier):
    cases = []
    idx = 0
    for c in SEQ_CLASSES:
        for fmt in FORMATS:
            cases.append(seq_case(lf, [c], fmt, THREADS[idx % 3], idx % 2, idx % 5 == 0, idx))
            idx += 1
    for a in SEQ_CLASSES:
        for b in SEQ_CLASSES:
            if a == "E" and b == "E":
                continue
            fmts = FORMATS if tier == "thorough" else [FORMATS[idx % 4]]
            for fmt in fmts:
                cases.append(seq_case(lf, [a, b], fmt, THREADS[idx % 3], idx % 3 == 0, idx % 4 == 0, idx))
                idx += 1
    for v, fmt in enumerate(FORMATS):
        for t in THREADS:
            cases.append(dir_case(lf, fmt, t, v + (4 if t == 2 else 0)))
    # names that differ only in letter case are different files (and odd characters are just characters)
    for v, fmt in enumerate(FORMATS):
        for pair, order in ((("F", "U"), 0), (("F", "P"), 1), (("U", "F"), 2), (("P", "U"), 3)):
            opts = {"check": True, "format": fmt, "verify": False, "sort": False, "threads": THREADS[(v + order) % 3]}
            cfg_ = ftree.config_for(opts)
            names = [("Util.lua", "util.lua"), ("Lib/mod.lua", "lib/mod.lua"), ("d/Back\\slash.lua", "d/back\\slash.lua"), ("A B.lua", "a b.lua")][(v + order) % 4]
            files = {names[0]: ftree.text_for(lf, cfg_, pair[0], 700 + v, order), names[1]: ftree.text_for(lf, cfg_, pair[1], 710 + v, order + 1)}
            targets = [list(names), [names[1], names[0]], ["."], ["./" + names[0], names[1]]][order]
            cases.append(ftree.make_case(files, opts, targets, {}, None, tag=f"case-twins:{pair[0]}{pair[1]}:{order}"))
    # a symbolic link to a regular file, met in a directory or named, is that file under the link's name (the target
    # sits outside the walked directory under a name no glob selects, so that it is reached once)
    for v, fmt in enumerate(FORMATS):
        for ci, cls in enumerate(("U", "P", "F", "X")):
            opts = {"check": True, "format": fmt, "verify": False, "sort": False, "threads": THREADS[(v + ci) % 3]}
            cfg_ = ftree.config_for(opts)
            files = {"store/real%d.txt" % ci: ftree.text_for(lf, cfg_, cls, 760 + ci, v),
                     "d/plain.lua": ftree.text_for(lf, cfg_, "F", 770 + ci, v),
                     "d/link.lua": {"symlink": "../store/real%d.txt" % ci},
                     "store/other%d.txt" % ci: ftree.text_for(lf, cfg_, "U", 780 + ci, v),
                     "d/sub/deep_link.luau": {"symlink": "../../store/other%d.txt" % ci}}
            if (v + ci) % 2:
                del files["d/sub/deep_link.luau"]
            targets = [["d"], ["d/link.lua", "d/plain.lua"], ["./d"], ["d/plain.lua", "d/link.lua"]][(v + ci) % 4]
            cases.append(ftree.make_case(files, opts, targets, {}, None, tag=f"link-to-file:{cls}:{v}"))
    if tier == "thorough":
        for a in SEQ_CLASSES:
            for b in SEQ_CLASSES:
                for c in SEQ_CLASSES:
                    if [a, b, c].count("E") > 1:
                        continue
                    cases.append(seq_case(lf, [a, b, c], FORMATS[idx % 4], THREADS[idx % 3], idx % 3 == 0, idx % 4 == 0, idx))
                    idx += 1
    return cases


# ------------------------------------------------------------------------------------------------
# oracles
# ------------------------------------------------------------------------------------------------

def path_class(case, mdl, rel):
    if rel in mdl["selected"]:
        return mdl["selected"][rel]["cls"]
    k = ftree._kind(case["files"], rel)
    if k == "dir":
        return "directory"
    if k is not None:
        return "unselected"
    return "new-path"


def printed_files(fmt, out, root):
    """-> (list of tree-relative paths a diff was printed for | None, number of diff blocks, problems)"""
    text = out.decode("utf-8", "replace")
    problems = []
    if fmt in (None, "Standard"):
        paths = [ftree.printed_rel(m, root) for m in re.findall(r"^Diff in (.*):$", text, re.M)]
        return paths, len(paths), problems
    if fmt == "Unified":
        n = len(re.findall(r"^--- old\n\+\+\+ new\n@@ ", text, re.M))
        return None, n, problems
    if fmt == "Json":
        paths = []
        for line in text.splitlines():
            if not line.strip():
                continue
            try:
                o = json.loads(line)
            except ValueError:
                problems.append("stdout line is not JSON: " + line[:80])
                continue
            if isinstance(o, dict) and "file" in o:
                paths.append(ftree.printed_rel(o["file"], root))
            else:
                problems.append("JSON object without 'file': " + line[:80])
        return paths, len(paths), problems
    if fmt == "Summary":
        lines = text.splitlines()
        if not lines or not lines[0].startswith("! Checking formatting"):
            problems.append("summary header missing")
            body = lines
        else:
            body = lines[1:]
        footer = None
        if body and (body[-1].startswith("✓") or body[-1].startswith("✕")):
            footer = body[-1]
            body = body[:-1]
        else:
            problems.append("summary footer missing")
        paths = [ftree.printed_rel(l, root) for l in body]
        if footer is not None:
            m = re.search(r"found in (\d+) file", footer)
            n = int(m.group(1)) if m else (0 if "All files are correctly formatted" in footer else -1)
            if n != len(paths):
                problems.append(f"summary footer counts {n} files, {len(paths)} listed")
        return paths, len(paths), problems
    raise svlib.HarnessError(f"unknown format {fmt}")


def judge(case, obs, lf):
    """-> (findings, mdl). A finding carries `kind`: the part of its identity that survives shrinking."""
    mdl = ftree.model(case, lf)
    fmt = case["opts"].get("format") or "Standard"
    F = []

    def add(oracle, kind, signature, detail):
        F.append({"oracle": oracle, "kind": kind, "signature": signature, "detail": detail})

    # (1) syscalls with write intent inside the tree
    for e in obs["events"] or []:
        if e["write_intent"]:
            on = path_class(case, mdl, e["rel"][0])
            add("no-write-syscall", f"write-syscall:{e['call']}:{on}", f"C13:write-syscall:{e['call']}:on={on}",
                f"check mode issued {e['call']}({', '.join(e['rel'])}, {e['flags']}) = {e['ret']} inside the tree")
    # (2) snapshot
    for rel, what in clilib.snapshot_diff(obs["before"], obs["after"], ignore_dir_mtime=False):
        on = path_class(case, mdl, rel)
        add("snapshot", f"snapshot:{what}:{on}", f"C13:snapshot:{what}:on={on}",
            f"check mode changed the tree: {rel}: {what} (class {on})")
    # (3) exit status
    exp = mdl["exit_check"]
    if obs["rc"] != exp:
        race = exp == 2 and obs["rc"] == 1 and any(t[0] == "O" and t[1] == "store" and t[2:4] == ["2", "1"] for t in obs["exit_trace"])
        if race:
            add("exit-status", "exit:race", "C13:exit:race-1-instead-of-2",
                "exit 1 instead of 2: the output thread overwrote the status 2 stored by a concurrently logged error "
                f"(EXIT_CODE trace: {' / '.join(' '.join(t) for t in obs['exit_trace'])}); classes {ftree.class_multiset(mdl)}")
        else:
            add("exit-status", f"exit:{exp}:{fmt}",
                f"C13:exit:expected={exp}:got={obs['rc']}:classes={ftree.bad_classes(mdl)}:format={fmt}",
                f"exit status {obs['rc']}, model says {exp}; classes {ftree.class_multiset(mdl)}; missing arguments {mdl['missing']}; "
                f"stderr: {obs['err'].decode('utf-8', 'replace')[:300]}")
    # (4) diffs printed for precisely the files that differ
    want = sorted(r for r, i in mdl["selected"].items() if i["differs"])
    paths, nblocks, problems = printed_files(fmt, obs["out"], obs["root"])
    for p in problems:
        kind = re.sub(r"\d+", "N", p.split(":")[0])
        add("diff-set", f"diffset:malformed:{fmt}:{kind}", f"C13:diffset:malformed-output:{kind.replace(' ', '-')}:format={fmt}", p)
    if paths is None:
        if nblocks != len(want):
            rel = "fewer" if nblocks < len(want) else "more"
            add("diff-set", f"diffset:count:{rel}:{fmt}", f"C13:diffset:{rel}-diff-blocks-than-differing-files:format={fmt}",
                f"{nblocks} unified diff blocks printed, {len(want)} files differ ({want})")
    else:
        got = sorted(paths)
        for r in sorted(set(want) - set(got)):
            add("diff-set", f"diffset:missing:{fmt}", f"C13:diffset:no-diff-for-differing-file:format={fmt}",
                f"{r} differs from its formatted form but no diff was printed; printed: {got}")
        for r in sorted(set(got) - set(want)):
            on = path_class(case, mdl, r)
            add("diff-set", f"diffset:spurious:{on}:{fmt}", f"C13:diffset:diff-for-file-that-does-not-differ:class={on}:format={fmt}",
                f"a diff was printed for {r} (class {on}); differing files: {want}")
        for r in sorted(set(got)):
            if got.count(r) > 1 and r in want:
                add("diff-set", f"diffset:duplicate:{fmt}", f"C13:diffset:diff-printed-twice:format={fmt}", f"{got.count(r)} diffs printed for {r}")
    return F, mdl


def exec13(case):
    return ftree.execute(case, exit_trace=True)


# ------------------------------------------------------------------------------------------------
# driver
# ------------------------------------------------------------------------------------------------

class Tally:
    """shared bookkeeping of both monitors (C14 reuses it)."""

    def __init__(self, prop, lf, judge_fn, exec_fn):
        self.prop, self.lf, self.judge_fn, self.exec_fn = prop, lf, judge_fn, exec_fn
        self.evaluations = 0
        self.nontrivial = set()
        self.findings = []
        self.per_signature = {}
        self.samples = []
        self.counters = {}
        self.inconclusive = 0
        self.notes = []
        self.reduced = {}

    def count(self, k, n=1):
        self.counters[k] = self.counters.get(k, 0) + n

    def note(self, s):
        self.inconclusive += 1
        if s not in self.notes:
            self.notes.append(s)

    def conclusive(self, case, obs):
        """False (and counted) when the execution cannot be judged."""
        if isinstance(obs, Exception):
            self.note(f"harness problem while executing a case: {type(obs).__name__}: {str(obs)[:120]}")
            return False
        if obs.get("skipped"):
            self.note(obs["skipped"])
            return False
        if obs["timed_out"] or obs["rc"] is None:
            self.note("CLI run hit the 60 s watchdog")
            return False
        return True

    def on_result(self, case, obs):
        if not self.conclusive(case, obs):
            return
        findings, mdl = self.judge_fn(case, obs, self.lf)
        self.evaluations += 1
        if obs["events"] is None:
            self.note("strace unavailable: syscall oracle not evaluated (snapshot oracle still applied)")
            self.count("runs.without_strace")
        else:
            self.count("runs.strace_full" if obs["strace_full"] else "runs.strace_inject_openat_only")
            for e in obs["events"]:
                self.count("syscall_in_tree." + e["call"] + (".write_intent" if e["write_intent"] else ""))
        o = case["opts"]
        self.count("mode." + ("check" if o.get("check") else "write"))
        self.count("format." + str(o.get("format") or "default(Standard)"))
        self.count("threads." + str(o.get("threads") if o.get("threads") is not None else "default"))
        self.count("exit." + str(obs["rc"]))
        self.count("args." + ftree.target_shape(case))
        for fl in ("verify", "sort", "spaces", "verbose", "globs"):
            if o.get(fl):
                self.count("flag." + fl)
        for k, v in (mdl.get("counters") or {}).items():
            self.count(k, v)
        for i in mdl["selected"].values():
            self.count("class." + i["cls"])
        if mdl["missing"]:
            self.count("class.missing-argument", len(mdl["missing"]))
        if mdl["skipped_links"]:
            self.count("dangling_link_below_directory_argument(not judged)", len(mdl["skipped_links"]))
        self.count("unselected_files_watched", len([r for r in case["files"] if r not in mdl["selected"]]))
        if obs.get("exit_trace"):
            self.count("exit_code_ops_traced", len(obs["exit_trace"]))
        if any(c != "formatted" for c in mdl["classes"]):
            self.nontrivial.add(ftree.case_key(self.prop, case, mdl))
            if len(self.samples) < 3 and 2 <= len(mdl["selected"]) and len(case["files"]) <= 6 and len(mdl["classes"]) >= 2:
                self.samples.append(ftree.short_case(case, mdl, obs))
        for f in findings:
            self.report(case, obs, f)

    def report(self, case, obs, f):
        kind = f["kind"]
        final_case, final = case, f
        if not kind.endswith(":race"):
            n = self.reduced.get(kind, 0)
            if n >= 6:
                self.per_signature[f"{self.prop}:{kind} (further occurrences, not reduced)"] = \
                    self.per_signature.get(f"{self.prop}:{kind} (further occurrences, not reduced)", 0) + 1
                return
            self.reduced[kind] = n + 1

            def still(c):
                o2 = self.exec_fn(c)
                if isinstance(o2, Exception) or o2.get("skipped") or o2["timed_out"] or o2["rc"] is None:
                    return False
                return any(x["kind"] == kind for x in self.judge_fn(c, o2, self.lf)[0])

            small = ftree.minimise(case, still)
            if small is not case:
                o2 = self.exec_fn(small)
                if not (isinstance(o2, Exception) or o2.get("skipped") or o2["timed_out"] or o2["rc"] is None):
                    same = [x for x in self.judge_fn(small, o2, self.lf)[0] if x["kind"] == kind]
                    if same:
                        final_case, final = small, same[0]
        sig_ = final["signature"]
        self.per_signature[sig_] = self.per_signature.get(sig_, 0) + 1
        if sum(1 for x in self.findings if x["signature"] == sig_) < 3:
            c = dict(final_case)
            c["reduced_from_files"] = len(case["files"])
            self.findings.append({"oracle": final["oracle"], "signature": sig_, "detail": final["detail"], "case": c})

    def result(self, items_total):
        return {"evaluations": self.evaluations, "nontrivial": sorted(self.nontrivial), "findings": self.findings,
                "samples": self.samples, "counters": self.counters, "inconclusive": self.inconclusive,
                "inconclusive_notes": self.notes, "per_signature": self.per_signature, "items_total": items_total,
                "extra_coverage": {"outcome_classes_observed": sorted(k[6:] for k in self.counters if k.startswith("class.")),
                                   "strace_available": clilib.strace_available()}}


def stdin_leg(lf, tally):
    """`stylua --check -`: the same truth through stdin (with and without --stdin-filepath, every
    output format): exit 0 / 1 / 2 by the class of the text, and nothing written anywhere."""
    cfg_ = clilib.cfg()
    texts = {"F": lf.format(clilib.lua_unformatted(3), cfg_)[1].encode(), "U": clilib.lua_unformatted(4).encode(),
             "U-blank": b"\n\n  \n", "P": clilib.lua_unparseable(5).encode(), "F-empty": b""}
    want = {"F": 0, "U": 1, "U-blank": 1, "P": 2, "F-empty": 0}
    for cls, data in texts.items():
        for fmt in FORMATS + [None]:
            for fp in (False, True):
                args = ["--check"] + (["--output-format", fmt] if fmt else []) + (["--stdin-filepath", "src/x.lua"] if fp else []) + ["-"]
                with clilib.Scratch(prefix="sv-c13-stdin-") as sc:
                    sc.write("src/keep.lua", b"local   untouched = 1\n")
                    before = clilib.snapshot(sc.root)
                    run = clilib.run_cli(args, sc.root, sc.env({}), stdin=data)
                    after = clilib.snapshot(sc.root)
                if run.timed_out:
                    tally.inconclusive += 1
                    continue
                tally.evaluations += 1
                tally.counters["stdin." + cls] = tally.counters.get("stdin." + cls, 0) + 1
                case = {"stdin_case": {"class": cls, "args": args, "input": data.decode("utf-8", "replace")}}
                if run.rc != want[cls]:
                    sig_ = f"C13:stdin:exit:got={run.rc}:expected={want[cls]}:{cls}"
                    tally.per_signature[sig_] = tally.per_signature.get(sig_, 0) + 1
                    if sum(1 for x in tally.findings if x["signature"] == sig_) < 2:
                        tally.findings.append({"oracle": "exit-status", "signature": sig_, "detail": f"stylua {' '.join(args)} on a class-{cls} text exits {run.rc}; stderr: {run.err[:200]!r}", "case": case})
                if clilib.snapshot_diff(before, after, ignore_dir_mtime=True):
                    sig_ = "C13:stdin:tree-changed"
                    tally.per_signature[sig_] = tally.per_signature.get(sig_, 0) + 1
                    tally.findings.append({"oracle": "fs-snapshot", "signature": sig_, "detail": f"stylua {' '.join(args)} changed the tree", "case": case})


def run(tier, seed):
    lf = clilib.LibFmt()
    try:
        cases = pinned_cases(lf, tier)
        rng = clilib.Rng(seed * 1000003 + 13)
        for _ in range(500 if tier == "quick" else 6000):
            cases.append(random_case(rng, lf, tier, check=True))
        tally = Tally(PROP, lf, judge, exec13)
        ftree.run_all(cases, exec13, tally.on_result)
        stdin_leg(lf, tally)
        return tally.result(len(cases))
    finally:
        lf.close()


def replay(case):
    lf = clilib.LibFmt()
    try:
        if "stdin_case" in case:
            sc_ = case["stdin_case"]
            with clilib.Scratch(prefix="sv-c13-stdin-") as sc:
                run = clilib.run_cli(sc_["args"], sc.root, sc.env({}), stdin=sc_["input"].encode())
            print(json.dumps({"exit": run.rc, "stdout": run.out.decode("utf-8", "replace")[:500], "stderr": run.err.decode("utf-8", "replace")[:500]}))
            want = {"F": 0, "U": 1, "U-blank": 1, "P": 2, "F-empty": 0}[sc_["class"]]
            return [] if run.rc == want else [{"oracle": "exit-status", "signature": f"C13:stdin:exit:got={run.rc}:expected={want}:{sc_['class']}", "detail": "replayed"}]
        obs = exec13(case)
        if obs.get("skipped") or obs["timed_out"] or obs["rc"] is None:
            print("inconclusive: " + str(obs.get("skipped") or "timeout"))
            return []
        findings, mdl = judge(case, obs, lf)
        print(json.dumps({"expected_exit": mdl["exit_check"], "observed_exit": obs["rc"],
                          "classes": {r: i["cls"] for r, i in mdl["selected"].items()}, "missing": mdl["missing"],
                          "stdout": obs["out"].decode("utf-8", "replace")[:2000], "stderr": obs["err"].decode("utf-8", "replace")[:2000]}, indent=1))
        return [{"oracle": f["oracle"], "signature": f["signature"], "detail": f["detail"]} for f in findings]
    finally:
        lf.close()
