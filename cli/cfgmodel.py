"""Shared helpers of the C15 / C16 / C20 monitors.

Everything in here is written from the DOCUMENTATION (README sections "Usage", "Glob Filtering",
"Filtering using .styluaignore", "Configuration" and the `--help` texts), the gitignore manual page
and the EditorConfig specification -- not from StyLua's sources:

  * the option table (names, documented values, flags, EditorConfig keys),
  * a parser for the subset of the command line the monitors generate,
  * parsers for the TOML / EditorConfig subsets the monitors write,
  * the configuration-search model (C15, C20),
  * a gitignore-subset matcher (C16),
  * case execution: materialise a replayable case in a Scratch area, run the real binary under
    strace, and return every observation (exit status, stdout, stderr, per-path open counts,
    before/after snapshots),
  * result accumulation in the shape svlib.finish expects.

A *case* is a JSON-able dict:
  {"files": {relpath: text}, "links": {relpath: target}, "cwd": relpath, "argv": [...],
   "env": {name: value|None}, "stdin": text|None, "family": str, ...}
Paths in "files" are relative to the scratch tree root; keys starting with "@home/" / "@xdg/" are
written below $HOME / $XDG_CONFIG_HOME of the run.  The token {ROOT} in argv / env values is
replaced by the absolute tree root at run time (and back in recorded output), so cases and
signatures never contain temporary paths.
"""
import concurrent.futures
import hashlib
import json
import os
import posixpath
import re
import threading

import clilib
import svlib

ROOT_TOKEN = "{ROOT}"
HOME_PREFIX = "@home/"
XDG_PREFIX = "@xdg/"
NWORKERS = max(2, min(16, svlib.NCPU))

# ------------------------------------------------------------------------------------------------
# the documented options
# ------------------------------------------------------------------------------------------------

NUMS = [0, 1, 2, 3, 4, 8, 40, 80, 120, 1000]
USIZE_MAX = 18446744073709551615

ENUMS = {
    "syntax": ["All", "Lua51", "Lua52", "Lua53", "Lua54", "LuaJIT", "Luau"],
    "line_endings": ["Unix", "Windows"],
    "indent_type": ["Tabs", "Spaces"],
    "quote_style": ["AutoPreferDouble", "AutoPreferSingle", "ForceDouble", "ForceSingle"],
    "call_parentheses": ["Always", "NoSingleString", "NoSingleTable", "None", "Input"],
    "space_after_function_names": ["Never", "Definitions", "Calls", "Always"],
    "collapse_simple_statement": ["Never", "FunctionOnly", "ConditionalOnly", "Always"],
}
INT_OPTS = ["column_width", "indent_width"]
OPTION_NAMES = ["syntax", "column_width", "line_endings", "indent_type", "indent_width", "quote_style",
                "call_parentheses", "space_after_function_names", "collapse_simple_statement", "sort_requires"]
FLAG_OF = {o: "--" + o.replace("_", "-") for o in OPTION_NAMES}
OPT_OF_FLAG = {v: k for k, v in FLAG_OF.items()}


def documented_values(opt):
    if opt in ENUMS:
        return list(ENUMS[opt])
    if opt in INT_OPTS:
        return list(NUMS)
    return [True, False]


def defaults():
    return clilib.cfg()


# EditorConfig carriers: option value -> list of (description, {key: value}) spellings.
# Standard keys follow the EditorConfig specification; the StyLua-specific keys follow the table in
# src/editorconfig.rs (the only place they are written down).
def editorconfig_spellings(opt, val):
    if opt == "line_endings":
        return {"Unix": [("lf", {"end_of_line": "lf"}), ("cr", {"end_of_line": "cr"}), ("LF", {"end_of_line": "LF"})],
                "Windows": [("crlf", {"end_of_line": "crlf"}), ("CRLF", {"end_of_line": "CRLF"})]}[val]
    if opt == "indent_type":
        return {"Tabs": [("tab", {"indent_style": "tab"}), ("Tab", {"indent_style": "Tab"})],
                "Spaces": [("space", {"indent_style": "space"}), ("SPACE", {"indent_style": "SPACE"})]}[val]
    if opt == "indent_width":
        return [("indent_size", {"indent_size": str(val)}),
                ("tab_width", {"indent_size": "tab", "tab_width": str(val)})]
    if opt == "column_width":
        if val == USIZE_MAX:
            return [("off", {"max_line_length": "off"})]
        return [("max_line_length", {"max_line_length": str(val)})]
    if opt == "quote_style":
        return {"AutoPreferDouble": [("double", {"quote_type": "double"}), ("Double", {"quote_type": "Double"}),
                                     ("auto", {"quote_type": "auto"})],
                "AutoPreferSingle": [("single", {"quote_type": "single"}), ("SINGLE", {"quote_type": "SINGLE"})]}.get(val, [])
    if opt in ("call_parentheses", "space_after_function_names", "collapse_simple_statement"):
        if opt == "call_parentheses" and val == "Input":
            return []
        return [("exact", {opt: val}), ("lower", {opt: val.lower()}), ("upper", {opt: val.upper()})]
    if opt == "sort_requires":
        return [("lower", {"sort_requires": "true" if val else "false"}),
                ("title", {"sort_requires": "True" if val else "False"})]
    return []


# ------------------------------------------------------------------------------------------------
# writing / reading the configuration file subsets
# ------------------------------------------------------------------------------------------------

def toml_text(settings):
    """settings: {option: value} -> stylua.toml text (sort_requires becomes its table, last)."""
    lines = []
    for k in OPTION_NAMES:
        if k in settings and k != "sort_requires":
            v = settings[k]
            lines.append(f"{k} = {v}" if isinstance(v, int) and not isinstance(v, bool) else f'{k} = "{v}"')
    if "sort_requires" in settings:
        lines.append("")
        lines.append("[sort_requires]")
        lines.append("enabled = " + ("true" if settings["sort_requires"] else "false"))
    return "\n".join(lines) + ("\n" if lines else "")


def parse_toml_subset(text):
    """The TOML subset the monitors write: `key = "str" | 'str' | int | bool` and one `[table]`."""
    out = {}
    table = None
    for raw in text.splitlines():
        line = raw.strip()
        if not line or line.startswith("#"):
            continue
        m = re.match(r"^\[([A-Za-z0-9_\-]+)\]$", line)
        if m:
            table = m.group(1)
            continue
        m = re.match(r"^([A-Za-z0-9_\-]+)\s*=\s*(.*)$", line)
        if not m:
            raise ValueError("model cannot read: " + raw)
        k, v = m.group(1), m.group(2).strip()
        if v[:1] in "\"'":
            val = v[1:-1]
        elif v in ("true", "false"):
            val = v == "true"
        else:
            val = int(v)
        if table == "sort_requires" and k == "enabled":
            out["sort_requires"] = val
        elif table is None:
            out[k] = val
        else:
            raise ValueError("model cannot read table " + table)
    return out


def editorconfig_text(sections, root=False):
    """sections: list of (glob, {key: value})."""
    lines = []
    if root:
        lines += ["root = true", ""]
    for glob, kv in sections:
        lines.append(f"[{glob}]")
        for k, v in kv.items():
            lines.append(f"{k} = {v}")
        lines.append("")
    return "\n".join(lines)


def parse_editorconfig(text):
    root = False
    sections = []
    cur = None
    for raw in text.splitlines():
        line = raw.strip()
        if not line or line[0] in "#;":
            continue
        if line.startswith("[") and line.endswith("]"):
            cur = (line[1:-1], {})
            sections.append(cur)
            continue
        if "=" in line:
            k, v = line.split("=", 1)
            k, v = k.strip().lower(), v.strip()
            if cur is None:
                if k == "root":
                    root = v.lower() == "true"
            else:
                cur[1][k] = v
    return root, sections


def _ec_glob_regex(glob):
    # only the forms the monitors write: *, *.ext, *.{a,b}, name.ext  (no '/')
    out = ""
    i = 0
    while i < len(glob):
        c = glob[i]
        if c == "*":
            out += "[^/]*"
        elif c == "?":
            out += "[^/]"
        elif c == "{":
            j = glob.index("}", i)
            out += "(?:" + "|".join(re.escape(x) for x in glob[i + 1:j].split(",")) + ")"
            i = j
        else:
            out += re.escape(c)
        i += 1
    return re.compile(out)


def editorconfig_properties(files, file_path, stop_dir=None):
    """EditorConfig specification: `.editorconfig` files from the file's directory upwards (until one
    says root=true); nearer files win over farther ones, later sections over earlier ones.
    `files`: {relpath: text} of the tree; file_path relative to the tree root.  stop_dir: do not look
    above this directory (used to find out whether files above cwd matter)."""
    chain = []
    d = posixpath.dirname(file_path)
    name = posixpath.basename(file_path)
    while True:
        p = posixpath.join(d, ".editorconfig") if d else ".editorconfig"
        if p in files:
            root, sections = parse_editorconfig(files[p])
            chain.append(sections)
            if root:
                break
        if d == "" or (stop_dir is not None and d == stop_dir):
            break
        d = posixpath.dirname(d)
    props = {}
    for sections in reversed(chain):
        for glob, kv in sections:
            if "/" in glob:
                raise ValueError("model does not implement path globs in .editorconfig")
            if _ec_glob_regex(glob).fullmatch(name):
                props.update(kv)
    return props


def apply_editorconfig(cfg_, props):
    """Mapping of EditorConfig properties onto options (spec for the standard keys, table in
    src/editorconfig.rs for the StyLua-specific ones). Unknown / invalid values leave the option alone."""
    c = dict(cfg_)
    touched = set()

    def low(k):
        return props.get(k, "").strip().lower()

    v = low("end_of_line")
    if v in ("lf", "cr"):
        c["line_endings"] = "Unix"
        touched.add("line_endings")
    elif v == "crlf":
        c["line_endings"] = "Windows"
        touched.add("line_endings")
    v = low("indent_size")
    if v.isdigit():
        c["indent_width"] = int(v)
        touched.add("indent_width")
    elif v == "tab" and low("tab_width").isdigit():
        c["indent_width"] = int(low("tab_width"))
        touched.add("indent_width")
    v = low("indent_style")
    if v in ("tab", "space"):
        c["indent_type"] = "Tabs" if v == "tab" else "Spaces"
        touched.add("indent_type")
    v = low("max_line_length")
    if v.isdigit():
        c["column_width"] = int(v)
        touched.add("column_width")
    elif v == "off":
        c["column_width"] = USIZE_MAX
        touched.add("column_width")
    v = low("quote_type")
    if v in ("double", "single"):
        c["quote_style"] = "AutoPreferDouble" if v == "double" else "AutoPreferSingle"
        touched.add("quote_style")
    for opt in ("call_parentheses", "space_after_function_names", "collapse_simple_statement"):
        v = low(opt)
        for variant in ENUMS[opt]:
            if v == variant.lower() and not (opt == "call_parentheses" and variant == "Input"):
                c[opt] = variant
                touched.add(opt)
    v = low("sort_requires")
    if v in ("true", "false"):
        c["sort_requires"] = v == "true"
        touched.add("sort_requires")
    return c, touched


# ------------------------------------------------------------------------------------------------
# command line (the subset the monitors generate), from the --help texts
# ------------------------------------------------------------------------------------------------

class Args:
    def __init__(self):
        self.config_path = None
        self.stdin_filepath = None
        self.search_parents = False
        self.check = False
        self.verify = False
        self.allow_hidden = False
        self.no_editorconfig = False
        self.respect_ignores = False
        self.globs = None
        self.overrides = {}
        self.targets = []
        self.stdin = False
        self.other = {}


_VALUE_FLAGS = {"--config-path": "config_path", "-f": "config_path", "--stdin-filepath": "stdin_filepath"}
_OTHER_VALUE_FLAGS = ("--output-format", "--color", "--num-threads", "--range-start", "--range-end")
_BOOL_FLAGS = {"--search-parent-directories": "search_parents", "-s": "search_parents", "--check": "check", "-c": "check",
               "--verify": "verify", "--allow-hidden": "allow_hidden", "-a": "allow_hidden",
               "--no-editorconfig": "no_editorconfig", "--respect-ignores": "respect_ignores"}


def canonical_value(opt, text):
    if opt in ENUMS:
        for v in ENUMS[opt]:
            if v.lower() == text.lower():
                return v
        raise ValueError(f"not a documented value of {opt}: {text}")
    return int(text)


def parse_argv(argv):
    a = Args()
    i = 0
    n = len(argv)
    only_targets = False
    while i < n:
        x = argv[i]
        if only_targets:
            a.targets.append(x)
            i += 1
            continue
        if x == "--":
            only_targets = True
            i += 1
            continue
        if x == "-":
            a.stdin = True
            i += 1
            continue
        val = None
        if x.startswith("--") and "=" in x:
            x, val = x.split("=", 1)

        def take():
            nonlocal i
            if val is not None:
                return val
            i += 1
            return argv[i]

        if x in _VALUE_FLAGS:
            setattr(a, _VALUE_FLAGS[x], take())
        elif x in _OTHER_VALUE_FLAGS:
            a.other[x] = take()
        elif x in _BOOL_FLAGS:
            setattr(a, _BOOL_FLAGS[x], True)
        elif x in ("-v", "--verbose"):
            pass
        elif x == "--sort-requires":
            a.overrides["sort_requires"] = True
        elif x in OPT_OF_FLAG:
            opt = OPT_OF_FLAG[x]
            a.overrides[opt] = canonical_value(opt, take())
        elif x in ("-g", "--glob"):
            a.globs = a.globs or []
            if val is not None:
                a.globs.append(val)
            else:
                while i + 1 < n and argv[i + 1] != "--" and not (argv[i + 1].startswith("-") and len(argv[i + 1]) > 1):
                    i += 1
                    a.globs.append(argv[i])
        elif x.startswith("-"):
            raise ValueError("model does not know flag " + x)
        else:
            a.targets.append(x)
        i += 1
    return a


# ------------------------------------------------------------------------------------------------
# paths inside a case
# ------------------------------------------------------------------------------------------------

def tree_files(case):
    return {k: v for k, v in case["files"].items() if not k.startswith("@")}


def norm_rel(cwd, p):
    """Physical location (relative to the tree root, '' = the root itself) of path argument p given
    relative to cwd or absolute with the {ROOT} token. The generated trees contain no directory
    symlinks, so lexical normalisation is the physical one. Returns None when it leaves the tree."""
    if p.startswith(ROOT_TOKEN):
        rest = p[len(ROOT_TOKEN):].lstrip("/")
        q = posixpath.normpath(rest) if rest else "."
    elif p.startswith("/"):
        return None
    else:
        q = posixpath.normpath(posixpath.join(cwd or ".", p))
    if q == ".":
        return ""
    if q.startswith(".."):
        return None
    return q


def dirs_of(files, links=()):
    ds = {""}
    for f in list(files) + list(links):
        d = posixpath.dirname(f)
        while d:
            ds.add(d)
            d = posixpath.dirname(d)
    return ds


def is_under(p, d):
    return d == "" or p == d or p.startswith(d + "/")


def rel_to(p, d):
    if d == "":
        return p
    assert p.startswith(d + "/"), (p, d)
    return p[len(d) + 1:]


# ------------------------------------------------------------------------------------------------
# the configuration-search model (README "Finding the configuration" + option help)
# ------------------------------------------------------------------------------------------------

CONFIG_NAMES = ["stylua.toml", ".stylua.toml"]  # order of mention in the README / help


def _lookup_dir(files, d, prefix=""):
    for n in CONFIG_NAMES:
        p = prefix + (posixpath.join(d, n) if d else n)
        if p in files:
            return p
    return None


def find_config(case, args, file_dir):
    """-> (rule, path of the configuration file or None).  file_dir: physical directory (relative to
    the tree root) of the file being formatted."""
    files = case["files"]
    cwd = case["cwd"]
    if args.config_path is not None:
        p = norm_rel(cwd, args.config_path)
        return "config-path", p
    d = file_dir
    first = True
    while True:
        p = _lookup_dir(files, d)
        if p is not None:
            if first:
                rule = "toml.file-dir" + ("=cwd" if d == cwd else "")
            elif d == cwd:
                rule = "toml.cwd"
            elif is_under(d, cwd):
                rule = "toml.between"
            else:
                rule = "toml.above-cwd"
            return rule, p
        first = False
        if d == cwd and not args.search_parents:
            return "none", None
        if d == "":
            break
        d = posixpath.dirname(d)
    # nothing up to the tree root (and the real ancestors of the scratch area hold no configuration)
    if not args.search_parents:
        return "none", None
    env = case.get("env") or {}
    if not ("XDG_CONFIG_HOME" in env and env["XDG_CONFIG_HOME"] is None):
        for sub, rule in (("", "toml.xdg"), ("stylua", "toml.xdg-stylua")):
            p = _lookup_dir(files, sub, XDG_PREFIX)
            if p is not None:
                return rule, p
    for sub, rule in ((".config", "toml.home-config"), (".config/stylua", "toml.home-config-stylua")):
        p = _lookup_dir(files, sub, HOME_PREFIX)
        if p is not None:
            return rule, p
    return "none", None


def model_config(case, args, file_path):
    """Configuration the documentation promises for the file at file_path (relative to the tree root;
    need not exist: --stdin-filepath).  -> dict(cfg=..., rule=..., source=..., unspecified=None|str,
    ec_touched=set())"""
    files = case["files"]
    rule, src = find_config(case, args, posixpath.dirname(file_path))
    res = {"rule": rule, "source": src, "unspecified": None, "ec_touched": set()}
    c = defaults()
    if src is not None:
        c.update(parse_toml_subset(files[src]))
    elif not args.no_editorconfig:
        tf = tree_files(case)
        props = editorconfig_properties(tf, file_path)
        if props:
            c2, touched = apply_editorconfig(c, props)
            bounded, _ = apply_editorconfig(c, editorconfig_properties(tf, file_path, stop_dir=case["cwd"])) \
                if is_under(file_path, case["cwd"]) else (None, None)
            if bounded is not None and bounded != c2:
                # README: "StyLua does not search further than the current directory" vs the EditorConfig
                # specification (search to the file-system root): which of the two governs is not documented
                res["unspecified"] = "editorconfig-above-cwd"
            if touched:
                res["rule"] = "editorconfig"
                res["ec_touched"] = touched
                c = c2
    if res["rule"] == "none":
        res["rule"] = "default"
    c.update(args.overrides)
    res["cfg"] = c
    return res


# ------------------------------------------------------------------------------------------------
# gitignore subset (C16): name, *.ext, dir/, /anchored, !negated, **/x
# ------------------------------------------------------------------------------------------------

class Pat:
    def __init__(self, text):
        self.text = text
        t = text
        self.neg = t.startswith("!")
        if self.neg:
            t = t[1:]
        self.dir_only = t.endswith("/")
        if self.dir_only:
            t = t[:-1]
        any_depth = False
        if t.startswith("**/"):
            any_depth = True
            t = t[3:]
        elif t.startswith("/"):
            t = t[1:]
        elif "/" not in t:
            any_depth = True
        rx = ""
        for ch in t:
            if ch == "*":
                rx += "[^/]*"
            elif ch == "?":
                rx += "[^/]"
            else:
                rx += re.escape(ch)
        self.rx = re.compile(("(?:.*/)?" if any_depth else "") + rx)

    def match(self, rel, isdir):
        if self.dir_only and not isdir:
            return False
        return self.rx.fullmatch(rel) is not None


def parse_ignore(text):
    return [Pat(line.strip()) for line in text.splitlines() if line.strip() and not line.startswith("#")]


def ignore_file_verdict(pats, rel, isdir):
    """last matching pattern wins -> 'ig' | 'wl' | None"""
    last = None
    for p in pats:
        if p.match(rel, isdir):
            last = p
    if last is None:
        return None
    return "wl" if last.neg else "ig"


def basename_glob_match(glob, path):
    """-g patterns of the forms `*.ext`, `name*.ext`, `**/*.ext`: README example
    `stylua -g '*.lua' -g '!*.spec.lua' -- .` = "all Lua files except ..." -> matched at any depth."""
    g = glob[3:] if glob.startswith("**/") else glob
    rx = ""
    for ch in g:
        rx += "[^/]*" if ch == "*" else ("[^/]" if ch == "?" else re.escape(ch))
    if "/" in g:
        # a pattern with a directory part is anchored: it is matched against the path relative to the
        # working directory (gitignore rules, which the --glob documentation refers to); `*` stays in one level
        if glob.startswith("**/") or "**" in g:
            raise ValueError("model does not implement this path glob: " + glob)
        return re.fullmatch(rx, path) is not None
    return re.fullmatch(rx, posixpath.basename(path)) is not None


# ------------------------------------------------------------------------------------------------
# executing a case
# ------------------------------------------------------------------------------------------------

class Obs:
    pass


def _snap(sc):
    out = {}
    for prefix, base in (("", sc.root), (HOME_PREFIX, sc.home), (XDG_PREFIX, sc.xdg)):
        for rel, v in clilib.snapshot(base).items():
            out[prefix + rel] = v
    return out


def _to_case_path(sc, p):
    for prefix, base in (("", sc.root), (HOME_PREFIX, sc.home), (XDG_PREFIX, sc.xdg)):
        if p == base:
            return prefix + "" if prefix else ""
        if p.startswith(base + os.sep):
            return prefix + p[len(base) + 1:]
    return None


def run_case(case, strace=True, timeout=60, binary=None):
    """Materialise and execute one case; returns an Obs holding everything observed."""
    o = Obs()
    o.harness_error = None
    o.timed_out = False
    o.strace = bool(strace)
    try:
        with clilib.Scratch(prefix="sv-" + str(case.get("prop", "cli")).lower() + "-") as sc:
            for rel, data in case["files"].items():
                if rel.startswith(HOME_PREFIX):
                    sc.write(rel[len(HOME_PREFIX):], data, base=sc.home)
                elif rel.startswith(XDG_PREFIX):
                    sc.write(rel[len(XDG_PREFIX):], data, base=sc.xdg)
                else:
                    sc.write(rel, data)
            for d in case.get("dirs", []):
                if d.startswith(HOME_PREFIX):
                    os.makedirs(os.path.join(sc.home, d[len(HOME_PREFIX):]), exist_ok=True)
                elif d.startswith(XDG_PREFIX):
                    os.makedirs(os.path.join(sc.xdg, d[len(XDG_PREFIX):]), exist_ok=True)
                else:
                    os.makedirs(os.path.join(sc.root, d), exist_ok=True)
            for rel, target in (case.get("links") or {}).items():
                p = os.path.join(sc.root, rel)
                os.makedirs(os.path.dirname(p), exist_ok=True)
                os.symlink(target.replace(ROOT_TOKEN, sc.root), p)
            cwd_abs = os.path.join(sc.root, case["cwd"]) if case["cwd"] else sc.root
            os.makedirs(cwd_abs, exist_ok=True)
            argv = [a.replace(ROOT_TOKEN, sc.root) for a in case["argv"]]
            env = sc.env()
            for k, v in (case.get("env") or {}).items():
                if v is None:
                    env.pop(k, None)
                else:
                    env[k] = v.replace(ROOT_TOKEN, sc.root)
            before = _snap(sc)
            r = clilib.run_cli(argv, cwd_abs, env, stdin=case.get("stdin"), strace=strace, timeout=timeout, binary=binary)
            after = _snap(sc)
            o.rc = r.rc
            o.timed_out = r.timed_out
            o.out = r.out.decode("utf-8", "replace").replace(sc.root, ROOT_TOKEN)
            o.err = r.err.decode("utf-8", "replace").replace(sc.root, ROOT_TOKEN)
            o.out_bytes = r.out
            o.before = {k: v[1] for k, v in before.items() if v[0] == "file"}
            o.after = {k: v[1] for k, v in after.items() if v[0] == "file"}
            o.diff = clilib.snapshot_diff(before, after)
            o.reads = {}
            o.writes = {}
            o.opened = []
            if r.events is not None:
                for e in clilib.events_in_tree(r.events, sc.base):
                    if e.get("ret") is None or (e["ret"] < 0 and e["call"] in ("open", "openat")):
                        continue
                    for p in e["paths"]:
                        real = os.path.realpath(p) if os.path.lexists(p) else p
                        cp = _to_case_path(sc, real)
                        if cp is None:
                            continue
                        if e["write_intent"] and e["call"] != "chdir":
                            o.writes[cp] = o.writes.get(cp, 0) + 1
                        elif e["call"] in ("open", "openat") and "O_DIRECTORY" not in e["flags"]:
                            o.reads[cp] = o.reads.get(cp, 0) + 1
                            o.opened.append(cp)
            elif strace:
                o.harness_error = "strace log missing"
    except svlib.HarnessError as e:
        o.harness_error = str(e)
    except OSError as e:
        o.harness_error = f"{type(e).__name__}: {e}"
    return o


def run_many(cases, strace=True, timeout=60, workers=None):
    if not cases:
        return []
    with concurrent.futures.ThreadPoolExecutor(max_workers=workers or NWORKERS) as ex:
        return list(ex.map(lambda c: run_case(c, strace=strace, timeout=timeout), cases))


# ------------------------------------------------------------------------------------------------
# library reference (one process, used from the judging thread only)
# ------------------------------------------------------------------------------------------------

_REF = None
_REF_LOCK = threading.Lock()


def ref_format(text, cfg_):
    """-> ("ok", text) | ("parse_error", msg) | ..."""
    global _REF
    with _REF_LOCK:
        if _REF is None:
            _REF = clilib.LibFmt()
        return _REF.format(text, cfg_)


def ref_close():
    global _REF
    with _REF_LOCK:
        if _REF is not None:
            _REF.close()
            _REF = None


# ------------------------------------------------------------------------------------------------
# Lua probe texts
# ------------------------------------------------------------------------------------------------

def lua_probe(k):
    """Unformatted, unique, parseable under every syntax; its formatting depends on indentation,
    quotes, call parentheses, require sorting and (below ~60 columns) on the column width."""
    return (f"local zz{k} = require('zz')\nlocal aa{k} = require('aa')\n"  # out of order: shows sort_requires
            f"local   v{k}  =  {{ a=1,b  = 2, name = 'n{k}' }}\n"
            f"if v{k}   then\n"
            f"        print( 'x{k}' )\n"
            f"    for i=1,2 do\n"
            f"  local s{k} = \"q{k}\" .. tostring( i )\n"
            f"    end\n"
            f"end\n")


def indent_of_first_nested_line(text):
    """(kind, n): indentation of the first indented line of a formatted probe."""
    for line in text.replace("\r\n", "\n").split("\n"):
        if line[:1] == "\t":
            return ("tabs", len(line) - len(line.lstrip("\t")))
        if line[:1] == " ":
            return ("spaces", len(line) - len(line.lstrip(" ")))
    return (None, 0)


# ------------------------------------------------------------------------------------------------
# accumulation
# ------------------------------------------------------------------------------------------------

def case_key(case):
    blob = json.dumps({k: case.get(k) for k in ("files", "links", "cwd", "argv", "env", "stdin")}, sort_keys=True)
    return hashlib.sha1(blob.encode()).hexdigest()[:16]


def clip(s, n=400):
    s = s if isinstance(s, str) else repr(s)
    return s if len(s) <= n else s[:n] + f"...(+{len(s) - n})"


class Acc:
    def __init__(self, prop):
        self.prop = prop
        self.evaluations = 0
        self.nontrivial = set()
        self.findings = []
        self.samples = []
        self.counters = {}
        self.inconclusive = 0
        self.notes = []
        self.per_signature = {}
        self.items_total = 0

    def count(self, key, n=1):
        self.counters[key] = self.counters.get(key, 0) + n

    def finding(self, oracle, signature, detail, case):
        self.per_signature[signature] = self.per_signature.get(signature, 0) + 1
        if self.per_signature[signature] <= 3:
            self.findings.append({"oracle": oracle, "signature": signature, "detail": clip(detail, 1500), "case": public_case(case)})

    def incon(self, note):
        self.inconclusive += 1
        if len(self.notes) < 20:
            self.notes.append(note)

    def sample(self, case, extra=None):
        if len(self.samples) < 3:
            s = public_case(case)
            if extra:
                s["observed"] = extra
            self.samples.append(s)

    def result(self, extra_coverage=None):
        r = {"evaluations": self.evaluations, "nontrivial": sorted(self.nontrivial), "findings": self.findings,
             "samples": self.samples, "counters": dict(sorted(self.counters.items())), "inconclusive": self.inconclusive,
             "inconclusive_notes": self.notes, "per_signature": self.per_signature, "items_total": self.items_total}
        if extra_coverage:
            r["extra_coverage"] = extra_coverage
        return r


def public_case(case):
    return {k: v for k, v in case.items() if not k.startswith("_")}


def check_harness(acc, case, o):
    """True when the observation can be judged."""
    if o.harness_error:
        acc.incon("harness: " + o.harness_error)
        return False
    if o.timed_out:
        acc.incon("timeout: " + " ".join(case["argv"]))
        return False
    return True
