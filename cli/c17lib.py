"""Helpers shared by the C17 / C18 / C19 monitors (kept out of clilib.py, which is shared with the
other CLI properties): corpus loader, a thread-safe pool of `sv libfmt` reference processes, the
checker's OWN unified-diff parser/applier and JSON-mismatch applier, parsers for the summary and
standard `--check` formats, and line-level edit operators used to derive originals.

Nothing here re-implements formatting or diffing: the appliers only *consume* what the binary
printed and are written from the unified-diff format description, not from `similar`.
"""
import base64
import glob
import hashlib
import json
import os
import re
import threading

import clilib
import svlib


def sha(b, n=12):
    if isinstance(b, str):
        b = b.encode("utf-8", "surrogateescape")
    return hashlib.sha1(b).hexdigest()[:n]


def enc(b):
    """bytes -> JSON-able (text when valid UTF-8, base64 otherwise)."""
    try:
        return {"text": b.decode("utf-8")}
    except UnicodeDecodeError:
        return {"b64": base64.b64encode(b).decode("ascii")}


def dec(d):
    if "text" in d:
        return d["text"].encode("utf-8")
    return base64.b64decode(d["b64"])


# ------------------------------------------------------------------------------------------------
# corpus
# ------------------------------------------------------------------------------------------------

_CORPUS = None


def corpus():
    """[(relative name, text)] for every UTF-8 .lua file under <repo>/tests/inputs*, sorted by name."""
    global _CORPUS
    if _CORPUS is None:
        base = os.path.join(svlib.REPO, "tests")
        out = []
        for p in sorted(glob.glob(os.path.join(base, "inputs*", "**", "*.lua"), recursive=True)):
            try:
                with open(p, "rb") as f:
                    t = f.read().decode("utf-8")
            except (OSError, UnicodeDecodeError):
                continue
            out.append((os.path.relpath(p, base), t))
        if len(out) < 50:
            raise svlib.HarnessError(f"corpus under {base} has only {len(out)} files")
        _CORPUS = out
    return _CORPUS


# ------------------------------------------------------------------------------------------------
# reference formatter: one `sv libfmt` process per thread
# ------------------------------------------------------------------------------------------------

class Ref:
    def __init__(self):
        self.local = threading.local()
        self.all = []
        self.lock = threading.Lock()

    def _lf(self):
        lf = getattr(self.local, "lf", None)
        if lf is None:
            lf = clilib.LibFmt()
            self.local.lf = lf
            with self.lock:
                self.all.append(lf)
        return lf

    def format(self, src, cfg_, range_=None, verify=False):
        return self._lf().format(src, cfg_, range_, verify)

    def close(self):
        with self.lock:
            for lf in self.all:
                lf.close()
            self.all = []


# ------------------------------------------------------------------------------------------------
# lines
# ------------------------------------------------------------------------------------------------

_LINE_RE = re.compile(rb"[^\r\n]*(?:\r\n|\n|\r)|[^\r\n]+")


def split_lines(b):
    """Lines with their terminators. A line ends at LF, CRLF or a lone CR (the same three forms Lua's
    own lexer treats as a line break); a last line without terminator is a line too."""
    return _LINE_RE.findall(b)


# ------------------------------------------------------------------------------------------------
# unified diff: parser + applier (own implementation)
# ------------------------------------------------------------------------------------------------

class DiffError(Exception):
    pass


_HUNK_RE = re.compile(rb"^@@ -(\d+)(?:,(\d+))? \+(\d+)(?:,(\d+))? @@")
NO_NL = b"\\ No newline at end of file"


def parse_unified(data):
    """-> list of file diffs; each {"old":name,"new":name,"hunks":[{"old_start","old_len","new_start",
    "new_len","lines":[(tag, bytes)]}]}. Body lines are consumed by the counts of the hunk header, so a
    removed Lua comment `-- old` (printed as `--- old`) can never be mistaken for a file header."""
    toks = split_lines(data)
    i = 0
    files = []
    while i < len(toks):
        t = toks[i]
        if not t.startswith(b"--- "):
            raise DiffError(f"expected '--- ' file header at diff line {i + 1}, got {t[:60]!r}")
        if i + 1 >= len(toks) or not toks[i + 1].startswith(b"+++ "):
            raise DiffError(f"expected '+++ ' file header at diff line {i + 2}")
        fd = {"old": t[4:].rstrip(b"\r\n").decode("utf-8", "replace"),
              "new": toks[i + 1][4:].rstrip(b"\r\n").decode("utf-8", "replace"), "hunks": []}
        i += 2
        while i < len(toks) and toks[i].startswith(b"@@ "):
            m = _HUNK_RE.match(toks[i])
            if not m:
                raise DiffError(f"malformed hunk header {toks[i][:60]!r}")
            h = {"old_start": int(m.group(1)), "old_len": 1 if m.group(2) is None else int(m.group(2)),
                 "new_start": int(m.group(3)), "new_len": 1 if m.group(4) is None else int(m.group(4)), "lines": []}
            i += 1
            no, nn = 0, 0
            while no < h["old_len"] or nn < h["new_len"]:
                if i >= len(toks):
                    raise DiffError("hunk body shorter than its header says")
                b = toks[i]
                i += 1
                tag = b[:1]
                if tag == b"\\":
                    _strip_last_newline(h)
                    continue
                if tag not in (b" ", b"-", b"+"):
                    raise DiffError(f"unexpected hunk body line {b[:60]!r}")
                h["lines"].append((tag.decode(), b[1:]))
                if tag in (b" ", b"-"):
                    no += 1
                if tag in (b" ", b"+"):
                    nn += 1
            if no != h["old_len"] or nn != h["new_len"]:
                raise DiffError("hunk body does not match the counts of its header")
            # a marker may follow the very last body line
            while i < len(toks) and toks[i].startswith(b"\\"):
                _strip_last_newline(h)
                i += 1
            fd["hunks"].append(h)
        if not fd["hunks"]:
            raise DiffError("file header without hunks")
        files.append(fd)
    return files


def _strip_last_newline(h):
    if not h["lines"]:
        raise DiffError("'\\ No newline' marker without a preceding line")
    tag, text = h["lines"][-1]
    if not text.endswith(b"\n"):
        raise DiffError("'\\ No newline' marker after a line that has no newline to drop")
    h["lines"][-1] = (tag, text[:-1])


def apply_unified(orig, hunks):
    ol = split_lines(orig)
    out = []
    pos = 0
    for h in hunks:
        start = h["old_start"] - 1 if h["old_len"] > 0 else h["old_start"]
        if start < pos or start > len(ol):
            raise DiffError(f"hunk -{h['old_start']},{h['old_len']} out of order / out of range")
        out.extend(ol[pos:start])
        pos = start
        nstart = h["new_start"] - 1 if h["new_len"] > 0 else h["new_start"]
        if nstart != len(out):
            raise DiffError(f"hunk +{h['new_start']},{h['new_len']} does not start where the new text is ({len(out) + 1})")
        for tag, text in h["lines"]:
            if tag in " -":
                if pos >= len(ol) or ol[pos] != text:
                    got = ol[pos] if pos < len(ol) else b"<eof>"
                    raise DiffError(f"context/removed line {pos + 1} does not match: diff has {text[:50]!r}, file has {got[:50]!r}")
                pos += 1
            if tag in " +":
                out.append(text)
    out.extend(ol[pos:])
    return b"".join(out)


def parse_unified_tolerant(data):
    """Diagnosis only: hunk bodies are delimited by the next `@@ `/`--- old` line instead of by the counts of
    the header. -> list of file diffs whose hunks carry only "lines"."""
    toks = split_lines(data)
    files = []
    i = 0
    cur = None
    while i < len(toks):
        t = toks[i]
        if t.startswith(b"--- ") and i + 2 < len(toks) and toks[i + 1].startswith(b"+++ ") and toks[i + 2].startswith(b"@@ "):
            cur = {"hunks": []}
            files.append(cur)
            i += 2
            continue
        if t.startswith(b"@@ ") and cur is not None:
            cur["hunks"].append({"lines": []})
        elif cur is not None and cur["hunks"]:
            h = cur["hunks"][-1]
            if t[:1] == b"\\":
                try:
                    _strip_last_newline(h)
                except DiffError:
                    pass
            elif t[:1] in (b" ", b"-", b"+"):
                h["lines"].append((t[:1].decode(), t[1:]))
            else:
                raise DiffError("unexpected line in hunk body")
        else:
            raise DiffError("text before the first header")
        i += 1
    return files


def apply_unified_by_content(orig, hunks):
    """Diagnosis only: ignore the numbers of the hunk headers, locate each hunk by its old lines."""
    ol = split_lines(orig)
    out = []
    pos = 0
    for h in hunks:
        old = [t for tag, t in h["lines"] if tag in " -"]
        at = None
        for st in range(pos, len(ol) - len(old) + 1):
            if ol[st:st + len(old)] == old:
                at = st
                break
        if at is None:
            raise DiffError("old lines of a hunk not found")
        out.extend(ol[pos:at])
        out.extend(t for tag, t in h["lines"] if tag in " +")
        pos = at + len(old)
    out.extend(ol[pos:])
    return b"".join(out)


def unified_body_is_right(data, files):
    """True iff, ignoring all hunk-header numbers, the printed diffs reconstruct every differing file."""
    try:
        fds = parse_unified_tolerant(data)
    except DiffError:
        return False
    left = [n for n, (o, f) in sorted(files.items()) if o != f]
    if len(fds) != len(left):
        return False
    for fd in fds:
        hit = None
        for n in left:
            try:
                if apply_unified_by_content(files[n][0], fd["hunks"]) == files[n][1]:
                    hit = n
                    break
            except DiffError:
                pass
        if hit is None:
            return False
        left.remove(hit)
    return True


# ------------------------------------------------------------------------------------------------
# JSON mismatches: applier (own implementation)
# ------------------------------------------------------------------------------------------------

JSON_KEYS = ("original_start_line", "original_end_line", "expected_start_line", "expected_end_line", "original", "expected")


def parse_json_objects(data):
    """stdout of `--check --output-format json`: one object per line -> list of dicts."""
    objs = []
    for ln in data.decode("utf-8").split("\n"):
        if not ln.strip():
            continue
        o = json.loads(ln)
        if not isinstance(o, dict) or "file" not in o or not isinstance(o.get("mismatches"), list):
            raise DiffError(f"json object without file/mismatches: {ln[:80]}")
        for m in o["mismatches"]:
            for k in JSON_KEYS:
                if k not in m:
                    raise DiffError(f"mismatch without key {k}")
        objs.append(o)
    return objs


def apply_json(orig, mismatches):
    """Replace the 0-based inclusive original line range of every mismatch by `expected`; a mismatch whose
    `original` is empty is a pure insertion before line `original_start_line`."""
    ol = split_lines(orig)
    out = []
    pos = 0
    for m in mismatches:
        s, e = m["original_start_line"], m["original_end_line"]
        if m["original"] == "":
            start, end = s, s
        else:
            start, end = s, e + 1
        if start < pos or end > len(ol) or end < start:
            raise DiffError(f"mismatch range {s}..{e} out of order / out of range (file has {len(ol)} lines)")
        out.extend(ol[pos:start])
        out.append(m["expected"].encode("utf-8"))
        pos = end
    out.extend(ol[pos:])
    return b"".join(out)


def json_shape(mismatches, orig):
    """Observations about the mismatch list used for classification (not verdicts)."""
    ol = split_lines(orig)
    obs = {"multi_line_insert": False, "multi_line_delete": False, "original_text_truncated": False, "kinds": set(),
           "inconsistent_indexes": False}
    delta = 0
    for m in mismatches:
        # in a consistent list the new position of a mismatch = its old position + (lines added - lines removed) so far
        if m["expected_start_line"] != m["original_start_line"] + delta:
            obs["inconsistent_indexes"] = True
        n_old = 0 if m["original"] == "" else m["original_end_line"] - m["original_start_line"] + 1
        n_new = 0 if m["expected"] == "" else m["expected_end_line"] - m["expected_start_line"] + 1
        delta += n_new - n_old
        if m["original"] == "":
            obs["kinds"].add("insert")
            if m["expected_end_line"] > m["expected_start_line"]:
                obs["multi_line_insert"] = True
        elif m["expected"] == "":
            obs["kinds"].add("delete")
            if m["original_end_line"] > m["original_start_line"]:
                obs["multi_line_delete"] = True
        else:
            obs["kinds"].add("replace")
        if m["original"] != "":
            s, e = m["original_start_line"], m["original_end_line"]
            if 0 <= s <= e < len(ol) and b"".join(ol[s:e + 1]) != m["original"].encode("utf-8"):
                obs["original_text_truncated"] = True
    return obs


# ------------------------------------------------------------------------------------------------
# summary / standard formats
# ------------------------------------------------------------------------------------------------

_ANSI = re.compile(r"\x1b\[[0-9;]*m")


def parse_summary(data):
    """-> (files listed, footer count or 0, problems)"""
    lines = _ANSI.sub("", data.decode("utf-8", "replace")).split("\n")
    if lines and lines[-1] == "":
        lines.pop()
    problems = []
    if not lines or "Checking formatting" not in lines[0]:
        problems.append("missing header line")
        body = lines
    else:
        body = lines[1:]
    footer = None
    if body and ("Code style issues found" in body[-1] or "All files are correctly formatted" in body[-1]):
        footer = body.pop()
    else:
        problems.append("missing footer line")
    count = 0
    if footer and "Code style issues found" in footer:
        m = re.search(r"found in (\d+) file", footer)
        count = int(m.group(1)) if m else -1
    return body, count, problems


_DIFF_IN = re.compile(r"^Diff in (.*):$")


def parse_standard(data):
    """-> list of file names that got a `Diff in <file>:` title."""
    names = []
    for ln in _ANSI.sub("", data.decode("utf-8", "replace")).split("\n"):
        m = _DIFF_IN.match(ln)
        if m:
            names.append(m.group(1))
    return names


# ------------------------------------------------------------------------------------------------
# line-level edit operators (bytes -> bytes); none of them needs to keep the program valid: the
# monitors ask the library reference what the edited text formats to and skip cases it rejects
# ------------------------------------------------------------------------------------------------

def ed_strip_final_newline(b):
    if b.endswith(b"\r\n"):
        return b[:-2]
    if b.endswith(b"\n"):
        return b[:-1]
    return b


def ed_crlf(b):
    return b.replace(b"\r\n", b"\n").replace(b"\n", b"\r\n")


def _is_code_line(ln):
    s = ln.strip()
    return bool(s) and not s.startswith(b"--") and b"[[" not in ln and b"]]" not in ln and b"[=" not in ln


def ed_space_line(b, idx):
    """trailing blanks on line idx (negative = from the end)."""
    ls = split_lines(b)
    if not ls:
        return b
    i = idx if idx >= 0 else len(ls) + idx
    if not 0 <= i < len(ls):
        return b
    ln = ls[i]
    body = ln.rstrip(b"\r\n")
    ls[i] = body + b"   " + ln[len(body):]
    return b"".join(ls)


def ed_indent_line(b, idx):
    """extra leading blanks on line idx."""
    ls = split_lines(b)
    i = idx if idx >= 0 else len(ls) + idx
    if not 0 <= i < len(ls) or not ls[i].strip():
        return b
    ls[i] = b"  " + ls[i]
    return b"".join(ls)


def ed_many(b, step, offset=0):
    """trailing blanks on every step-th code line: many separated single-line hunks."""
    ls = split_lines(b)
    for i in range(offset, len(ls), step):
        if _is_code_line(ls[i]):
            body = ls[i].rstrip(b"\r\n")
            ls[i] = body + b"  " + ls[i][len(body):]
    return b"".join(ls)


def ed_insert_blank(b, at, n, nl=b"\n"):
    """n blank lines before line `at`."""
    ls = split_lines(b)
    at = max(0, min(len(ls), at))
    if at == len(ls) and ls and not ls[-1].endswith((b"\n", b"\r")):
        ls[-1] += nl
    return b"".join(ls[:at] + [nl] * n + ls[at:])


def ed_delete_blank(b):
    """remove every blank line."""
    return b"".join(ln for ln in split_lines(b) if ln.strip())


def blank_positions(b):
    return [i for i, ln in enumerate(split_lines(b)) if not ln.strip()]


# ------------------------------------------------------------------------------------------------
# judging a `--check` stdout against (original, formatted) for one or several files
# ------------------------------------------------------------------------------------------------

def judge_check_output(fmt, out, files, counters=None):
    """files: {name: (orig bytes, formatted bytes)}; `out` = stdout of one `--check --output-format fmt` run
    over exactly these files. Returns a list of (oracle, signature, detail)."""
    c = counters if counters is not None else {}

    def bump(k, n=1):
        c[k] = c.get(k, 0) + n

    probs = []
    differing = sorted(n for n, (o, f) in files.items() if o != f)
    if fmt == "unified":
        try:
            fds = parse_unified(out)
        except DiffError as e:
            if unified_body_is_right(out, files):
                return [("unified-parse", "C18:unified:hunk-header-wrong-body-right",
                         f"the printed unified diff is malformed ({e}); ignoring the numbers in the hunk headers its body does reconstruct the formatted text")]
            return [("unified-parse", "C18:unified:unparsable", f"cannot parse the printed unified diff: {e}")]
        if len(fds) != len(differing):
            tag = "diff-for-formatted-file" if len(fds) > len(differing) else "no-diff-for-unformatted-file"
            probs.append(("diff-presence", f"C18:unified:{tag}",
                          f"{len(fds)} unified diffs printed, {len(differing)} files differ from their formatted text ({differing[:5]})"))
        # attribute every printed diff to a file: it must apply to, and reconstruct, exactly one unmatched file
        left = list(differing)
        for fd in fds:
            hit = None
            errs = []
            for n in left:
                try:
                    if apply_unified(files[n][0], fd["hunks"]) == files[n][1]:
                        hit = n
                        break
                    errs.append(f"{n}: applies but result differs from the formatted text")
                except DiffError as e:
                    errs.append(f"{n}: {e}")
            bump("unified.hunks", len(fd["hunks"]))
            if hit is not None:
                left.remove(hit)
                bump("unified.reconstructed")
                o = files[hit][0]
                if o and not o.endswith((b"\n", b"\r")):
                    bump("unified.reconstructed.no_final_newline")
                if b"\r\n" in o:
                    bump("unified.reconstructed.crlf")
                if len(fd["hunks"]) >= 3:
                    bump("unified.reconstructed.ge3_hunks")
            else:
                probs.append(("unified-apply", "C18:unified:reconstruction",
                              "a printed unified diff reconstructs none of the files that differ: " + "; ".join(errs)[:600]))
        if any(p[1] == "C18:unified:reconstruction" for p in probs) and unified_body_is_right(out, files):
            probs = [("unified-apply", "C18:unified:hunk-header-wrong-body-right",
                      "hunk header numbers are wrong (ignoring them the body reconstructs the formatted text): " + "; ".join(p[2] for p in probs)[:600])]
        return probs
    if fmt == "json":
        try:
            objs = parse_json_objects(out)
        except (DiffError, ValueError, UnicodeDecodeError) as e:
            return [("json-parse", "C18:json:unparsable", f"cannot parse the printed JSON: {e}")]
        names = [o["file"] for o in objs]
        if sorted(names) != differing:
            extra = sorted(set(names) - set(differing))
            missing = sorted(set(differing) - set(names))
            tag = "diff-for-formatted-file" if extra else ("no-diff-for-unformatted-file" if missing else "file-listed-twice")
            probs.append(("diff-presence", f"C18:json:{tag}", f"json objects for {names[:6]}, files that differ: {differing[:6]}"))
        for o in objs:
            n = o["file"]
            if n not in files:
                continue
            orig, want = files[n]
            shape = json_shape(o["mismatches"], orig)
            for k in shape["kinds"]:
                bump("json.mismatch." + k)
            if shape["multi_line_delete"]:
                bump("json.multi_line_delete")
            if shape["original_text_truncated"]:
                bump("json.observation.original_text_shorter_than_range")
            if not o["mismatches"] and orig != want:
                probs.append(("json-apply", "C18:json:empty-mismatch-list", f"{n}: no mismatches although the file differs"))
                continue
            try:
                got = apply_json(orig, o["mismatches"])
                err = None
            except DiffError as e:
                got, err = None, str(e)
            if got == want:
                bump("json.reconstructed")
                if shape["multi_line_insert"]:
                    bump("json.reconstructed.multi_line_insert")
                continue
            if shape["inconsistent_indexes"]:
                sig_ = "C18:json:inconsistent-line-indexes"
            elif shape["multi_line_insert"]:
                sig_ = "C18:json:multi-line-insert"
            else:
                sig_ = "C18:json:reconstruction"
            d = err or _first_diff(got, want)
            probs.append(("json-apply", sig_, f"{n}: replacing the original line ranges by `expected` does not give the formatted text: {d}"))
        return probs
    if fmt == "summary":
        listed, count, pr = parse_summary(out)
        for p in pr:
            probs.append(("summary-shape", "C18:summary:shape", p))
        if sorted(listed) != differing:
            extra = sorted(set(listed) - set(differing))
            missing = sorted(set(differing) - set(listed))
            tag = "lists-formatted-file" if extra else ("omits-unformatted-file" if missing else "file-listed-twice")
            probs.append(("summary-set", f"C18:summary:{tag}", f"summary lists {listed[:8]}, files that differ: {differing[:8]}"))
        if count != len(differing) and not pr:
            probs.append(("summary-count", "C18:summary:count", f"footer counts {count} files, {len(differing)} differ"))
        bump("summary.judged")
        return probs
    if fmt == "standard":
        names = parse_standard(out)
        if sorted(names) != differing:
            extra = sorted(set(names) - set(differing))
            missing = sorted(set(differing) - set(names))
            tag = "diff-for-formatted-file" if extra else ("no-diff-for-unformatted-file" if missing else "file-listed-twice")
            probs.append(("diff-presence", f"C18:standard:{tag}", f"'Diff in' titles for {names[:8]}, files that differ: {differing[:8]}"))
        if not differing and out.strip():
            probs.append(("diff-presence", "C18:standard:output-for-formatted-file", f"stdout not empty: {out[:120]!r}"))
        bump("standard.judged")
        return probs
    raise ValueError(fmt)


def _first_diff(got, want):
    if got is None:
        return "no result"
    a, b = split_lines(got), split_lines(want)
    for i in range(max(len(a), len(b))):
        x = a[i] if i < len(a) else b"<eof>"
        y = b[i] if i < len(b) else b"<eof>"
        if x != y:
            return f"first difference at line {i + 1}: got {x[:60]!r}, formatted text has {y[:60]!r} (got {len(a)} lines, want {len(b)})"
    return "equal?"


FLAG_OF = {
    "syntax": "--syntax", "column_width": "--column-width", "line_endings": "--line-endings", "indent_type": "--indent-type",
    "indent_width": "--indent-width", "quote_style": "--quote-style", "call_parentheses": "--call-parentheses",
    "collapse_simple_statement": "--collapse-simple-statement", "space_after_function_names": "--space-after-function-names",
}


def flags_for(overrides):
    """CLI flags for a dict of Config overrides (keys of clilib.DEFAULT_CFG)."""
    a = []
    for k in sorted(overrides):
        v = overrides[k]
        if k == "sort_requires":
            if v:
                a.append("--sort-requires")
        else:
            a += [FLAG_OF[k], str(v)]
    return a
