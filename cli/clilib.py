"""Shared infrastructure of the CLI monitors (C13-C20): scratch trees outside any git repository,
running the hooked `stylua` binary (optionally under strace, optionally with fault injection),
file-system snapshots, the strace event-log parser and the library reference (`sv libfmt`).

Everything here observes the real binary from outside; nothing re-implements formatting.
"""
import json
import os
import re
import shutil
import subprocess
import tempfile

import svlib

STYLUA = svlib.CLI_BIN
DEFAULT_CFG = {
    "syntax": "All", "column_width": 120, "line_endings": "Unix", "indent_type": "Tabs", "indent_width": 4,
    "quote_style": "AutoPreferDouble", "call_parentheses": "Always", "collapse_simple_statement": "Never",
    "sort_requires": False, "space_after_function_names": "Never",
}


def cfg(**kw):
    c = dict(DEFAULT_CFG)
    c.update(kw)
    return c


# ------------------------------------------------------------------------------------------------
# scratch trees
# ------------------------------------------------------------------------------------------------

class Scratch:
    """A fresh directory under /dev/shm (fallback /tmp), outside any git repository: the `ignore`
    walker honours .gitignore files of enclosing repositories, so trees under /verif would be
    silently skipped. HOME and XDG_CONFIG_HOME point into the scratch area."""

    def __init__(self, prefix="sv-"):
        base = "/dev/shm" if os.path.isdir("/dev/shm") and os.access("/dev/shm", os.W_OK) else tempfile.gettempdir()
        self.base = tempfile.mkdtemp(prefix=prefix, dir=base)
        self.root = os.path.join(self.base, "tree")
        self.home = os.path.join(self.base, "home")
        self.xdg = os.path.join(self.base, "xdg")
        for d in (self.root, self.home, self.xdg):
            os.makedirs(d)
        # no stray configuration may exist in any real ancestor
        d = os.path.dirname(self.base)
        while True:
            for n in ("stylua.toml", ".stylua.toml", ".editorconfig", ".styluaignore", ".gitignore", ".ignore", ".git"):
                if os.path.exists(os.path.join(d, n)):
                    raise svlib.HarnessError(f"scratch ancestor {d} contains {n}; CLI checks would be confounded")
            nd = os.path.dirname(d)
            if nd == d:
                break
            d = nd

    def env(self, extra=None):
        e = {
            "PATH": os.environ.get("PATH", "/usr/bin:/bin"),
            "HOME": self.home,
            "XDG_CONFIG_HOME": self.xdg,
            "NO_COLOR": "1",
            "LANG": "C.UTF-8",
        }
        if extra:
            e.update(extra)
        return e

    def write(self, rel, data, base=None):
        p = os.path.join(base or self.root, rel)
        os.makedirs(os.path.dirname(p), exist_ok=True)
        if isinstance(data, str):
            data = data.encode("utf-8")
        with open(p, "wb") as f:
            f.write(data)
        return p

    def close(self):
        shutil.rmtree(self.base, ignore_errors=True)

    def __enter__(self):
        return self

    def __exit__(self, *a):
        self.close()


def snapshot(root):
    """path (relative) -> (kind, bytes or link target, mtime_ns, inode, mode) for everything below root."""
    out = {}
    for dp, dns, fns in os.walk(root):
        for n in dns + fns:
            p = os.path.join(dp, n)
            rel = os.path.relpath(p, root)
            st = os.lstat(p)
            if os.path.islink(p):
                out[rel] = ("link", os.readlink(p), st.st_mtime_ns, st.st_ino, st.st_mode)
            elif os.path.isdir(p):
                out[rel] = ("dir", None, st.st_mtime_ns, st.st_ino, st.st_mode)
            else:
                with open(p, "rb") as f:
                    out[rel] = ("file", f.read(), st.st_mtime_ns, st.st_ino, st.st_mode)
    return out


def snapshot_diff(a, b, ignore_dir_mtime=True):
    """list of (rel, what) differences between two snapshots."""
    d = []
    for k in sorted(set(a) | set(b)):
        if k not in a:
            d.append((k, "created"))
        elif k not in b:
            d.append((k, "deleted"))
        else:
            x, y = a[k], b[k]
            if x[0] != y[0]:
                d.append((k, "kind"))
            elif x[1] != y[1]:
                d.append((k, "content"))
            elif x[3] != y[3]:
                d.append((k, "inode"))
            elif x[4] != y[4]:
                d.append((k, "mode"))
            elif x[2] != y[2] and not (ignore_dir_mtime and x[0] == "dir"):
                d.append((k, "mtime"))
    return d


# ------------------------------------------------------------------------------------------------
# running the binary
# ------------------------------------------------------------------------------------------------

class Run:
    def __init__(self, rc, out, err, events, argv, timed_out=False):
        self.rc = rc
        self.out = out
        self.err = err
        self.events = events  # parsed strace events or None
        self.argv = argv
        self.timed_out = timed_out


TRACE_SET = ("openat,open,creat,rename,renameat,renameat2,unlink,unlinkat,mkdir,mkdirat,rmdir,utimensat,"
             "fchmod,fchmodat,chmod,ftruncate,truncate,link,linkat,symlink,symlinkat,chdir")

_STRACE_OK = None


def strace_available():
    global _STRACE_OK
    if _STRACE_OK is None:
        try:
            p = subprocess.run(["strace", "-qq", "-o", "/dev/null", "-e", "trace=openat", "true"], capture_output=True, timeout=20)
            _STRACE_OK = p.returncode == 0
        except Exception:
            _STRACE_OK = False
    return _STRACE_OK


def run_cli(args, cwd, env, stdin=None, strace=False, inject=None, timeout=120, binary=None):
    """Run the hooked CLI. `inject`: list of strace -e inject= expressions together with -P paths,
    e.g. [("a.lua", "openat:error=EACCES:when=1")] (path relative to cwd)."""
    binary = binary or STYLUA
    argv = [binary] + list(args)
    log = None
    cmd = argv
    if strace or inject:
        # the log lives outside every watched tree (a file created next to cwd would touch a directory
        # the snapshot oracle watches when cwd is a sub-directory of the scratch tree)
        logdir = "/dev/shm" if os.path.isdir("/dev/shm") and os.access("/dev/shm", os.W_OK) else None
        fd, log = tempfile.mkstemp(prefix="sv-strace-", dir=logdir)
        os.close(fd)
        cmd = ["strace", "-f", "-qq", "-s", "4096", "-o", log]
        if inject:
            for path, expr in inject:
                cmd += ["-P", path, "-e", "inject=" + expr]
            cmd += ["-e", "trace=openat"]
        else:
            cmd += ["-e", "trace=" + TRACE_SET]
        cmd += ["--"] + argv
    if isinstance(stdin, str):
        stdin = stdin.encode("utf-8")
    timed_out = False
    try:
        p = subprocess.run(cmd, cwd=cwd, env=env, input=stdin if stdin is not None else b"", capture_output=True, timeout=timeout)
        rc, out, err = p.returncode, p.stdout, p.stderr
    except subprocess.TimeoutExpired as e:
        rc, out, err, timed_out = None, e.stdout or b"", e.stderr or b"", True
    events = None
    if log:
        try:
            events = parse_strace(open(log, errors="replace").read(), cwd)
        finally:
            try:
                os.unlink(log)
            except OSError:
                pass
    return Run(rc, out, err, events, argv, timed_out)


_LINE = re.compile(r"^(\d+)\s+(\w+)\((.*)\)\s+=\s+(-?\d+|\?)(.*)$")
_STR = re.compile(r'"((?:[^"\\]|\\.)*)"')


def _unescape(s):
    return bytes(s, "latin-1").decode("unicode_escape").encode("latin-1").decode("utf-8", "replace")


def parse_strace(text, cwd):
    """Returns a list of dicts {pid, call, paths:[abs...], flags, ret, write_intent} in log order.
    Unfinished/resumed pairs are joined."""
    pending = {}
    events = []
    for raw in text.splitlines():
        m = re.match(r"^(\d+)\s+(.*)$", raw)
        if not m:
            continue
        pid, rest = m.group(1), m.group(2)
        if rest.endswith("<unfinished ...>"):
            pending[pid] = rest[: -len("<unfinished ...>")].rstrip()
            continue
        r = re.match(r"^<\.\.\. (\w+) resumed>(.*)$", rest)
        if r:
            rest = pending.pop(pid, r.group(1) + "(") + r.group(2).lstrip()
        m2 = _LINE.match(pid + " " + rest)
        if not m2:
            continue
        call, argstr, ret = m2.group(2), m2.group(3), m2.group(4)
        paths = []
        for s in _STR.findall(argstr):
            try:
                pth = _unescape(s)
            except Exception:
                pth = s
            paths.append(os.path.normpath(os.path.join(cwd, pth)))
        flags = ""
        fm = re.search(r"\b(O_[A-Z_|]+)", argstr)
        if fm:
            flags = fm.group(1)
        write_intent = call not in ("openat", "open", "chdir") or any(f in flags for f in ("O_WRONLY", "O_RDWR", "O_CREAT", "O_TRUNC", "O_APPEND"))
        events.append({"pid": pid, "call": call, "paths": paths, "flags": flags,
                       "ret": None if ret == "?" else int(ret), "write_intent": write_intent,
                       "injected": "(INJECTED)" in m2.group(5)})
    return events


def events_in_tree(events, root):
    root = os.path.normpath(root)
    out = []
    for e in events or []:
        ps = [p for p in e["paths"] if p == root or p.startswith(root + os.sep)]
        if ps:
            e2 = dict(e)
            e2["paths"] = ps
            out.append(e2)
    return out


# ------------------------------------------------------------------------------------------------
# library reference
# ------------------------------------------------------------------------------------------------

class LibFmt:
    """Persistent `sv libfmt` process: the library's own answer for (text, Config, range, verify)."""

    def __init__(self):
        self.p = subprocess.Popen([svlib.SV, "libfmt"], stdin=subprocess.PIPE, stdout=subprocess.PIPE,
                                  env=dict(os.environ, SV_REPO=svlib.REPO))
        self.cache = {}

    def format(self, src, cfg_, range_=None, verify=False, panic_marker=None):
        """-> ("ok", text) | ("parse_error", msg) | ("verify_error", msg) | ("panic", msg)"""
        if isinstance(src, bytes):
            try:
                src = src.decode("utf-8")
            except UnicodeDecodeError:
                return ("unreadable", "invalid utf-8")
        if panic_marker and panic_marker in src:
            return ("panic", "injected")
        key = (src, json.dumps(cfg_, sort_keys=True), json.dumps(range_), verify)
        if key in self.cache:
            return self.cache[key]
        req = {"src": src, "cfg": cfg_, "range": range_, "verify": verify}
        self.p.stdin.write((json.dumps(req) + "\n").encode("utf-8"))
        self.p.stdin.flush()
        line = self.p.stdout.readline()
        if not line:
            raise svlib.HarnessError("sv libfmt died")
        r = json.loads(line)
        for k in ("ok", "parse_error", "verify_error", "panic"):
            if k in r:
                res = (k, r[k])
                break
        else:
            raise svlib.HarnessError(f"sv libfmt: {r}")
        if len(self.cache) < 20000:
            self.cache[key] = res
        return res

    def close(self):
        try:
            self.p.stdin.close()
            self.p.wait(timeout=5)
        except Exception:
            self.p.kill()


# ------------------------------------------------------------------------------------------------
# small PRNG (SplitMix64) so that every CLI workload is reproducible from VERIF_SEED
# ------------------------------------------------------------------------------------------------

class Rng:
    def __init__(self, seed):
        self.s = (seed * 0x9E3779B97F4A7C15 + 0x1234567) & 0xFFFFFFFFFFFFFFFF

    def next(self):
        self.s = (self.s + 0x9E3779B97F4A7C15) & 0xFFFFFFFFFFFFFFFF
        z = self.s
        z = ((z ^ (z >> 30)) * 0xBF58476D1CE4E5B9) & 0xFFFFFFFFFFFFFFFF
        z = ((z ^ (z >> 27)) * 0x94D049BB133111EB) & 0xFFFFFFFFFFFFFFFF
        return z ^ (z >> 31)

    def below(self, n):
        return self.next() % n if n > 0 else 0

    def chance(self, num, den):
        return self.below(den) < num

    def pick(self, xs):
        return xs[self.below(len(xs))]

    def shuffle(self, xs):
        xs = list(xs)
        for i in range(len(xs) - 1, 0, -1):
            j = self.below(i + 1)
            xs[i], xs[j] = xs[j], xs[i]
        return xs

    def sample(self, xs, k):
        return self.shuffle(xs)[:k]


# A few unformatted / formatted / broken Lua snippets with unique identifiers
def lua_unformatted(k):
    return f"local   v{k}  =  {{ a=1,b  = 2 }}\nif v{k}   then\n        print( 'x{k}' )\nend\n"


def lua_formatted_for(libfmt, text, cfg_):
    r = libfmt.format(text, cfg_)
    assert r[0] == "ok", r
    return r[1]


def lua_unparseable(k):
    return f"local v{k} = = 1\nfunction (\n"


def lua_invalid_utf8(k):
    return f"local v{k} = 1 -- ".encode() + b"\xff\xfe\n"
