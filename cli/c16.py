"""C16 -- exactly the selected files are processed, each once.

Runtime monitor: the real `stylua` binary is run (write mode, or --check) over generated trees in
which every Lua-ish file is unformatted and unique, so "was processed" is observable both as "bytes
became the library's output" and -- under strace -- as "was opened for reading", per canonical path.
The observed set is compared with a model that encodes ONLY the documented selection rules (README
"Usage", "Glob Filtering", "Filtering using .styluaignore", option help).  Where the documentation is
silent the model is evaluated under every reading (toggles below); a file whose verdict depends on a
toggle is generated and observed but not judged.
"""
import posixpath

import clilib
import cfgmodel as M

PROP = "C16"

META = {
    "level": "exploration",
    "rule": ("Pinned (identical for every seed): a fixed tree (nested .styluaignore files with name / *.ext / dir/ / "
             "/anchored / !negated patterns, hidden files and directories, .luau / .txt / .md / .json files) x 27 argument "
             "lists (files, directories, `.`, trailing slash, absolute, repeated, overlapping with equal spelling) x "
             "{--respect-ignores} x {--allow-hidden} x 7 glob lists (none, positive, negated after / before, only negated, "
             "**/ forms), a --check leg, and pinned sub-families for the known defect classes (overlapping arguments "
             "with different spellings; explicit file + --respect-ignores with a .styluaignore in its own directory; "
             "symlinks, observed only). Seeded: random trees (<= 25 files, depth <= 4) with random .styluaignore files drawn "
             "from the implemented pattern subset, random argument lists in one spelling style, random flag / glob "
             "combinations. A case is distinct by files + argv; it is non-trivial when at least one judged file was selected "
             "and processed and at least one judged file was filtered out and left untouched. Also pinned: -g patterns with a directory part (anchored at the working directory) x relative / absolute / mixed argument spellings."),
    "assumptions": [
        "model encodes only documented rules; undocumented combinations (ignore files in ancestors of a walked root, an "
        "explicitly named directory that is itself ignored or hidden, hidden explicit file with --respect-ignores, ignore "
        "files between cwd and an explicit file's directory, order sensitivity of negated globs, negated-only glob lists, "
        "a negated ignore pattern naming a hidden entry, re-inclusion below an ignored directory, symlinks) are evaluated "
        "under both readings and a file is judged only when every reading agrees",
        ".styluaignore patterns are restricted to the gitignore subset the model implements exactly: name, *.ext, dir/, "
        "/anchored, !negated, **/name; -g patterns to basename forms (*.ext, name*.ext, **/*.ext)",
        "'processed' = opened for reading (strace, canonical path) and/or bytes changed; the walker itself only opens "
        "directories and ignore files",
        "no .gitignore / .ignore files are created; the scratch area is outside any git repository",
    ],
}

CWD = "w"
ABS = M.ROOT_TOKEN + "/" + CWD

TOGGLES = ["parents", "rootdir", "explicit_hidden", "explicit_between", "neg_last", "neg_only_all", "wl_hidden", "explicit_bottomup"]
DOC = {t: False for t in TOGGLES}
# what the unchanged tree was seen to do on the undocumented points (only used to make sure this reading is among those compared)
SEEN = dict(DOC, parents=True, neg_last=True, neg_only_all=True, wl_hidden=True, explicit_bottomup=True)


def worlds():
    ws = [dict(DOC), dict(SEEN), {t: True for t in TOGGLES}]
    for base in (DOC, SEEN):
        for t in TOGGLES:
            w = dict(base)
            w[t] = not w[t]
            ws.append(w)
    uniq = []
    for w in ws:
        if w not in uniq:
            uniq.append(w)
    return uniq


WORLDS = worlds()


# ------------------------------------------------------------------------------------------------
# the selection model
# ------------------------------------------------------------------------------------------------

class Tree:
    def __init__(self, case):
        self.files = M.tree_files(case)
        self.links = case.get("links") or {}
        self.cwd = case["cwd"]
        self.dirs = M.dirs_of(self.files, self.links)
        self.ignores = {}
        for p, text in self.files.items():
            if posixpath.basename(p) == ".styluaignore":
                self.ignores[posixpath.dirname(p)] = M.parse_ignore(text)

    def ignore_verdict(self, d, path, isdir):
        pats = self.ignores.get(d)
        if not pats or not M.is_under(path, d) or path == d:
            return None
        return M.ignore_file_verdict(pats, M.rel_to(path, d), isdir)


def hidden(name):
    return name.startswith(".")


def glob_pass(args, tog, path_rel_cwd):
    if args.globs is None:
        return path_rel_cwd.endswith(".lua") or path_rel_cwd.endswith(".luau")
    pos = [g for g in args.globs if not g.startswith("!")]
    if not pos:
        base = True if tog["neg_only_all"] else (path_rel_cwd.endswith(".lua") or path_rel_cwd.endswith(".luau"))
        return base and not any(M.basename_glob_match(g[1:], path_rel_cwd) for g in args.globs)
    if tog["neg_last"]:
        v = False
        for g in args.globs:
            if g.startswith("!"):
                if M.basename_glob_match(g[1:], path_rel_cwd):
                    v = False
            elif M.basename_glob_match(g, path_rel_cwd):
                v = True
        return v
    return any(M.basename_glob_match(g, path_rel_cwd) for g in pos) and \
        not any(M.basename_glob_match(g[1:], path_rel_cwd) for g in args.globs if g.startswith("!"))


def entry_skipped(tree, args, tog, path, isdir, chain):
    """One walked entry: -> None (kept) | 'ignored' | 'hidden'"""
    v = None
    for d in chain:
        v = tree.ignore_verdict(d, path, isdir)
        if v is not None:
            break
    if v == "ig":
        return "ignored"
    if hidden(posixpath.basename(path)) and not args.allow_hidden:
        if v == "wl" and tog["wl_hidden"]:
            return None
        return "hidden"
    return None


def walk_chain(tree, tog, path, root):
    """ignore-file directories that govern a walked entry, nearest first"""
    chain = []
    d = posixpath.dirname(path)
    while True:
        chain.append(d)
        if d == root or d == "":
            break
        d = posixpath.dirname(d)
    if tog["parents"]:
        d = root
        while d != "":
            d = posixpath.dirname(d)
            chain.append(d)
    chain.append(tree.cwd)
    return chain


def walk_verdict(tree, args, tog, f, root):
    """file f below the walked directory `root` -> (selected, why)"""
    if tog["rootdir"]:
        # is the named directory itself (or one of its ancestors below cwd) excluded?
        e = root
        comps = []
        while e != tree.cwd and e != "" and M.is_under(e, tree.cwd):
            comps.append(e)
            e = posixpath.dirname(e)
        for e in reversed(comps):
            chain = []
            d = posixpath.dirname(e)
            if tog["parents"]:
                while True:
                    chain.append(d)
                    if d == "":
                        break
                    d = posixpath.dirname(d)
            chain.append(tree.cwd)
            s = entry_skipped(tree, args, tog, e, True, chain)
            if s:
                return False, "root-" + s
    rel = M.rel_to(f, root)
    parts = rel.split("/")
    cur = root
    for i, name in enumerate(parts):
        cur = (cur + "/" if cur else "") + name
        isdir = i < len(parts) - 1
        s = entry_skipped(tree, args, tog, cur, isdir, walk_chain(tree, tog, cur, root))
        if s:
            return False, ("pruned-" + s + "-dir") if isdir else (s + "-file")
    if not glob_pass(args, tog, M.rel_to(f, tree.cwd) if M.is_under(f, tree.cwd) else f):
        return False, "glob"
    return True, "walked"


def explicit_ignored(tree, tog, f, only_dirs=None):
    own = posixpath.dirname(f)
    ds = [own]
    if tog["explicit_between"]:
        d = own
        while d != tree.cwd and d != "" and M.is_under(d, tree.cwd):
            d = posixpath.dirname(d)
            ds.append(d)
    ds.append(tree.cwd)
    seen = []
    for d in ds:
        if d in seen or (only_dirs is not None and d not in only_dirs):
            continue
        seen.append(d)
        if d not in tree.ignores or not M.is_under(f, d):
            continue
        rel = M.rel_to(f, d).split("/")
        paths = [((d + "/" if d else "") + "/".join(rel[:i + 1]), i < len(rel) - 1) for i in range(len(rel))]
        if tog["explicit_bottomup"]:
            for p, isdir in reversed(paths):
                v = tree.ignore_verdict(d, p, isdir)
                if v is not None:
                    return v == "ig"
        else:
            decided = None
            for p, isdir in paths:
                v = tree.ignore_verdict(d, p, isdir)
                if isdir and v == "ig":
                    return True
                if not isdir and v is not None:
                    decided = v == "ig"
            if decided is not None:
                return decided
    return False


def explicit_verdict(tree, args, tog, f):
    if not args.respect_ignores:
        return True, "explicit"
    rel = M.rel_to(f, tree.cwd) if M.is_under(f, tree.cwd) else f
    if not glob_pass(args, tog, rel):
        return False, "explicit-glob"
    if explicit_ignored(tree, tog, f):
        return False, "explicit-ignored"
    if tog["explicit_hidden"] and not args.allow_hidden and any(hidden(x) for x in rel.split("/")):
        return False, "explicit-hidden"
    return True, "explicit-respecting"


def arg_style(t):
    if t.startswith(M.ROOT_TOKEN):
        return "abs"
    if t == ".":
        return "dot"
    if t.startswith("./"):
        return "dotslash"
    return "plain"


def reach(tree, args, f):
    """[(arg text, 'explicit'|'dir', physical path of the argument)] through which file f can be reached"""
    out = []
    for t in args.targets:
        p = M.norm_rel(tree.cwd, t)
        if p is None:
            continue
        if p == f:
            out.append((t, "explicit", p))
        elif p in tree.dirs and M.is_under(f, p) and p not in tree.files:
            out.append((t, "dir", p))
    return out


def model_file(tree, args, tog, f):
    best = (False, "not-reached")
    for t, kind, p in reach(tree, args, f):
        v = explicit_verdict(tree, args, tog, f) if kind == "explicit" else walk_verdict(tree, args, tog, f, p)
        if v[0]:
            return v
        if best[1] == "not-reached" or kind == "explicit":
            best = v
    return best


def spelled(t, kind, p, f):
    """path components under which the tool meets file f when it is reached through argument t"""
    comps = [c for c in t.split("/") if c != ""]
    if t.startswith("/") or t.startswith(M.ROOT_TOKEN):
        comps = ["/"] + comps
    comps = [c for i, c in enumerate(comps) if c != "." or i == 0]
    if kind == "dir":
        comps = comps + M.rel_to(f, p).split("/") if f != p else comps
    return tuple(comps)


# ------------------------------------------------------------------------------------------------
# triggers of the confirmed defect classes (used to classify findings and to keep the seeded family away)
# ------------------------------------------------------------------------------------------------

def trig_glob_outranks(tree, args, f):
    """-g given; f is met by a walk, excluded at FILE level by hidden / .styluaignore, and matches the globs"""
    if not args.globs or not any(not g.startswith("!") for g in args.globs):
        return None
    rel = M.rel_to(f, tree.cwd) if M.is_under(f, tree.cwd) else f
    if not (glob_pass(args, dict(DOC, neg_last=True), rel) or glob_pass(args, DOC, rel)):
        return None
    for t, kind, p in reach(tree, args, f):
        if kind != "dir":
            continue
        for tog in (DOC, SEEN):
            sel, why = walk_verdict(tree, args, tog, f, p)
            if not sel and why in ("hidden-file", "ignored-file"):
                return "hidden" if why == "hidden-file" else "styluaignore"
    return None


def trig_explicit_glob(tree, args, f):
    if not (args.respect_ignores and args.globs is not None):
        return False
    if not any(kind == "explicit" for _, kind, _ in reach(tree, args, f)):
        return False
    rel = M.rel_to(f, tree.cwd) if M.is_under(f, tree.cwd) else f
    return not all(glob_pass(args, w, rel) for w in WORLDS)


def trig_own_dir_shadow(tree, args, f):
    if not args.respect_ignores or not any(kind == "explicit" for _, kind, _ in reach(tree, args, f)):
        return False
    own = posixpath.dirname(f)
    if own == tree.cwd or own not in tree.ignores or tree.cwd not in tree.ignores:
        return False
    return any(explicit_ignored(tree, w, f, only_dirs=[tree.cwd]) for w in (DOC, SEEN))


def trig_twice(tree, args, f):
    sp = {}
    for t, kind, p in reach(tree, args, f):
        sp.setdefault(spelled(t, kind, p, f), (t, kind))
    if len(sp) < 2:
        return None
    names = []
    for t, kind in sp.values():
        st = arg_style(t)
        st = "dot" if st == "dotslash" else st  # `.` and `./x` are one spelling class
        if kind == "dir":
            names.append("dot" if st == "dot" else ("dir" if st == "plain" else "abs-dir"))
        else:
            names.append("explicit" if st == "plain" else st + "-explicit")
    return "+".join(sorted(set(names)))


# ------------------------------------------------------------------------------------------------
# judge
# ------------------------------------------------------------------------------------------------

def flags_code(args):
    g = "-"
    if args.globs is not None:
        pos = [x for x in args.globs if not x.startswith("!")]
        neg = [x for x in args.globs if x.startswith("!")]
        g = "g" + ("+" if pos else "") + ("!" if neg else "")
    return "".join(c for c, on in (("r", args.respect_ignores), ("a", args.allow_hidden), ("c", args.check)) if on) + ":" + g


def parse_diff_headers(out, cwd):
    names = []
    for line in out.splitlines():
        if line.startswith("Diff in ") and line.endswith(":"):
            p = line[len("Diff in "):-1]
            names.append(M.norm_rel(cwd, p))
    return names


def judge(case, o, acc):
    found = []
    if not M.check_harness(acc, case, o):
        return found
    try:
        args = M.parse_argv(case["argv"])
        tree = Tree(case)
        verdicts = {}
        for f in sorted(tree.files):
            vs = [model_file(tree, args, w, f) for w in WORLDS]
            verdicts[f] = vs
    except ValueError as e:
        acc.incon("model: " + str(e))
        return found
    acc.evaluations += 1
    fam = case.get("family", "?")
    fl = flags_code(args)
    acc.count("family." + fam)
    acc.count("flags." + fl)
    for t in args.targets:
        p = M.norm_rel(tree.cwd, t)
        acc.count("arg." + arg_style(t) + ("-dir" if p in tree.dirs and p not in tree.files else "-file"))
    if len(args.targets) > 1:
        acc.count("args.multiple")
        if len(set(args.targets)) < len(args.targets):
            acc.count("args.repeated")

    def report(oracle, sig, detail):
        found.append({"oracle": oracle, "signature": sig, "detail": detail})
        acc.finding(oracle, sig, detail, case)

    strace_ok = o.strace
    diffs = parse_diff_headers(o.out, tree.cwd) if args.check else []
    link_targets = set()
    for ln, target in tree.links.items():
        link_targets.add(posixpath.normpath(posixpath.join(posixpath.dirname(ln), target)))
    n_sel = n_unsel = 0
    any_unspecified = False
    expect_error = False
    expect_diff = False
    for f in sorted(tree.files):
        vs = verdicts[f]
        sel_doc, why = vs[0]
        unanimous = all(v[0] == sel_doc for v in vs)
        before = o.before.get(f)
        after = o.after.get(f)
        nreads = o.reads.get(f, 0)
        is_ignore_file = posixpath.basename(f) == ".styluaignore"
        changed = before != after
        ndiff = diffs.count(f)
        processed = changed or ndiff > 0 or (strace_ok and not is_ignore_file and nreads > 0)
        if f in link_targets or not M.is_under(f, tree.cwd):
            acc.count("unspecified.symlink-or-outside-cwd.observed-" + ("processed" if processed else "untouched"))
            any_unspecified = any_unspecified or processed
            continue
        if not unanimous:
            any_unspecified = True
            differing = [t for t in TOGGLES if model_file(tree, args, dict(DOC, **{t: True}), f)[0] != sel_doc] or ["combination"]
            for t in differing:
                acc.count(f"unspecified.{t}.observed-" + ("processed" if processed else "untouched"))
            continue
        acc.count("rule." + why)
        text = before.decode("utf-8", "replace") if before is not None else ""
        ref = M.ref_format(text, clilib.cfg())
        if sel_doc:
            n_sel += 1
            if ref[0] != "ok":
                expect_error = True
                want = before
            else:
                want = before if args.check else ref[1].encode("utf-8")
                if ref[1].encode("utf-8") != before:
                    expect_diff = True
            twice = trig_twice(tree, args, f)
            ok_once = True
            if strace_ok and nreads > 1:
                ok_once = False
                report("exactly-once", "C16:processed-twice:" + (twice or "same-spelling"),
                       f"{f} was opened for reading {nreads} times (arguments {args.targets}); {ndiff} diffs printed" if args.check else
                       f"{f} was opened for reading {nreads} times and for writing {o.writes.get(f, 0)} times (arguments {args.targets})")
            elif args.check and ndiff > 1:
                ok_once = False
                report("exactly-once", "C16:processed-twice:" + (twice or "same-spelling"), f"{ndiff} diffs printed for {f} (arguments {args.targets})")
            if not processed and ref[0] == "ok" and ref[1].encode("utf-8") != before:
                report("selection", f"C16:selected-skipped:{why}:{fl}",
                       f"{f} is selected by the documented rules ({why}) but was neither read nor changed; argv {case['argv']}")
            elif strace_ok and nreads == 0:
                report("selection", f"C16:selected-skipped:{why}:{fl}", f"{f} is selected ({why}) but was never opened; argv {case['argv']}")
            elif after != want and ok_once:
                report("content", f"C16:content:{why}:{fl}",
                       f"{f} was processed but its bytes are neither the library output under the default configuration nor "
                       f"(check mode / failing file) the original: {M.clip(repr(after), 200)}")
        else:
            n_unsel += 1
            if processed:
                g = trig_glob_outranks(tree, args, f)
                if trig_explicit_glob(tree, args, f) and why == "explicit-glob":
                    sig = "C16:explicit+custom-glob+respect-ignores"
                elif why == "explicit-ignored" and trig_own_dir_shadow(tree, args, f):
                    sig = "C16:explicit+respect-ignores:own-dir-styluaignore-shadows-cwd"
                elif g and why in ("hidden-file", "ignored-file"):
                    sig = "C16:glob-outranks-" + g
                else:
                    sig = f"C16:unselected-processed:{why}:{fl}"
                report("selection", sig,
                       f"{f} is not selected by the documented rules ({why}) but was processed (read-opens {nreads}, bytes changed: "
                       f"{changed}, diffs: {ndiff}); argv {case['argv']} cwd {tree.cwd}; ignore files: "
                       f"{ {d or '.': [p.text for p in ps] for d, ps in tree.ignores.items()} }")
    # exit status (only when nothing undocumented took part)
    if not any_unspecified and not found:
        want_rc = 2 if expect_error else (1 if (args.check and expect_diff) else 0)
        if o.rc != want_rc:
            report("exit-status", f"C16:exit-status:{fl}", f"exit status {o.rc}, expected {want_rc}; stderr {M.clip(o.err, 300)}; argv {case['argv']}")
    elif any_unspecified:
        acc.count("cases-with-unspecified-files")
    if not found and n_sel and n_unsel:
        acc.nontrivial.add(M.case_key(case))
    if not found:
        acc.sample(case, {"rc": o.rc, "selected": n_sel, "filtered": n_unsel})
    return found


# ------------------------------------------------------------------------------------------------
# pinned families
# ------------------------------------------------------------------------------------------------

def content(k, name):
    if name.endswith(".json"):
        return '{ "k%d": [1, 2] }\n' % k
    return clilib.lua_unformatted(k)


def mk_case(family, tag, files, argv, links=None, cwd=CWD):
    fs = {}
    k = 0
    for rel, val in files.items():
        k += 1
        fs[(cwd + "/" if not rel.startswith("/") else "") + rel.lstrip("/")] = content(k, rel) if val is None else val
    return {"prop": PROP, "family": family, "tag": tag, "files": fs, "links": dict(links or {}), "cwd": cwd, "argv": list(argv),
            "env": {}, "stdin": None}


T0 = {
    "a.lua": None, "c.txt": None, "x.spec.lua": None, ".h.lua": None, "notes.md": None, "data.json": None,
    # the default globs are written in lower case and match the case of the name
    "UPPER.LUA": None, "sub/Mixed.Lua": None, "sub/deep/Types.Luau": None,
    ".hid/k.lua": None,
    "sub/s.lua": None, "sub/t.lua": None, "sub/.w.lua": None, "sub/u.txt": None,
    "sub/deep/d.lua": None, "sub/deep/e.luau": None, "sub/deep/f.spec.lua": None,
    "vendor/v.lua": None, "vendor/keep.lua": None,
    "gen/g.lua": None, "gen/h.lua": None, "gen/out/o.lua": None, "gen/out/p.luau": None,
    ".styluaignore": "vendor/\n*.spec.lua\n/gen/g.lua\n",
    "sub/.styluaignore": "s.lua\n/deep/e.luau\n!f.spec.lua\n",
    "gen/out/.styluaignore": "*.lua\n",
}

ARG_LISTS = [
    ["."], ["sub"], ["sub/"], ["sub/deep"], ["vendor"], [".hid"], ["gen"], ["gen/out"],
    ["a.lua"], ["c.txt"], ["x.spec.lua"], [".h.lua"], ["sub/s.lua"], ["sub/deep/e.luau"], ["vendor/v.lua"], ["gen/g.lua"],
    ["gen/out/o.lua"], ["data.json"], ["UPPER.LUA"], ["sub/Mixed.Lua", "sub"],
    ["sub", "sub/t.lua"], ["a.lua", "a.lua"], ["sub", "sub"], ["./sub", "./sub/t.lua"], [".", "./a.lua"], ["sub/deep", "sub"],
    ["a.lua", "sub", "vendor/v.lua", "c.txt"], [ABS], [ABS + "/sub", ABS + "/sub/s.lua"],
]
GLOB_LISTS = [None, ["*.lua"], ["*.txt"], ["*.lua", "!*.spec.lua"], ["!*.spec.lua", "*.lua"], ["!*.spec.lua"], ["**/*.luau", "*.md"]]


def glob_argv(globs):
    out = []
    for g in globs or []:
        out += ["-g", g]
    return out


ANCHORED_GLOB_LISTS = [["sub/*.lua"], ["*.lua", "!gen/*.lua"], ["sub/deep/*.lua", "gen/out/*.luau"], ["!sub/deep/*.lua", "*.lua"], ["gen/*.lua", "!gen/g.lua"]]


def fam_anchored_globs(tier):
    """-g patterns with a directory part are relative to the working directory, however the arguments are spelled"""
    cases = []
    for gi, globs in enumerate(ANCHORED_GLOB_LISTS):
        for ai, targets in enumerate((["."], [ABS], ["sub", "gen"], [ABS + "/sub", ABS + "/gen"], ["./sub", "a.lua"], [ABS + "/gen/out", "sub/deep"])):
            for r in (False, True):
                if tier == "quick" and r and (gi + ai) % 2:
                    continue
                argv = (["--respect-ignores"] if r else []) + glob_argv(globs) + ["--"] + targets
                cases.append(mk_case("anchored-globs", f"anchored:{gi}:{ai}:{int(r)}", T0, argv))
    return cases


def fam_grid(tier):
    cases = []
    n = 0
    for ai, targets in enumerate(ARG_LISTS):
        for gi, globs in enumerate(GLOB_LISTS):
            for r in (False, True):
                for a in (False, True):
                    n += 1
                    plain = gi == 0 and not r and not a  # every argument list with default options, also in quick
                    if tier == "quick" and (ai + gi + 2 * r + a) % 3 != 0 and not (ai < 2 and gi < 2) and not plain:
                        continue
                    argv = (["--respect-ignores"] if r else []) + (["--allow-hidden"] if a else []) + glob_argv(globs) + ["--"] + targets
                    if (ai * 7 + gi) % 5 == 0:
                        argv = ["--check"] + argv
                    cases.append(mk_case("grid", f"grid:{ai}:{gi}:{int(r)}{int(a)}", T0, argv))
    return cases


def fam_twice(tier):
    """Pinned: the same file reachable through arguments that spell it differently (known defect class)."""
    cases = []
    lists = [[".", "a.lua"], [".", "sub/t.lua"], ["sub", "./sub/t.lua"], ["./sub", "sub/t.lua"], [".", "sub"], ["sub", "./sub"],
             [ABS + "/sub", "sub/t.lua"], [ABS, "."], ["a.lua", "./a.lua"], ["a.lua", ABS + "/a.lua"], [".", "a.lua", "./a.lua"],
             # the same file through a `dir/..` detour
             ["a.lua", "sub/../a.lua"], ["sub/t.lua", "sub/deep/../t.lua"], ["sub", "sub/deep/../t.lua"], ["sub/deep/..", "sub"]]
    for i, targets in enumerate(lists):
        for check in (True, False):
            cases.append(mk_case("twice", f"twice:{i}:{'check' if check else 'write'}", T0, (["--check"] if check else []) + targets))
    return cases


def fam_own_dir_shadow(tier):
    """Pinned: explicit file + --respect-ignores, excluded by cwd's .styluaignore, own directory has one too."""
    cases = []
    base = {"sub/t.lua": None, "sub/s.lua": None, "a.lua": None}
    cases.append(mk_case("own-dir-shadow", "shadow:name", dict(base, **{".styluaignore": "t.lua\n", "sub/.styluaignore": "s.lua\n"}),
                         ["--respect-ignores", "sub/t.lua"]))
    cases.append(mk_case("own-dir-shadow", "shadow:anchored", dict(base, **{".styluaignore": "/sub/t.lua\n", "sub/.styluaignore": "# nothing\n"}),
                         ["--respect-ignores", "sub/t.lua", "a.lua"]))
    cases.append(mk_case("own-dir-shadow", "shadow:dir", dict(base, **{".styluaignore": "sub/\n", "sub/.styluaignore": "s.lua\n"}),
                         ["--respect-ignores", "sub/t.lua"]))
    cases.append(mk_case("own-dir-shadow", "shadow:ext-abs", dict(base, **{".styluaignore": "*.lua\n", "sub/.styluaignore": "zzz\n"}),
                         ["--respect-ignores", ABS + "/sub/t.lua"]))
    # controls: same trees, the walk and the un-shadowed explicit path agree with the model
    cases.append(mk_case("own-dir-shadow", "control:walk", dict(base, **{".styluaignore": "t.lua\n", "sub/.styluaignore": "s.lua\n"}), ["sub"]))
    cases.append(mk_case("own-dir-shadow", "control:no-own", dict(base, **{".styluaignore": "t.lua\n"}), ["--respect-ignores", "sub/t.lua"]))
    cases.append(mk_case("own-dir-shadow", "control:own-excludes", dict(base, **{"sub/.styluaignore": "t.lua\n"}), ["--respect-ignores", "sub/t.lua", "sub/s.lua"]))
    return cases


def fam_unspecified(tier):
    """Generated and observed, never judged: symlinks and other undocumented combinations."""
    cases = []
    files = dict(T0)
    files["/lt/t1.lua"] = clilib.lua_unformatted(501)
    files["/lt/d/t2.lua"] = clilib.lua_unformatted(502)
    files["/.styluaignore"] = "a.lua\n"  # above cwd
    links = {CWD + "/sub/ln.lua": "../../lt/t1.lua", CWD + "/lnd": "../lt/d"}
    for i, argv in enumerate((["."], ["sub"], ["sub/ln.lua"], ["--respect-ignores", "sub/ln.lua"], ["-a", "."], ["--respect-ignores", ".h.lua"],
                              ["vendor"], ["--respect-ignores", "vendor/v.lua"], ["sub/deep"], ["-g", "!*.spec.lua", "--", "sub"])):
        cases.append(mk_case("unspecified", f"unspec:{i}", files, argv, links=links))
    return cases


# ------------------------------------------------------------------------------------------------
# seeded family
# ------------------------------------------------------------------------------------------------

DIRS = ["src", "src/lib", "src/lib/deep", "vendor", "vendor/pkg", "build", ".cache", "src/.tmp", "tests", "tests/unit"]
NAMES = ["a.lua", "b.lua", "m.luau", "n.txt", "readme.md", "x.spec.lua", ".h.lua", "va.lua", "data.json", "init.lua", "z.luau"]
SEED_GLOBS = [["*.lua"], ["**/*.luau"], ["*.lua", "*.txt"], ["*.lua", "!*.spec.lua"], ["!*.spec.lua", "*.lua"], ["!*.spec.lua"],
              ["*.txt"], ["**/*.lua", "!**/va.lua"], ["*.luau", "*.lua", "!v*.lua"], ["*.md", "!x*.lua"], ["!*.txt", "!*.md"]]


def random_pattern(rng, d, entries_below):
    """entries_below: [(relpath to d, isdir)] of everything below directory d"""
    if not entries_below:
        return "*.tmp"
    rel, isdir = rng.pick(entries_below)
    base = posixpath.basename(rel)
    kind = rng.below(8)
    if kind == 0:
        return base
    if kind == 1 and "." in base.lstrip("."):
        return "*." + base.rsplit(".", 1)[1]
    if kind == 2 and isdir:
        return base + "/"
    if kind == 3:
        return "/" + rel + ("/" if isdir and rng.chance(1, 2) else "")
    if kind == 4:
        return "**/" + base
    if kind == 5:
        return "!" + base
    if kind == 6 and "." in base.lstrip("."):
        return "!*." + base.rsplit(".", 1)[1]
    if kind == 7:
        return "!/" + rel
    return base


def seeded_case(rng, idx):
    for _attempt in range(20):
        dirs = [""] + [d for d in DIRS if rng.chance(1, 2)]
        dirs = [d for d in dirs if d == "" or posixpath.dirname(d) in dirs]
        files = {}
        for d in dirs:
            for n in rng.sample(NAMES, 1 + rng.below(3)):
                if len(files) < 22:
                    files[(d + "/" if d else "") + n] = None
        if not files:
            continue
        all_dirs = sorted(M.dirs_of(files) - {""})
        entries = [(f, False) for f in files] + [(d, True) for d in all_dirs]
        ign_dirs = [d for d in [""] + all_dirs if rng.chance(1, 3 if d else 2)]
        for d in ign_dirs:
            below = [(M.rel_to(p, d), isd) for p, isd in entries if p != d and M.is_under(p, d)]
            pats = [random_pattern(rng, d, below) for _ in range(1 + rng.below(3))]
            files[(d + "/" if d else "") + ".styluaignore"] = "\n".join(pats) + "\n"
        if rng.chance(1, 10):
            files["/.styluaignore"] = rng.pick(["a.lua\n", "*.luau\n", "src/\n"])
        style = rng.pick(["plain", "dotslash", "abs"])
        lua_ish = [f for f in files if not f.endswith(".styluaignore") and not f.startswith("/")]
        cands = []
        for _ in range(1 + rng.below(3)):
            r = rng.below(10)
            if r < 3:
                cands.append("")
            elif r < 6 and all_dirs:
                cands.append(rng.pick(all_dirs))
            else:
                cands.append(rng.pick(lua_ish))
        if rng.chance(1, 6):
            cands.append(cands[0])
        targets = []
        for p in cands:
            if style == "plain":
                if p == "":
                    style = "dotslash"
                    targets = ["./" + t if t != "." else t for t in targets]
                    targets.append(".")
                else:
                    targets.append(p + ("/" if p in all_dirs and rng.chance(1, 4) else ""))
            elif style == "dotslash":
                targets.append("." if p == "" else "./" + p)
            else:
                targets.append(ABS + ("/" + p if p else ""))
        argv = []
        if rng.chance(1, 3):
            argv.append("--respect-ignores")
        if rng.chance(1, 3):
            argv.append(rng.pick(["--allow-hidden", "-a"]))
        if rng.chance(1, 3):
            argv += glob_argv(rng.pick(SEED_GLOBS))
        if rng.chance(1, 4):
            argv.append("--check")
        case = mk_case("seeded", f"seeded#{idx}", files, argv + ["--"] + targets)
        case = sanitise(case)
        if case is not None:
            return case
    return mk_case("seeded", f"seeded#{idx}:fallback", {"a.lua": None, "b.txt": None}, ["."])


def sanitise(case):
    """Keep the seeded family away from the triggers of the confirmed defect classes (they are exercised by the
    pinned sub-families): delete the offending file / argument / ignore file and re-check."""
    for _ in range(40):
        args = M.parse_argv(case["argv"])
        tree = Tree(case)
        changed = False
        for f in sorted(tree.files):
            if posixpath.basename(f) == ".styluaignore":
                continue
            if trig_twice(tree, args, f):
                return None
            if trig_glob_outranks(tree, args, f):
                del case["files"][f]
                changed = True
            elif trig_explicit_glob(tree, args, f):
                case["argv"] = [x for x in case["argv"] if M.norm_rel(tree.cwd, x) != f or x.startswith("-")]
                changed = True
            elif trig_own_dir_shadow(tree, args, f):
                case["files"].pop(posixpath.dirname(f) + "/.styluaignore", None)
                changed = True
            if changed:
                break
        if not changed:
            a = M.parse_argv(case["argv"])
            tf = M.tree_files(case)
            ds = M.dirs_of(tf)
            if not a.targets or any(M.norm_rel(case["cwd"], t) not in tf and M.norm_rel(case["cwd"], t) not in ds for t in a.targets):
                return None
            return case
    return None


# ------------------------------------------------------------------------------------------------
# entry points
# ------------------------------------------------------------------------------------------------

def links_and_dot_names_leg(acc):
    """Judged with a direct oracle (expected bytes per path): a symbolic link whose name matches the
    globs and whose target is a regular file is that file under the link's name - met in a directory
    or named explicitly -, and `.lua` / `.luau` are names that match `*.lua` / `*.luau`."""
    U = lambda k: clilib.lua_unformatted(k)
    F = lambda k: M.ref_format(U(k), clilib.cfg())[1]
    scenarios = []

    def sc(tag, files, links, argv, expect, rc=0):
        scenarios.append((tag, mk_case("links-dot-names", tag, files, argv, links=links), expect, rc))

    base = {"proj/a.lua": U(1), "data/impl.txt": U(2), "proj/impl2.txt": U(3), "proj/notes.txt": U(4)}
    links = {CWD + "/proj/link.lua": "../data/impl.txt", CWD + "/proj/l2.lua": "impl2.txt"}
    fmt_all = {"proj/a.lua": F(1), "data/impl.txt": F(2), "proj/impl2.txt": F(3), "proj/notes.txt": U(4)}
    sc("link-in-directory", base, links, ["proj"], fmt_all)
    # with `.` the out-of-directory target is itself inside the walk, under a name that is not selected:
    # that occurrence does not count, the link's does (cf. fix 6dc5113)
    sc("link-in-directory:dot", base, links, ["."], fmt_all)
    # a file that is not selected when met during traversal and is also named explicitly, in both orders
    plain = {"a.lua": U(11), "x.txt": U(12), "sub/y.txt": U(13)}
    sc("named-after-directory", plain, {}, [".", "x.txt", "sub/y.txt"], {"a.lua": F(11), "x.txt": F(12), "sub/y.txt": F(13)})
    sc("named-before-directory", plain, {}, ["x.txt", "."], {"a.lua": F(11), "x.txt": F(12), "sub/y.txt": U(13)})
    sc("link-named", base, links, ["proj/link.lua"], {"proj/a.lua": U(1), "data/impl.txt": F(2), "proj/impl2.txt": U(3), "proj/notes.txt": U(4)})
    sc("link-in-directory:check", base, links, ["--check", "proj"], {"proj/a.lua": U(1), "data/impl.txt": U(2), "proj/impl2.txt": U(3), "proj/notes.txt": U(4)}, rc=1)
    dots = {".lua": U(5), "sub/.luau": U(6), "plain.lua": U(7), "lua": U(8), "sub/x.txt": U(9)}
    sc("dot-names:allow-hidden", dots, {}, ["--allow-hidden", "."], {".lua": F(5), "sub/.luau": F(6), "plain.lua": F(7), "lua": U(8), "sub/x.txt": U(9)})
    sc("dot-names:hidden-off", dots, {}, ["."], {".lua": U(5), "sub/.luau": U(6), "plain.lua": F(7), "lua": U(8), "sub/x.txt": U(9)})
    sc("dot-names:named", dots, {}, [".lua", "sub/.luau"], {".lua": F(5), "sub/.luau": F(6), "plain.lua": U(7), "lua": U(8), "sub/x.txt": U(9)})
    sc("dot-names:named+respect-ignores", dots, {}, ["--respect-ignores", ".lua", "plain.lua"], {".lua": F(5), "sub/.luau": U(6), "plain.lua": F(7), "lua": U(8), "sub/x.txt": U(9)})
    for tag, case, expect, rc in scenarios:
        o = M.run_case(case, strace=False)
        if o.harness_error or o.timed_out:
            acc.incon(f"links/dot names leg: {o.harness_error or 'timeout'}")
            continue
        acc.count("links_dot_names.runs")
        problems = []
        if o.rc != rc:
            problems.append(f"exit {o.rc}, expected {rc}")
        for rel, want in expect.items():
            got = o.after.get(CWD + "/" + rel)
            if got != want.encode():
                problems.append(f"{rel}: {'missing' if got is None else repr(got[:60])}, expected {want[:60]!r}")
        if problems:
            acc.finding("links-dot-names", f"C16:links-dot-names:{tag.split(':')[0]}", f"[{tag}] argv {case['argv']}: " + "; ".join(problems[:4]), case)


def build_cases(tier, seed):
    pinned = fam_grid(tier) + fam_anchored_globs(tier) + fam_twice(tier) + fam_own_dir_shadow(tier) + fam_unspecified(tier)
    rng = clilib.Rng(seed)
    n = 200 if tier == "quick" else 8000
    seeded = [seeded_case(rng, i) for i in range(n)]
    return pinned, seeded


def run(tier, seed):
    acc = M.Acc(PROP)
    st = clilib.strace_available()
    if not st:
        acc.incon("strace unavailable: exactly-once (read-opens per canonical path) cannot be observed; only byte changes were judged")
    pinned, seeded = build_cases(tier, seed)
    cases = pinned + seeded
    acc.items_total = len(cases)
    acc.count("cases.pinned", len(pinned))
    acc.count("cases.seeded", len(seeded))
    B = 400
    try:
        for i in range(0, len(cases), B):
            chunk = cases[i:i + B]
            for c, o in zip(chunk, M.run_many(chunk, strace=st)):
                judge(c, o, acc)
        links_and_dot_names_leg(acc)
    finally:
        M.ref_close()
    return acc.result()


def replay(case):
    acc = M.Acc(PROP)
    try:
        if case.get("family") == "links-dot-names":
            links_and_dot_names_leg(acc)
            return [f for f in acc.findings if f["case"].get("tag") == case.get("tag")]
        o = M.run_case(case, strace=clilib.strace_available())
        return judge(case, o, acc)
    finally:
        M.ref_close()
