"""C14 - in write mode a failing file is left untouched and does not stop the others.

Monitor: the real `stylua` binary (no --check) is run under strace on generated trees in which any
subset of the files fails (unparseable, invalid UTF-8, verification-failing, crash-injected, EACCES
on the read-open, EACCES on the write-open = read-only file) next to files that are already
formatted and files that need formatting, in every order on the command line and inside
directories. Observed: byte/mtime/inode/mode snapshots before and after, the syscall log (which
paths were opened with write intent, any other modifying syscall), the exit status.
"""
import json
import os

import clilib
import ftree
import c13

PROP = "C14"
WRITE_FORMATS = [None, "Json", "Standard"]
THREADS = [1, 2, 16]
SEQ_CLASSES = ["F", "U", "P", "X", "V", "C", "Er", "Ew", "Fw", "M", "D"]
INJ = ("Er", "Ew", "Fw")
DIR_CLASSES = ["F", "U", "P", "X", "V", "C", "Er", "Ew", "Fw"]
CORE = ["F", "U", "P", "X", "V", "C"]

META = {
    "level": "fault_enumeration",
    "rule": ("Pinned (identical for every seed): every sequence of 1 and 2 (thorough: also 3, and 4 over the six "
             "injection-free classes) outcome classes from {formatted, unformatted, unparseable, invalid UTF-8, "
             "verification-failing (--verify --sort-requires on unsorted requires), crash-injected (hook H2), EACCES on "
             "the read-open, EACCES on the write-open of an unformatted file (read-only file), EACCES armed on the "
             "write-open of an already formatted file, missing path, dangling symlink} as explicit arguments in that "
             "order - i.e. every subset of failing files in every argv order - plus every ordered pair (thorough: triple) "
             "created in that order inside one directory that is passed as the argument, plus trees holding one file of "
             "every class below nested directories x --num-threads 1/2/16. At most one strace fault per run (strace keeps "
             "one injection expression per syscall). Seeded: random trees as in C13 in write mode. One CLI execution = one "
             "evaluation, judged per file (bytes vs library output / original bytes), per path (write-intent opens vs files "
             "that had to change), and on the exit status. Non-trivial = at least one selected file needs a change or "
             "fails; distinct = distinct (format, multiset of outcome classes, argument shape, threads, flags) keys. Also pinned: pairs with whole-text ranges, a write-fault leg (RLIMIT_FSIZE), and files whose permission bits lack write access (444/400/555; the model asks whether the process may write, not the bits)."),
    "assumptions": [
        "the complete formatted text of a file is the library's own output under the options of the run (sv libfmt)",
        "the final bytes of a file are observed after the process has exited; a transient partial state during the run "
        "is visible only through the syscall log (an open with O_TRUNC on a file that then fails)",
        "an attempted (injected-to-fail) write-open of a read-only file that needs formatting is permitted; the file must "
        "keep its bytes and the exit status must be 2",
        "selection is kept unambiguous as in C13; a dangling symlink below a directory argument is not a selected file",
    ],
}


def pinned_cases(lf, tier):
    cases = []
    idx = 0

    def ok(seq):
        return sum(1 for c in seq if c in INJ) <= 1

    def add(seq, as_dir=False):
        nonlocal idx
        cases.append(c13.seq_case(lf, list(seq), WRITE_FORMATS[idx % 3], THREADS[idx % 3] if idx % 4 else None,
                                  idx % 3 == 0, idx % 4 == 0, idx, check=False, as_dir=as_dir))
        idx += 1

    for a in SEQ_CLASSES:
        add([a])
    for a in SEQ_CLASSES:
        for b in SEQ_CLASSES:
            if ok([a, b]):
                add([a, b])
    for a in DIR_CLASSES:
        for b in DIR_CLASSES:
            if ok([a, b]):
                add([a, b], as_dir=True)
    # every pair once more with a formatting range given (the whole text, open on either side): a failure is
    # a failure with a range too (--verify, parse errors, unreadable files)
    for a in SEQ_CLASSES:
        for b in SEQ_CLASSES:
            if ok([a, b]) and (tier == "thorough" or (idx % 3 == 0)):
                add([a, b])
                c = cases[-1]
                c["opts"]["range"] = [[0, None], [None, 1000000], [0, 1000000]][idx % 3]
                c["argv"] = ftree.build_argv(c["opts"], c["targets"])
                c["tag"] += "+range"
            else:
                idx += 1
    # permission bits without write access (vendored 0444 sources): a formatted file is not written at all, so the
    # bits do not matter; whether an unformatted one can be written is the kernel's decision (root may), not the bits'
    for n_, seq in enumerate((["F"], ["U"], ["F", "U"], ["U", "F"], ["F", "P"], ["P", "F"], ["F", "F"], ["F", "U", "P"], ["V", "F"], ["F", "X"])):
        for as_dir in (False, True):
            if as_dir and any(c_ not in DIR_CLASSES for c_ in seq):
                continue
            add(seq, as_dir=as_dir)
            c = cases[-1]
            lua = [rel for rel, spec in c["files"].items() if not isinstance(spec, dict) or "b64" in spec]
            lua = [rel for rel in lua if rel.endswith((".lua", ".luau"))]
            which = lua if n_ % 2 == 0 else lua[:1]
            c["modes"] = {rel: ["444", "400", "555"][(n_ + k_) % 3] for k_, rel in enumerate(which)}
            c["tag"] += "+readonly-bits"
    for v in range(4):
        for t in THREADS:
            if tier == "thorough" or (v + t) % 2 == 0:
                cases.append(c13.dir_case(lf, WRITE_FORMATS[(v + t) % 3], t, v + (4 if t == 2 else 0), check=False))
    if tier == "thorough":
        for a in SEQ_CLASSES:
            for b in SEQ_CLASSES:
                for c in SEQ_CLASSES:
                    if ok([a, b, c]):
                        add([a, b, c])
        for a in DIR_CLASSES:
            for b in DIR_CLASSES:
                for c in DIR_CLASSES:
                    if ok([a, b, c]):
                        add([a, b, c], as_dir=True)
        for a in CORE:
            for b in CORE:
                for c in CORE:
                    for d in CORE:
                        add([a, b, c, d])
    return cases


def judge(case, obs, lf):
    mdl = ftree.model(case, lf)
    sel = mdl["selected"]
    fmt = case["opts"].get("format") or "Standard"
    before, after = obs["before"], obs["after"]
    failing_present = "+".join(sorted({i["cls"] for i in sel.values() if i["fails"]} | ({"missing"} if mdl["missing"] else set()))) or "none"
    F = []
    counters = {}

    def add(oracle, kind, signature, detail):
        F.append({"oracle": oracle, "kind": kind, "signature": signature, "detail": detail})

    # per selected file: bytes
    formatted_ok = 0
    for rel, i in sel.items():
        a = after.get(rel)
        if a is None or a[0] != "file":
            add("selected-file-kept", f"selected-removed:{i['cls']}", f"C14:selected-file-removed-or-replaced:class={i['cls']}",
                f"{rel} (class {i['cls']}) is no longer a regular file after the run")
            continue
        b = before[rel]
        if i["fails"]:
            if a[1] != i["original"]:
                how = "emptied" if a[1] == b"" else "changed"
                add("failing-file-untouched", f"failing-modified:{i['cls']}", f"C14:failing-file-modified:class={i['cls']}:{how}",
                    f"{rel} failed ({i['cls']}) but its bytes changed: {len(i['original'])} -> {len(a[1])} bytes")
        elif i["differs"]:
            if a[1] != i["final_write_mode"]:
                how = "left-unformatted" if a[1] == i["original"] else "wrong-content"
                add("others-still-formatted", f"not-formatted:{how}", f"C14:not-formatted:{how}:alongside={failing_present}",
                    f"{rel} needs formatting and nothing about it fails, but after the run it is {how} "
                    f"({len(a[1])} bytes, library output has {len(i['final_write_mode'])}); failing classes present: {failing_present}")
            else:
                formatted_ok += 1
        else:
            if a[1] != i["original"]:
                add("formatted-not-rewritten", "formatted-changed", "C14:already-formatted-file-content-changed",
                    f"{rel} was already formatted but its bytes changed")
            else:
                for what, x, y in (("mtime", b[2], a[2]), ("inode", b[3], a[3]), ("mode", b[4], a[4])):
                    if x != y:
                        add("formatted-not-rewritten", f"formatted-touched:{what}", f"C14:already-formatted-file-rewritten:{what}-changed",
                            f"{rel} was already formatted but its {what} changed ({x} -> {y})")
    if formatted_ok and failing_present != "none":
        counters["runs_where_files_were_formatted_despite_a_failure"] = 1
    # everything else in the tree
    for rel, what in clilib.snapshot_diff(before, after, ignore_dir_mtime=False):
        if rel in sel:
            continue
        kind = (before.get(rel) or after.get(rel))[0]
        if what == "created":
            add("no-extra-file", "extra-created", "C14:extra-file-created", f"{rel} appeared in the tree during the run")
        elif kind == "dir" and what == "mtime":
            add("no-extra-file", "dir-mtime", "C14:directory-entries-modified",
                f"directory {rel} was modified (an entry was created, removed or renamed in it)")
        else:
            add("unselected-untouched", f"unselected:{what}:{kind}", f"C14:unselected-entry-touched:{kind}:{what}",
                f"{rel} ({kind}) is not selected but changed: {what}")
    # exit status
    exp = mdl["exit_write"]
    if obs["rc"] != exp:
        add("exit-status", f"exit:{exp}:{fmt}", f"C14:exit:expected={exp}:got={obs['rc']}:classes={ftree.bad_classes(mdl)}:format={fmt}",
            f"exit status {obs['rc']}, model says {exp}; classes {ftree.class_multiset(mdl)}; missing arguments {mdl['missing']}; "
            f"stderr: {obs['err'].decode('utf-8', 'replace')[:300]}")
    # syscalls: write-intent opens == files that had to change; nothing else modifies the tree
    if obs["events"] is not None:
        wopens = {}
        reads = []
        for e in obs["events"]:
            rel = e["rel"][0]
            if e["call"] in ("openat", "open", "creat"):
                if e["write_intent"]:
                    wopens.setdefault(rel, e)
                elif rel in sel and rel not in reads:
                    reads.append(rel)
            elif e["write_intent"]:
                on = c13.path_class(case, mdl, rel)
                add("no-other-modifying-syscall", f"write-syscall:{e['call']}", f"C14:modifying-syscall:{e['call']}:on={on}",
                    f"{e['call']}({', '.join(e['rel'])}) = {e['ret']} inside the tree")
        need = {r for r, i in sel.items() if i["needs_write"]}
        if not obs["strace_full"]:  # under fault injection strace -P logs only the faulted path
            inj = ftree.parse_inject(case)
            need = {r for r in need if inj and r == inj[0]}
            counters["runs_where_only_the_faulted_path_was_traced"] = 1
        for r in sorted(set(wopens) - need):
            on = c13.path_class(case, mdl, r)
            add("write-set", f"write-open-unexpected:{on}", f"C14:write-set:opened-for-writing-without-need:on={on}",
                f"{r} (class {on}) was opened with {wopens[r]['flags']} although its content did not have to change")
        for r in sorted(need - set(wopens)):
            add("write-set", f"write-open-missing:{sel[r]['cls']}", f"C14:write-set:never-opened-for-writing:on={sel[r]['cls']}",
                f"{r} (class {sel[r]['cls']}) had to change but was never opened for writing; failing classes present: {failing_present}")
        counters["write_intent_opens"] = len(wopens)
        # where in the processing order did the failing files sit (coverage of 'first / last / in between')
        if len(reads) >= 2:
            for pos, r in enumerate(reads):
                if sel[r]["fails"]:
                    where = "first" if pos == 0 else ("last" if pos == len(reads) - 1 else "middle")
                    counters["failing_file_position_in_read_order." + where] = counters.get("failing_file_position_in_read_order." + where, 0) + 1
    mdl["counters"] = counters
    return F, mdl


def exec14(case):
    return ftree.execute(case, exit_trace=False)


def write_fault_leg(lf, tally):
    """A write that the kernel only partly accepts (file-size limit: the same happens on a full disk or an
    exhausted quota; SIGXFSZ ignored so that write(2) reports it). The file that cannot be completed is a
    failing file: exit status 2, a message, the other files still formatted - and it holds its original or
    its complete formatted text, nothing in between."""
    import resource
    import signal
    import subprocess

    big = "".join(f"local   value_{i:04d}   =   {i}\n" for i in range(1, 401))
    small = "local   y   =   2\n"
    want_big = lf.format(big, clilib.cfg())[1].encode()
    want_small = lf.format(small, clilib.cfg())[1].encode()

    def limited():
        signal.signal(signal.SIGXFSZ, signal.SIG_IGN)
        resource.setrlimit(resource.RLIMIT_FSIZE, (2048, 2048))

    for order in (["big.lua", "small.lua"], ["small.lua", "big.lua"], ["."]):
        for threads in (None, 1, 16):
            with clilib.Scratch(prefix="sv-c14-fsize-") as sc:
                sc.write("big.lua", big.encode())
                sc.write("small.lua", small.encode())
                args = [clilib.STYLUA] + (["--num-threads", str(threads)] if threads else []) + order
                try:
                    p = subprocess.run(args, cwd=sc.root, env=sc.env({}), capture_output=True, timeout=120, preexec_fn=limited)
                except subprocess.TimeoutExpired:
                    tally.inconclusive += 1
                    continue
                got_big = open(os.path.join(sc.root, "big.lua"), "rb").read()
                got_small = open(os.path.join(sc.root, "small.lua"), "rb").read()
            tally.evaluations += 1
            tally.counters["write_fault.runs"] = tally.counters.get("write_fault.runs", 0) + 1
            case = {"write_fault_case": {"order": order, "threads": threads}}

            def report(sig_, detail):
                tally.per_signature[sig_] = tally.per_signature.get(sig_, 0) + 1
                if sum(1 for x in tally.findings if x["signature"] == sig_) < 2:
                    tally.findings.append({"oracle": "write-fault", "signature": sig_, "detail": detail, "case": case})

            if got_big == want_big:
                tally.counters["write_fault.limit_did_not_bite"] = tally.counters.get("write_fault.limit_did_not_bite", 0) + 1
                continue
            if p.returncode != 2:
                report(f"C14:write-fault:exit-status:{p.returncode}", f"{order} threads={threads}: big.lua could not be written completely ({len(got_big)} of {len(want_big)} bytes), exit status {p.returncode}, stderr {p.stderr[:200]!r}")
            if got_big != big.encode():
                report("C14:write-fault:partial-file-left", f"{order} threads={threads}: after the failed write big.lua holds {len(got_big)} bytes: neither its original ({len(big)}) nor its complete formatted text ({len(want_big)})")
            if got_small != want_small:
                report("C14:write-fault:other-file-not-formatted", f"{order} threads={threads}: small.lua was not formatted although only big.lua failed")


def run(tier, seed):
    lf = clilib.LibFmt()
    try:
        cases = pinned_cases(lf, tier)
        rng = clilib.Rng(seed * 1000003 + 14)
        for _ in range(400 if tier == "quick" else 5000):
            cases.append(c13.random_case(rng, lf, tier, check=False))
        tally = c13.Tally(PROP, lf, judge, exec14)
        ftree.run_all(cases, exec14, tally.on_result)
        write_fault_leg(lf, tally)
        return tally.result(len(cases))
    finally:
        lf.close()


def replay(case):
    lf = clilib.LibFmt()
    try:
        if "write_fault_case" in case:
            t = c13.Tally(PROP, lf, judge, exec14)
            write_fault_leg(lf, t)
            return [{"oracle": f["oracle"], "signature": f["signature"], "detail": f["detail"]} for f in t.findings]
        obs = exec14(case)
        if obs.get("skipped") or obs["timed_out"] or obs["rc"] is None:
            print("inconclusive: " + str(obs.get("skipped") or "timeout"))
            return []
        findings, mdl = judge(case, obs, lf)
        print(json.dumps({"expected_exit": mdl["exit_write"], "observed_exit": obs["rc"],
                          "classes": {r: i["cls"] for r, i in mdl["selected"].items()}, "missing": mdl["missing"],
                          "changed": [list(x) for x in clilib.snapshot_diff(obs["before"], obs["after"], ignore_dir_mtime=False)],
                          "stderr": obs["err"].decode("utf-8", "replace")[:2000]}, indent=1))
        return [{"oracle": f["oracle"], "signature": f["signature"], "detail": f["detail"]} for f in findings]
    finally:
        lf.close()
