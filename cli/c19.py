"""C19 — results do not depend on thread count or scheduling.

Three legs, all on the real binary:
 (a) schedule enumeration through hook H3 (`STYLUA_VERIF_SCHED`, trace in `STYLUA_VERIF_TRACE`): a stateless
     exploration of the tree of schedule prefixes over the classes M (main/walker thread), O (output thread)
     and W<i> (i-th submitted worker job). What each class does next is LEARNED from the traces of the
     executions themselves (operation names and counts are never assumed), so a change of the status update
     from one atomic operation to several is automatically preemptible between its steps;
 (b) a sweep `--num-threads` 1..16 x seeded jitter (`STYLUA_VERIF_JITTER`) incl. file sets of 20-40 files;
 (c) (thorough) the sweep repeated on a ThreadSanitizer build.
Decider in every leg: final exit status and final file contents against the model
    status = 2 if any missing path / unparseable file / crashing job, else 1 if --check and a file differs, else 0
and against the single-thread run. Status decreases seen in a trace are reported as diagnosis only.
"""
import posixpath
import concurrent.futures as cf
import itertools
import os
import re
import subprocess
import threading
import time

import clilib
import c17lib as L
import svlib

META = {
    "level": "exploration",
    "rule": ("(a) Scenarios = argv lists over {U unformatted, F formatted, X unparseable, C crash-injected file, m missing "
             "path} with <= 3 worker jobs, in --check and in write mode. Per scenario: a free run and a --num-threads 1 "
             "run, then every schedule prefix reachable under the constraints {program order inside M and O as observed, "
             "W<i> only after M has passed `submit W<i>`, an O operation only when the messages sent so far make O "
             "perform one (decided from the continuation of the trace, or by a bounded probe run)} is executed once with "
             "that prefix forced and the rest free; maximal prefixes (leaves) are complete forced schedules = all "
             "linear extensions. A run counts only if its trace shows the forced prefix was followed (else inconclusive: "
             "diverged). (b) thread counts 1..16 x jitter seeds over the scenarios and over pinned + seeded trees of "
             "20-40 files. Distinct = (scenario, mode, forced schedule) resp. (tree, mode, num_threads, jitter seed); "
             "non-trivial = the scenario makes at least two different thread classes touch the exit status (or contains "
             "a crash) so that an order exists that could matter. The sweep also runs the small check-mode sets and the pinned trees under --output-format Summary / Json / Unified (the status does not depend on how differences are printed)."),
    "assumptions": [
        "H3: every EXIT_CODE operation of M and O is a schedule point, a worker job holds its turn from `begin` to `end`; completeness of the enumeration is relative to this granularity (stdout lock order and channel internals are only swept)",
        "a thread class's next operation is a deterministic function of the forced prefix (messages received, values its atomic operations returned)",
        "`O not enabled` is concluded when the free continuation shows no further O operation, or when a probe run with O forced next diverges twice (350 ms and 1200 ms bounds); a wrong conclusion would lose coverage, never raise an alarm",
        "model of the final status: max over events of {2: missing path, unparseable file, crashing job; 1: --check and a file differs from the library reference; 0}",
        "TSan leg: a build failure or an unavailable nightly toolchain is inconclusive, never a violation",
    ],
}

MARK = "SVCRASHMARK"
NORMAL_MS = 4000
PROBE_MS = 350
CONFIRM_MS = 1200
OP_SKIP = ("submit", "diverged", "begin", "end")


# ------------------------------------------------------------------------------------------------
# scenarios
# ------------------------------------------------------------------------------------------------

def item_content(cls, k, ref, cfg=None):
    if cls == "U":
        return clilib.lua_unformatted(k).encode()
    if cls == "F":
        r = ref.format(clilib.lua_unformatted(k), clilib.cfg(**(cfg or {})))
        return r[1].encode()
    if cls == "X":
        return clilib.lua_unparseable(k).encode()
    if cls == "C":
        return f"local   c{k} = 1 -- {MARK}\n".encode()
    raise ValueError(cls)


def make_scenario(spec, mode, ref):
    """spec: string over U F X C m (argv order)."""
    items = []
    files = {}
    for k, cls in enumerate(spec):
        name = f"{'abcdefgh'[k]}_{cls}.lua" if cls != "m" else f"missing{k}.lua"
        items.append([name, cls])
        if cls != "m":
            files[name] = L.enc(item_content(cls, k, ref))
    return {"name": f"{spec}/{mode}", "mode": mode, "items": items, "files": files, "argv": [n for n, _ in items]}


def expected(scn, ref):
    classes = [c for _, c in scn["items"]]
    err = any(c in ("m", "X", "C", "Z") for c in classes)
    check = scn["mode"] == "check"
    rc = 2 if err else (1 if check and "U" in classes else 0)
    files = {}
    for n, cls in scn["items"]:
        if cls == "m":
            continue
        b = L.dec(scn["files"][n])
        if cls == "U" and not check:
            b = ref.format(b, clilib.cfg(**file_cfg(scn, n)))[1].encode()
        files[n] = b
    # configuration files are never touched
    for n in scn["files"]:
        if n not in files:
            files[n] = L.dec(scn["files"][n])
    # a symbolic link shows the bytes of its target
    for n, target in (scn.get("links") or {}).items():
        t = posixpath.normpath(posixpath.join(posixpath.dirname(n), target))
        if t in files:
            files[n] = files[t]
    return rc, files


def file_cfg(scn, name):
    """Overrides of the nearest configured directory at or above the file (scn["cfgs"]: dir -> overrides)."""
    cfgs = scn.get("cfgs") or {}
    d = posixpath.dirname(name)
    while True:
        if d in cfgs:
            return cfgs[d]
        if d in ("", "."):
            return cfgs.get(".", {}) if d == "" else {}
        d = posixpath.dirname(d)


# per-directory configurations for the sweep trees: every option at a non-default value somewhere
DIR_CFG_POOL = [
    {"line_endings": "Windows"},
    {"indent_type": "Spaces", "indent_width": 2},
    {"quote_style": "ForceSingle", "column_width": 40},
    {"call_parentheses": "None", "collapse_simple_statement": "Always"},
    {"line_endings": "Windows", "indent_type": "Spaces", "indent_width": 3, "quote_style": "AutoPreferSingle"},
    {"space_after_function_names": "Always", "column_width": 60},
]


def toml_for(ov):
    out = []
    for k, v in ov.items():
        out.append(f"{k} = {v}" if isinstance(v, int) and not isinstance(v, bool) else f'{k} = "{v}"')
    return "\n".join(out) + "\n"


class Res:
    def __init__(self, rc, files, events, err, timed_out, raw):
        self.rc, self.files, self.events, self.err, self.timed_out, self.raw = rc, files, events, err, timed_out, raw

    @property
    def diverged(self):
        return any(w.startswith("diverged") for _, _, w in self.events)


def parse_trace(text):
    ev = []
    for ln in text.splitlines():
        p = ln.split(" ", 2)
        if len(p) == 3 and p[0].isdigit():
            ev.append((int(p[0]), p[1], p[2]))
    ev.sort()
    return ev


def is_point(cls, what):
    if cls.startswith("W"):
        return what == "begin"
    return what.split(" ", 1)[0] not in OP_SKIP


def points(events):
    return [(i, cls, what) for i, (_, cls, what) in enumerate(events) if is_point(cls, what)]


def execute(scn, sched=None, threads=None, jitter=None, timeout_ms=NORMAL_MS, binary=None, trace=True, extra_env=None, wall=60):
    with clilib.Scratch(prefix="sv-c19-") as s:
        for n, c in scn["files"].items():
            s.write(n, L.dec(c))
        for n, target in (scn.get("links") or {}).items():
            p_ = os.path.join(s.root, n)
            os.makedirs(os.path.dirname(p_), exist_ok=True)
            os.symlink(target, p_)
        env = {"STYLUA_VERIF_PANIC_MARKER": MARK, "RUST_BACKTRACE": "0"}
        tp = os.path.join(s.base, "trace.log")
        if trace:
            env["STYLUA_VERIF_TRACE"] = tp
        if sched:
            env["STYLUA_VERIF_SCHED"] = ",".join(sched)
            env["STYLUA_VERIF_SCHED_TIMEOUT_MS"] = str(timeout_ms)
        if jitter is not None:
            env["STYLUA_VERIF_JITTER"] = str(jitter)
        if extra_env:
            env.update(extra_env)
        args = ((["--check"] if scn["mode"] == "check" else []) + (["--output-format", scn["output_format"]] if scn.get("output_format") else [])
                + (["--num-threads", str(threads)] if threads else []) + ["--"] + scn["argv"])
        run = clilib.run_cli(args, s.root, s.env(env), timeout=wall, binary=binary)
        files = {}
        for dp, _, fns in os.walk(s.root):
            for fn in fns:
                p = os.path.join(dp, fn)
                with open(p, "rb") as f:
                    files[os.path.relpath(p, s.root)] = f.read()
        raw = ""
        if trace and os.path.exists(tp):
            raw = open(tp, errors="replace").read()
        return Res(run.rc, files, parse_trace(raw), run.err, run.timed_out, raw)


def judge(scn, exp, res, how):
    """-> list of findings for one execution (final status and files decide; decreases are diagnosis)."""
    exp_rc, exp_files = exp
    out = []
    dec_ = [f"{cls} {what}" for _, cls, what in res.events
            if len(what.split()) == 3 and what.split()[1].lstrip("-").isdigit() and what.split()[2].lstrip("-").isdigit()
            and int(what.split()[2]) < int(what.split()[1])]
    case = {"scenario": {k: scn[k] for k in ("name", "mode", "items", "files", "argv", "cfgs", "links", "compare_only", "output_format") if k in scn}, "how": how}
    if res.rc != exp_rc:
        kind = "masked" if (res.rc is not None and res.rc < exp_rc) else "wrong"
        diag = f"; the trace shows the status DEcreasing at: {dec_}" if dec_ else ""
        out.append({"oracle": "final-exit-status", "signature": f"C19:status-{kind}:final={res.rc}:expected={exp_rc}",
                    "detail": f"{scn['name']} {how}: exit {res.rc}, model says {exp_rc}{diag}; trace: {res.raw.strip().splitlines()}"[:1500],
                    "case": case})
    for n, want in exp_files.items():
        got = res.files.get(n)
        if got != want:
            cls = dict(scn["items"])[n] if n in dict(scn["items"]) else "tree"
            out.append({"oracle": "final-file-contents", "signature": f"C19:file-contents:{cls}:{scn['mode']}",
                        "detail": f"{scn['name']} {how}: {n} is {('missing' if got is None else repr(got[:80]))}, expected {want[:80]!r}",
                        "case": case})
    extra = sorted(set(res.files) - set(exp_files))
    if extra:
        out.append({"oracle": "final-file-contents", "signature": "C19:file-created", "detail": f"{scn['name']} {how}: unexpected files {extra[:5]}", "case": case})
    return out


# ------------------------------------------------------------------------------------------------
# (a) schedule exploration
# ------------------------------------------------------------------------------------------------

class Explorer:
    def __init__(self, scn, ref, deadline, node_cap):
        self.scn = scn
        self.exp = expected(scn, ref)
        self.deadline = deadline
        self.node_cap = node_cap
        self.findings = []
        self.evals = 0
        self.nodes = 0
        self.leaves = []
        self.orders = set()
        self.diverged = 0
        self.probes = 0
        self.probe_disabled = 0
        self.inconclusive = 0
        self.notes = []
        self.memo_O = {}
        self.cache = {}
        self.truncated = False
        self.sample = None
        self.threads = None
        self.ops_seen = set()

    def run(self, P, timeout_ms=NORMAL_MS):
        res = execute(self.scn, sched=P or None, threads=self.threads, timeout_ms=timeout_ms)
        if res.timed_out:
            self.inconclusive += 1
            self.notes.append("process timeout")
            return res
        self.evals += 1
        self.findings.extend(judge(self.scn, self.exp, res, f"sched={','.join(P) or '<free>'} threads={self.threads}"))
        pts = points(res.events)
        self.orders.add(tuple((c, w.split(" ", 1)[0]) for _, c, w in pts))
        for _, c, w in pts:
            if not c.startswith("W"):
                self.ops_seen.add(f"{c}:{w.split(' ', 1)[0]}")
        return res

    def followed(self, res, P):
        if res.timed_out or res.diverged:
            return False
        pts = points(res.events)
        return [c for _, c, _ in pts[:len(P)]] == list(P) and len(pts) >= len(P)

    def learn(self):
        """free run + single-thread run; M's program order; number of pre-join M operations."""
        scn = self.scn
        n_files = sum(1 for _, c in scn["items"] if c != "m")
        self.threads = n_files + 2
        free = self.run([])
        single = execute(scn, threads=1)
        self.evals += 1
        self.findings.extend(judge(scn, self.exp, single, "threads=1 (reference run)"))
        if single.rc != free.rc or single.files != free.files:
            pass  # both were judged against the model already
        self.mprog = [w for _, c, w in free.events if c == "M" and not w.startswith("diverged")]
        self.nW = sum(1 for w in self.mprog if w.startswith("submit "))
        self.m_ops = [(i, w) for i, w in enumerate(self.mprog) if not w.startswith("submit ")]
        self.submit_pos = {}
        for i, w in enumerate(self.mprog):
            if w.startswith("submit "):
                self.submit_pos[w.split()[1]] = i
        last_submit = max(self.submit_pos.values()) if self.submit_pos else -1
        k0 = sum(1 for i, _ in self.m_ops if i < last_submit)
        # which of the remaining M operations can happen before the pool is joined? probe [M]*(j+1)
        self.n_pre = len(self.m_ops)
        for j in range(k0, len(self.m_ops)):
            if self.nW == 0:
                break
            P = ["M"] * (j + 1)
            r = self.run(P, PROBE_MS)
            self.probes += 1
            if self.followed(r, P):
                self.cache[tuple(P)] = r
                continue
            r2 = self.run(P, CONFIRM_MS)
            if self.followed(r2, P):
                self.cache[tuple(P)] = r2
                continue
            self.probe_disabled += 1
            self.n_pre = j
            break
        return free

    def o_enabled(self, P, res):
        pts = points(res.events)
        key = (tuple(c for c in P if c.startswith("W")), tuple(w for _, c, w in pts[:len(P)] if c == "O"))
        if key in self.memo_O:
            return self.memo_O[key]
        start = pts[len(P) - 1][0] + 1 if P else 0
        cont = res.events[start:]
        first_o = next((i for i, (_, c, w) in enumerate(cont) if c == "O" and is_point(c, w)), None)
        first_wb = next((i for i, (_, c, w) in enumerate(cont) if c.startswith("W") and w == "begin"), None)
        if first_o is None:
            ans = False
        elif first_wb is None or first_o < first_wb:
            ans = True
        else:
            PO = list(P) + ["O"]
            self.probes += 1
            r = self.run(PO, PROBE_MS)
            if self.followed(r, PO):
                ans = True
                self.cache[tuple(PO)] = r
            else:
                r2 = self.run(PO, CONFIRM_MS)
                if self.followed(r2, PO):
                    ans = True
                    self.cache[tuple(PO)] = r2
                else:
                    ans = False
                    self.probe_disabled += 1
        self.memo_O[key] = ans
        return ans

    def candidates(self, P, res):
        k = sum(1 for c in P if c == "M")
        c = []
        if k < self.n_pre:
            c.append("M")
        next_op_pos = self.m_ops[k][0] if k < len(self.m_ops) else 10 ** 9
        for i in range(self.nW):
            w = f"W{i}"
            if w not in P and self.submit_pos.get(w, 10 ** 9) < next_op_pos:
                c.append(w)
        if self.o_enabled(P, res):
            c.append("O")
        return c

    def explore(self):
        free = self.learn()
        if free.timed_out:
            return
        self.sample = {"scenario": self.scn["name"], "argv": self.scn["argv"], "free_run_trace": free.raw.strip().splitlines()}
        stack = [([], free)]
        while stack:
            P, res = stack.pop()
            self.nodes += 1
            cands = self.candidates(P, res)
            if not cands:
                self.leaves.append(",".join(P))
                if len(self.leaves) == 1 or (res.rc == 2 and "forced_schedule_trace" not in self.sample and len(P) >= 4):
                    self.sample["forced_schedule"] = ",".join(P)
                    self.sample["forced_schedule_trace"] = res.raw.strip().splitlines()
                    self.sample["forced_schedule_exit"] = res.rc
                continue
            if time.time() > self.deadline or self.nodes > self.node_cap:
                self.truncated = True
                continue
            for c in cands:
                PC = P + [c]
                r = self.cache.pop(tuple(PC), None) or self.run(PC)
                if not self.followed(r, PC):
                    r = self.run(PC)  # one retry: a hiccup of the machine must not cost coverage
                if not self.followed(r, PC):
                    self.diverged += 1
                    self.inconclusive += 1
                    self.notes.append(f"diverged: {self.scn['name']} sched={','.join(PC)}")
                    continue
                stack.append((PC, r))


SPECS_QUICK = ["Um", "mU", "UX", "XU", "UC", "UmU", "UUm", "UXm", "mm", "Fm", "FF", "UU", "UXU", "UCm", "mUU", "UUX"]
SPECS_MORE = ["CU", "XUU", "UmX", "mXU", "FUm", "UFm", "UUU", "UUUm", "mUUU", "UUmU", "XmU", "UXF",
              "CX", "UCX", "UmUm", "mUmU", "X", "U", "m", "C", "XX", "XmX", "UmC"]


# ------------------------------------------------------------------------------------------------
# (b) sweep
# ------------------------------------------------------------------------------------------------

def big_tree(rng, n, ref, tag, configured=False, bad_last=False):
    """A tree of n files of mixed classes in directories, walked through directory arguments, plus missing paths.
    configured: directories carry their own stylua.toml with different option values, so that the
    text a file gets depends on its directory - and must not depend on which worker formats it, or
    on what that worker formatted before."""
    items, files, argv = [], {}, []
    dirs = ["d0", "d1", "d1/sub", "d2"]
    weights = "UUUUFFFXC"
    cfgs = {}
    if configured:
        pool = list(DIR_CFG_POOL)
        for d in dirs:
            if d == "d1/sub" and rng.chance(1, 2):
                continue  # inherits d1's
            cfgs[d] = pool.pop(rng.below(len(pool)))
            files[d + "/stylua.toml"] = L.enc(toml_for(cfgs[d]).encode())
    scn_cfg = {"cfgs": cfgs}
    for k in range(n):
        cls = rng.pick(weights)
        name = f"{rng.pick(dirs)}/f{k}_{cls}.lua"
        items.append([name, cls])
        files[name] = L.enc(item_content(cls, k, ref, file_cfg(scn_cfg, name)))
    argv = ["d0", "missing_first.lua"] if rng.chance(1, 2) else ["d0"]
    argv += ["d1", "d2"]
    if rng.chance(1, 2):
        argv.append("missing_last.lua")
    for a in argv:
        if a.startswith("missing"):
            items.append([a, "m"])
    if bad_last:
        # the last argument is a directory whose stylua.toml cannot be loaded: the run fails (2), its
        # files stay as they are, and every file before it is still processed completely - for every
        # thread count and schedule
        files["zz/stylua.toml"] = L.enc(b"indent_widht = 3\n")
        for k in range(3):
            name = f"zz/z{k}_Z.lua"
            items.append([name, "Z"])
            files[name] = L.enc(clilib.lua_unformatted(900 + k).encode())
        argv.append("zz")
    return {"name": f"tree{n}-{tag}", "items": items, "files": files, "argv": argv, "cfgs": cfgs}


def linked_twice_tree(ref, tag):
    """One large file that two arguments reach, once by its own name and once through a symbolic link in a
    directory with another configuration: it is one file, processed once, under the configuration of the name
    that is met first - whatever the number of workers."""
    big = "".join(f"local   s{i}  =  'v{i}'\n" for i in range(1500))
    items = [["src/shared.lua", "U"], ["src/other.lua", "U"], ["vendor/own.lua", "U"]]
    files = {"src/shared.lua": L.enc(big.encode()), "src/other.lua": L.enc(clilib.lua_unformatted(801).encode()),
             "vendor/own.lua": L.enc(clilib.lua_unformatted(802).encode()),
             "vendor/stylua.toml": L.enc(toml_for({"quote_style": "ForceSingle"}).encode())}
    return {"name": f"linked-twice-{tag}", "items": items, "files": files, "argv": ["src", "vendor"], "cfgs": {"vendor": {"quote_style": "ForceSingle"}},
            "links": {"vendor/shared.lua": "../src/shared.lua"}}


def deep_file_tree(depth):
    """One file of deeply nested tables. Whether it can be formatted at all is C07's business; here only
    this is judged: the outcome (exit status and bytes) is the same for every thread count."""
    text = "local t = " + "{ ".join([""] * (depth + 1)) + "1" + " }" * depth + "\n"
    return {"name": f"deep{depth}", "items": [["deep.lua", "U"]], "files": {"deep.lua": L.enc(text.encode())}, "argv": ["deep.lua"],
            "cfgs": {}, "compare_only": True}


def with_mode(scn, mode):
    s = dict(scn)
    s["mode"] = mode
    s["name"] = scn["name"].split("/")[0] + "/" + mode
    return s


# ------------------------------------------------------------------------------------------------
# (c) TSan
# ------------------------------------------------------------------------------------------------

def build_tsan():
    tdir = os.path.join(svlib.TARGET, "tsan")
    binp = os.path.join(tdir, "x86_64-unknown-linux-gnu", "debug", "stylua")
    env = svlib.cargo_env()
    env["RUSTFLAGS"] = "-Zsanitizer=thread"
    cmd = ["cargo", "+nightly", "build", "--offline", "-Zbuild-std", "--target", "x86_64-unknown-linux-gnu", "--features", "luau,lua54,luajit",
           "--bin", "stylua", "--manifest-path", os.path.join(svlib.REPO, "Cargo.toml"), "--target-dir", tdir]
    try:
        with svlib._Lock(".build-tsan.lock"):
            p = subprocess.run(cmd, env=env, stdout=subprocess.PIPE, stderr=subprocess.STDOUT, text=True, timeout=900)
    except (OSError, subprocess.TimeoutExpired) as e:
        return None, f"tsan build did not run: {e}"
    if p.returncode != 0 or not os.path.exists(binp):
        return None, "tsan build failed: " + " | ".join(p.stdout.strip().splitlines()[-4:])[:400]
    return binp, None


_TSAN_BLOCK = re.compile(r"WARNING: ThreadSanitizer: (.*?)\n(.*?)(?=\n={10,}|\Z)", re.S)


def tsan_reports(stderr_text):
    out = []
    for m in _TSAN_BLOCK.finditer(stderr_text):
        kind = m.group(1).split(" (")[0].strip()
        frames = re.findall(r"#\d+ (.+?) (/\S+\.rs):\d+", m.group(2))
        own = [re.sub(r"::h[0-9a-f]{16}$", "", fn.strip()) + "@" + os.path.relpath(path, svlib.REPO)
               for fn, path in frames if path.startswith(svlib.REPO.rstrip("/") + "/")][:2]
        out.append((kind, tuple(own), m.group(0)[:1500]))
    return out


# ------------------------------------------------------------------------------------------------
# entry points
# ------------------------------------------------------------------------------------------------

def run(tier, seed):
    t0 = time.time()
    quick = tier != "thorough"
    ref = L.Ref()
    counters = {}
    out = {"evaluations": 0, "nontrivial": set(), "findings": [], "samples": [], "counters": counters,
           "inconclusive": 0, "inconclusive_notes": [], "items_total": 0}
    lock = threading.Lock()
    try:
        # ---------------- (a)
        specs = SPECS_QUICK if quick else SPECS_QUICK + SPECS_MORE
        scns = [make_scenario(sp, mode, ref) for sp in specs for mode in ("check", "write")]
        enum_deadline = t0 + (40 if quick else 300)
        cap = 1500 if quick else 20000

        def do_enum(scn):
            ex = Explorer(scn, ref, enum_deadline, cap)
            try:
                ex.explore()
            except Exception as e:  # harness problem, never a verdict
                ex.inconclusive += 1
                ex.notes.append(f"harness exception in {scn['name']}: {e!r}")
            return ex

        # big scenarios first so that the pool drains evenly
        scns.sort(key=lambda s: -len(s["items"]) - (1 if s["mode"] == "check" else 0))
        sched_total = nodes = diverged = probes = probe_dis = 0
        all_orders = set()
        ops_seen = set()
        per_scn = {}
        with cf.ThreadPoolExecutor(max_workers=min(svlib.NCPU, 12)) as pool:
            exs = list(pool.map(do_enum, scns))
        for ex in exs:
            out["evaluations"] += ex.evals
            out["findings"].extend(ex.findings)
            out["inconclusive"] += ex.inconclusive
            out["inconclusive_notes"].extend(ex.notes[:3])
            sched_total += len(ex.leaves)
            nodes += ex.nodes
            diverged += ex.diverged
            probes += ex.probes
            probe_dis += ex.probe_disabled
            ops_seen |= ex.ops_seen
            for o in ex.orders:
                all_orders.add((ex.scn["name"],) + o)
            classes = {c.split(":")[0] for c in ex.ops_seen}
            nontriv = len(classes & {"M", "O"}) == 2 or any(c == "C" for _, c in ex.scn["items"])
            per_scn[ex.scn["name"]] = {"complete_schedules": len(ex.leaves), "prefix_nodes": ex.nodes, "executions": ex.evals,
                                       "distinct_operation_orders": len(ex.orders), "diverged": ex.diverged,
                                       "exhaustive": not ex.truncated, "two_classes_touch_status_or_crash": nontriv}
            if nontriv:
                for lf in ex.leaves:
                    out["nontrivial"].add(f"{ex.scn['name']}|{lf}")
            if ex.truncated:
                out["inconclusive_notes"].append(f"{ex.scn['name']}: enumeration truncated by the tier's budget (not exhaustive)")
            if ex.sample and len(out["samples"]) < 3 and nontriv and "forced_schedule_trace" in ex.sample and ex.scn["mode"] == "check":
                out["samples"].append(ex.sample)
        counters.update({"enum.scenarios": len(scns), "enum.complete_schedules": sched_total, "enum.prefix_nodes": nodes,
                         "enum.diverged": diverged, "enum.probe_runs": probes, "enum.probe_runs_concluding_not_enabled": probe_dis,
                         "enum.executions": out["evaluations"]})
        # ---------------- (b)
        sweep_scns = [make_scenario(sp, mode, ref) for sp in ("UmU", "UXm", "UCm", "mUU") for mode in ("check", "write")]
        # the status does not depend on how differences are printed: the small check-mode sets in every output format
        for sp in ("UmU", "UXm", "UCm", "mUU", "XU", "UUX"):
            for fmt in ("Summary", "Json", "Unified"):
                sc = make_scenario(sp, "check", ref)
                sc["output_format"] = fmt
                sc["name"] = f"{sp}/check/{fmt}"
                sweep_scns.append(sc)
        prng = clilib.Rng(190019)  # pinned trees
        sweep_scns += [with_mode(big_tree(prng, 24, ref, "pinned"), m) for m in ("check", "write")]
        sweep_scns += [with_mode(big_tree(prng, 40, ref, "pinned"), m) for m in ("check", "write")]
        bprng = clilib.Rng(190021)  # pinned tree whose last directory has an unloadable configuration
        sweep_scns += [with_mode(big_tree(bprng, 28, ref, "pinned-bad-last-dir", configured=True, bad_last=True), m) for m in ("check", "write")]
        sweep_scns += [with_mode(linked_twice_tree(ref, "pinned"), m) for m in ("check", "write")]
        for depth in (60, 120, 250, 500, 1000, 2000):
            sweep_scns.append(with_mode(deep_file_tree(depth), "write"))
        cprng = clilib.Rng(190020)  # pinned trees with per-directory configuration
        sweep_scns += [with_mode(big_tree(cprng, 32, ref, "pinned-configured", configured=True), m) for m in ("check", "write")]
        srng = clilib.Rng(seed * 1000003 + 19)
        for j in range(1 if quick else 3):
            t = big_tree(srng, 20 + srng.below(21), ref, f"seed{seed}.{j}", configured=(j % 2 == 0))
            sweep_scns += [with_mode(t, m) for m in ("check", "write")]
        for s0 in list(sweep_scns):
            if s0["mode"] == "check" and "-pinned" in s0["name"] and not s0.get("output_format") and not s0.get("compare_only"):
                s1 = dict(s0)
                s1["output_format"] = "Summary" if len(s0["files"]) % 2 else "Json"
                s1["name"] = s0["name"] + "/" + s1["output_format"]
                sweep_scns.append(s1)
        threads_list = [1, 2, 3, 4, 8, 16] if quick else list(range(1, 17))
        reps = 2 if quick else 20
        jobs = []
        for scn in sweep_scns:
            for n in threads_list:
                for r_ in range(reps):
                    jobs.append((scn, n, srng.below(1 << 30) if r_ else 1))
        sweep_deadline = t0 + (70 if quick else 480)
        exps = {s["name"]: (None if s.get("compare_only") else expected(s, ref)) for s in sweep_scns}
        refs = {}
        for scn in sweep_scns:
            r = execute(scn, threads=1, trace=False)
            refs[scn["name"]] = r
            out["evaluations"] += 1
            if not scn.get("compare_only"):
                out["findings"].extend(judge(scn, exps[scn["name"]], r, "threads=1 (reference run)"))
        sweep_done = [0, 0]

        def do_sweep(job):
            scn, n, jit = job
            if time.time() > sweep_deadline:
                return None
            r = execute(scn, threads=n, jitter=jit, trace=False)
            if r.timed_out:
                return "timeout"
            f = [] if scn.get("compare_only") else judge(scn, exps[scn["name"]], r, f"threads={n} jitter={jit}")
            rr = refs[scn["name"]]
            if not f and (r.rc != rr.rc or r.files != rr.files):
                f = [{"oracle": "same-as-single-thread", "signature": "C19:differs-from-single-thread-run",
                      "detail": f"{scn['name']} threads={n} jitter={jit}: exit {r.rc} vs {rr.rc}",
                      "case": {"scenario": {k: scn[k] for k in ("name", "mode", "items", "files", "argv", "cfgs", "links", "compare_only", "output_format") if k in scn}, "how": f"threads={n} jitter={jit}"}}]
            return f

        with cf.ThreadPoolExecutor(max_workers=svlib.NCPU) as pool:
            for job, f in zip(jobs, pool.map(do_sweep, jobs)):
                if f is None:
                    sweep_done[1] += 1
                    continue
                if f == "timeout":
                    out["inconclusive"] += 1
                    out["inconclusive_notes"].append("sweep run timed out")
                    continue
                sweep_done[0] += 1
                out["evaluations"] += 1
                out["findings"].extend(f)
                out["nontrivial"].add(f"sweep|{job[0]['name']}|{job[1]}|{job[2]}")
        counters.update({"sweep.runs": sweep_done[0], "sweep.not_run_budget": sweep_done[1], "sweep.file_sets": len(sweep_scns),
                         "sweep.thread_counts": len(threads_list), "sweep.largest_file_set": max(len(s["files"]) for s in sweep_scns)})
        # ---------------- (c)
        tsan_info = {"ran": False}
        if not quick:
            binp, why = build_tsan()
            if binp is None:
                out["inconclusive"] += 1
                out["inconclusive_notes"].append(why)
                tsan_info["skipped"] = why
            else:
                tsan_scns = [s for s in sweep_scns if not any(c == "C" for _, c in s["items"]) and not s.get("compare_only")]
                # crash injection (H2) needs the `verif` feature, which the TSan recipe does not enable: drop C files
                if not tsan_scns:
                    tsan_scns = [make_scenario("UXm", m, ref) for m in ("check", "write")]
                more = []
                trng = clilib.Rng(77)
                for m in ("check", "write"):
                    t = big_tree(trng, 30, ref, "tsan")
                    t["items"] = [[n, c] for n, c in t["items"] if c != "C"]
                    t["files"] = {n: v for n, v in t["files"].items() if not n.endswith("_C.lua")}
                    more.append(with_mode(t, m))
                tsan_scns = [s for s in tsan_scns if len(s["files"]) <= 6] + more
                tjobs = [(s, n) for s in tsan_scns for n in (1, 2, 4, 8, 16) for _ in range(3)]
                texp = {s["name"]: expected(s, ref) for s in tsan_scns}
                tsan_deadline = time.time() + 150
                reports = {}

                def do_tsan(job):
                    scn, n = job
                    if time.time() > tsan_deadline:
                        return None
                    r = execute(scn, threads=n, trace=False, binary=binp, wall=120,
                                extra_env={"TSAN_OPTIONS": "halt_on_error=0 exitcode=66 report_signal_unsafe=0"})
                    return r

                ran = 0
                with cf.ThreadPoolExecutor(max_workers=8) as pool:
                    for job, r in zip(tjobs, pool.map(do_tsan, tjobs)):
                        if r is None or r.timed_out:
                            continue
                        ran += 1
                        out["evaluations"] += 1
                        scn, n = job
                        reps_ = tsan_reports(r.err.decode("utf-8", "replace"))
                        for kind, frames, text in reps_:
                            reports.setdefault((kind, frames), (scn, n, text))
                        if not reps_:
                            out["findings"].extend(judge(scn, texp[scn["name"]], r, f"tsan build threads={n}"))
                for (kind, frames), (scn, n, text) in reports.items():
                    out["findings"].append({"oracle": "thread-sanitizer", "signature": "C19:tsan:" + kind.replace(" ", "-") + ":" + "|".join(frames),
                                            "detail": f"{scn['name']} threads={n}: {text}",
                                            "case": {"scenario": {k: scn[k] for k in ("name", "mode", "items", "files", "argv", "cfgs", "links", "compare_only", "output_format") if k in scn}, "how": f"tsan threads={n}"}})
                tsan_info = {"ran": True, "runs": ran, "distinct_reports": len(reports)}
                counters["tsan.runs"] = ran
        # ---------------- (d) valgrind memcheck over the release binary (thorough): invalid reads / writes /
        # uses of uninitialised memory in the process with its worker threads; leaks are not judged
        memcheck_info = {"ran": False}
        if not quick:
            import shutil
            if shutil.which("valgrind") is None:
                out["inconclusive"] += 1
                out["inconclusive_notes"].append("memcheck: valgrind not found")
            else:
                mrng = clilib.Rng(4242)
                runs = 0
                errs = []
                for mode, n in (("check", 4), ("write", 8), ("write", 1)):
                    t = with_mode(big_tree(mrng, 36, ref, "memcheck", configured=True), mode)
                    t["items"] = [[nm, c] for nm, c in t["items"] if c != "C"]
                    t["files"] = {nm: v for nm, v in t["files"].items() if not nm.endswith("_C.lua")}
                    with clilib.Scratch(prefix="sv-c19-vg-") as sc:
                        for nm, c in t["files"].items():
                            sc.write(nm, L.dec(c))
                        args = ["valgrind", "-q", "--error-exitcode=99", "--leak-check=no", clilib.STYLUA] + (["--check"] if mode == "check" else []) + ["--num-threads", str(n), "--"] + t["argv"]
                        try:
                            p = subprocess.run(args, cwd=sc.root, env=sc.env({}), capture_output=True, timeout=600)
                        except subprocess.TimeoutExpired:
                            out["inconclusive"] += 1
                            out["inconclusive_notes"].append("memcheck: timeout")
                            continue
                    runs += 1
                    out["evaluations"] += 1
                    if p.returncode == 99 or b"== Invalid" in p.stderr or b"uninitialised" in p.stderr:
                        first = [l for l in p.stderr.decode("utf-8", "replace").splitlines() if "==" in l][:12]
                        kind = "invalid-access" if b"Invalid" in p.stderr else "uninitialised" if b"uninitialised" in p.stderr else "error"
                        errs.append((kind, mode, n, first))
                for kind, mode, n, first in errs[:3]:
                    out["findings"].append({"oracle": "valgrind-memcheck", "signature": "C19:memcheck:" + kind,
                                            "detail": f"valgrind memcheck reports an error ({mode}, --num-threads {n}): {first}",
                                            "case": {"scenario": {"name": "memcheck", "mode": mode, "items": [], "files": {}, "argv": []}, "how": f"valgrind threads={n}"}})
                memcheck_info = {"ran": True, "runs": runs, "reports": len(errs)}
                counters["memcheck.runs"] = runs
        out["extra_coverage"] = {
            "exhaustive": all(v["exhaustive"] for v in per_scn.values()),
            "exhaustive_scope": "leg (a): all schedule prefixes at the granularity of hook H3 for the listed scenarios",
            "schedules_enumerated": sched_total,
            "schedule_prefixes_executed": nodes,
            "distinct_operation_orders_observed": len(all_orders),
            "diverged_schedules": diverged,
            "operations_observed": sorted(ops_seen),
            "scenarios": per_scn,
            "sweep": {k[6:]: v for k, v in counters.items() if k.startswith("sweep.")},
            "tsan": tsan_info,
            "memcheck": memcheck_info,
        }
        out["items_total"] = len(scns) + len(jobs)
    finally:
        ref.close()
    out["nontrivial"] = sorted(out["nontrivial"])
    out["findings"].sort(key=lambda f: (f["signature"], len(f["case"]["scenario"]["items"]), len(f["case"]["how"])))
    dedup, seen = [], {}
    for f in out["findings"]:
        seen[f["signature"]] = seen.get(f["signature"], 0) + 1
        if seen[f["signature"]] <= 3:
            dedup.append(f)
    for k, v in seen.items():
        counters["failing_executions." + k] = v
    out["findings"] = dedup
    return out


def replay(case):
    """Re-execute a recorded case: a forced schedule once (deterministic), anything else 30 times."""
    ref = L.Ref()
    try:
        scn = case["scenario"]
        how = case.get("how", "")
        if scn.get("compare_only"):
            t0 = re.search(r"threads=(\d+)", how)
            r1 = execute(scn, threads=1, trace=False)
            r2 = execute(scn, threads=int(t0.group(1)) if t0 else 16, trace=False)
            if r1.rc != r2.rc or r1.files != r2.files:
                return [{"oracle": "same-as-single-thread", "signature": "C19:differs-from-single-thread-run", "detail": f"exit {r2.rc} vs {r1.rc}"}]
            return []
        exp = expected(scn, ref)
        m = re.search(r"sched=(\S+)", how)
        t = re.search(r"threads=(\d+)", how)
        j = re.search(r"jitter=(\d+)", how)
        threads = int(t.group(1)) if t else None
        if m and m.group(1) != "<free>":
            r = execute(scn, sched=m.group(1).split(","), threads=threads)
            if r.diverged:
                return []
            return judge(scn, exp, r, how)
        fs = []
        for i in range(30):
            r = execute(scn, threads=threads, jitter=(int(j.group(1)) + i) if j else None)
            fs = judge(scn, exp, r, how)
            if fs:
                break
        return fs
    finally:
        ref.close()
