function a.b.c:d(x, y, ...) return self, x, y, ... end
function a.b.c.e() end
local s = ("x"):rep(3) .. ({ 1, 2 })[1] .. ("%d"):format(#({}))
local m = ({ key = "v" }).key or (function() return 1 end)()
f [[long string argument]]
f([[long
multi-line]], 1, [==[level ]] two]==])
obj:method [[str]] :chain { 1 } :last "s"
for i = 10, 1, -1 do if i % 2 == 0 then break end end
for i = 1, #t do local v = t[i] end
while true do local x = 1 if x then break end end
repeat local y = f() until y and y.done or not y
local a, b, c = (f()), (...), ({})
local neg, len, nt = - x, # t, not not y
local e1, e2 = 2 ^ 3 ^ 2, (2 ^ 3) ^ 2
local cmp = a < b == (b > c) ~= (c <= d)
local cc = a .. b .. c .. (d .. e)
t[#t + 1] = { x = 1; y = 2, }
t.f, t["g"], t[1] = function() end, nil, false
do local _ENV = {} end
local ix = t[ [[key]] ] + t[ [=[k2]=] ][ [[inner]] .. suffix ]
t[ [[key]] ] = ix
;(f or g)(1);
return
