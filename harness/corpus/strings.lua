local a = 'single'
local b = "double"
local c = 'it\'s'
local d = "say \"hi\""
local e = 'mixed "double" and \'single\''
local f = "tab\there\nnewline\\backslash\0nul\065A"
local g = [[long
string]]
local h = [==[with ]] inside]==]
local i = ''
local j = ""
local n1, n2, n3, n4 = 0xFF, 1e10, .5, 3.
local n5, n6 = 0x8, 1E-3
print('a', "b", [[c]], 1, .25, 0XAB)
local k = { ['key'] = 'v', ["other"] = "w" }
local l = f'sugar' + g"sugar" + h[[sugar]]
