-- héllo wörld: comments with non-ASCII text ✓ — and an em dash
local greeting = "héllo wörld ✓ ünïcödé strïng that is rather long in bytes but shorter in characters …"
local t = { name = "Zoë", city = "Zürich", ["ключ"] = "значение", emoji = "🙂🙃", }
print("naïve café — déjà vu", greeting, t.name) -- trailing ✓
local function describe(value) return ("%s → %s"):format(value, "日本語のテキスト") end
local long = describe("αβγδεζηθικλμνξοπρστυφχψω") .. describe("абвгдеёжзийклмнопрстуфхцчшщъыьэюя") .. "ÀÁÂÃÄÅÆÇÈÉÊËÌÍÎÏ"
if greeting == "héllo" or greeting == "wörld" or greeting == "ünïcödé" or greeting == "strïng" then print("✓") end
return { ["clé"] = 1, ["schlüssel"] = 2, [ "llave" ] = 3 }
