local a = obj.field.other:method("arg"):chained({ k = 1 }).value
local b = require "mod".field
local c = f "str" .. g { 1 } .. (h)("x")
callback(function(err, data)
    if err then return nil, err end
    return data
end, options)
describe("suite", function()
    it("does something rather long to describe in one line", function() expect(value).to.equal(other) end)
end)
local long = first_operand_of_the_expression + second_operand_of_the_expression * third_operand - (fourth / fifth)
local cond = (a and b) or (not c and d) or e == f and g ~= h
local neg = -x ^ 2 + (-y) ^ 2 - -z
local cat = "a" .. "b" .. tostring(c) .. [[long]] .. 1 .. 2
if (a) then b() elseif (c and d) then e() else f() end
while (x < 10) do x = x + 1 end
repeat y = y - 1 until (y == 0)
local s = ("%d items"):format(#items)
local nested = f(g(h(i(j(k)))), l(m(n)))
t.a.b.c = function(self, ...) return select("#", ...) end
(function() print("iife") end)()
