local t1 = { 1, 2, 3 }
local t2 = { a = 1, b = 2, c = 3 }
local t3 = { ["x"] = 1, ["y"] = f(), [1 + 2] = "z" }
local t4 = { { 1 }, { k = v }, {} }
local t5 = { function() end, function(a) return a end, g }
local t6 = {
    first = 1,
    ["second"] = 2,
    third,
}
f(a, b, c)
f("s", {}, function() end)
obj:method(a, { 1, 2 }, "z")
local function params(a, b, ...) return a, b, ... end
local x, y, z = 1, 2, 3
x, y.k, z[1] = z, y, x
for k, v in pairs(t1) do print(k, v) end
for i = 1, 10, 2 do print(i) end
local handlers = {
    ["on_message_received"] = dispatch(registry, "message", payload_of(event)),
    ['it\'s'] = compute(first_argument, second_argument) + offset_value * scale,
    [.5] = lookup(table_of_values, index_expression, default_value),
    [ key_expression ] = { nested = call(with_an_argument, and_another_one) },
}
return f(a), (g()), { h }
