local a = [[firstsecond]]
local b = [==[x
y]==]
local c = "line\
continued"
local d = "two\
lines"
--[[ block comment with a barecarriage return ]]
local e = { [ [[key]] ] = [[v
alue]] }
print(a, b, c, d, e)
