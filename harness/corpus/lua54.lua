local a <const> = 1
local b <close>, c <const> = setmetatable({}, { __close = function() end }), 2
local d = 7 // 2 + 3 % 2
local e = 1 << 4 | 0xF0 & ~0x0F ~ 3 >> 1
goto done
do
    ::again::
    if e > 0 then e = e - 1 goto again end
end
::done::
local f = "\u{48}\x41\z
           continued"
local g = 0x10p2 + 1e2 // 1
for i = 1, 3 do
    if i == 2 then goto continue end
    print(i)
    ::continue::
end
return a, b, c
