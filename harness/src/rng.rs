//! SplitMix64 PRNG owned by the harness (no external crates).
#[derive(Clone)]
pub struct Rng(pub u64);

pub fn mix(mut z: u64) -> u64 {
    z = z.wrapping_add(0x9E37_79B9_7F4A_7C15);
    z = (z ^ (z >> 30)).wrapping_mul(0xBF58_476D_1CE4_E5B9);
    z = (z ^ (z >> 27)).wrapping_mul(0x94D0_49BB_1331_11EB);
    z ^ (z >> 31)
}

pub fn hash_str(s: &str) -> u64 {
    // FNV-1a 64
    let mut h: u64 = 0xcbf29ce484222325;
    for b in s.as_bytes() {
        h ^= *b as u64;
        h = h.wrapping_mul(0x100000001b3);
    }
    h
}

impl Rng {
    pub fn new(seed: u64) -> Self {
        Rng(mix(seed ^ 0xA5A5_5A5A_1234_5678))
    }
    /// independent stream for (seed, a, b)
    pub fn derive(seed: u64, a: u64, b: u64) -> Self {
        Rng(mix(mix(mix(seed) ^ a) ^ b))
    }
    pub fn next(&mut self) -> u64 {
        self.0 = self.0.wrapping_add(0x9E37_79B9_7F4A_7C15);
        let mut z = self.0;
        z = (z ^ (z >> 30)).wrapping_mul(0xBF58_476D_1CE4_E5B9);
        z = (z ^ (z >> 27)).wrapping_mul(0x94D0_49BB_1331_11EB);
        z ^ (z >> 31)
    }
    pub fn below(&mut self, n: usize) -> usize {
        if n == 0 {
            0
        } else {
            (self.next() % n as u64) as usize
        }
    }
    pub fn range(&mut self, lo: usize, hi_incl: usize) -> usize {
        lo + self.below(hi_incl - lo + 1)
    }
    pub fn chance(&mut self, num: usize, den: usize) -> bool {
        self.below(den) < num
    }
    pub fn pick<'a, T>(&mut self, xs: &'a [T]) -> &'a T {
        &xs[self.below(xs.len())]
    }
}

impl Rng {
    pub fn pick_s(&mut self, xs: &[&'static str]) -> &'static str {
        xs[self.below(xs.len())]
    }
}
