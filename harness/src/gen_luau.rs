//! W-gen-luau: a second grammar-directed generator, for the Luau type language.
//!
//! The general generator (`gen.rs`) only touches a small part of Luau's type grammar. This one
//! produces programs that consist of type declarations, typed locals, typed function signatures,
//! typed loops and type assertions drawn from the whole type grammar full_moon accepts: generic
//! parameter lists with defaults and type packs, variadic types, table types with indexers and
//! access modifiers, function types with named parameters and generic binders, `typeof`,
//! qualified names, singleton types, optional / union / intersection chains with leading
//! operators, and parenthesised types in the positions where the parentheses carry meaning.
//!
//! It shares the piece model and the adversarial trivia renderer of `gen.rs`; its random stream is
//! separate, so adding it leaves every program of the general generator unchanged. Generated text
//! is used only if full_moon accepts it under Luau (checked by the caller).
use crate::gen::{render, Style, P};
use crate::rng::Rng;

pub struct LGen<'a> {
    rng: &'a mut Rng,
    out: Vec<P>,
    stmt_no: usize,
    name_k: usize,
    tame: bool,
    comments: bool,
    /// generic names in scope (plain, packs)
    scope_t: Vec<String>,
    scope_p: Vec<String>,
}

impl<'a> LGen<'a> {
    fn t(&mut self, s: &str) {
        self.out.push(P::T(s.to_string()));
    }
    fn ts(&mut self, ss: &[&str]) {
        for s in ss {
            self.t(s);
        }
    }
    fn fresh(&mut self) -> String {
        self.name_k += 1;
        if !self.tame && self.rng.chance(1, 8) {
            format!("v{}_{}_a_rather_long_name_for_width", self.stmt_no, self.name_k)
        } else {
            format!("v{}_{}", self.stmt_no, self.name_k)
        }
    }

    // ------------------------------------------------------------------------------ types
    fn simple_type(&mut self) {
        let r = self.rng.below(14);
        match r {
            0 => self.t("number"),
            1 => self.t("string"),
            2 => self.t("boolean"),
            3 => self.t("any"),
            4 => self.t("nil"),
            5 => self.t("unknown"),
            6 => self.t("never"),
            7 => self.t("true"),
            8 => self.t("false"),
            9 => self.t("\"lit\""),
            10 => self.t("'single'"),
            11 if !self.scope_t.is_empty() => {
                let n = self.rng.pick(&self.scope_t).clone();
                self.t(&n);
            }
            12 => self.ts(&["Mod", ".", "Type"]),
            _ => {
                let n = self.rng.pick_s(&["Foo", "Bar", "Instance", "SomeVeryLongTypeNameForWidthPurposes"]);
                self.t(n);
            }
        }
    }

    /// the operand of `...T` or the key type of a table indexer: mostly a name, sometimes a
    /// parenthesised function type / chain / optional (the parentheses carry meaning there)
    fn operand_type(&mut self) {
        match self.rng.below(10) {
            0 => {
                self.t("(");
                self.fn_type(1);
                self.t(")");
            }
            1 => {
                self.t("(");
                let u = self.rng.chance(1, 2);
                self.chain(0, u);
                self.t(")");
            }
            2 => {
                self.t("(");
                self.simple_type();
                self.t("?");
                self.t(")");
            }
            3 => self.table_type(1),
            _ => self.simple_type(),
        }
    }

    /// something that may stand where a type pack is expected (generic argument, return type)
    fn pack(&mut self, depth: usize) {
        match self.rng.below(6) {
            0 => self.ts(&["(", ")"]),
            1 => {
                self.t("(");
                let n = self.rng.range(1, 3);
                for i in 0..n {
                    if i > 0 {
                        self.t(",");
                    }
                    self.ty(depth.saturating_sub(1));
                }
                if self.rng.chance(1, 4) {
                    self.t(",");
                    self.t("...");
                    self.operand_type();
                }
                self.t(")");
            }
            2 => {
                self.t("...");
                self.operand_type();
            }
            3 if !self.scope_p.is_empty() => {
                let n = self.rng.pick(&self.scope_p).clone();
                self.t(&n);
                self.t("...");
            }
            _ => self.ty(depth.saturating_sub(1)),
        }
    }

    fn fn_type(&mut self, depth: usize) {
        let d = depth.saturating_sub(1);
        let mut pushed_t = 0;
        let mut pushed_p = 0;
        if self.rng.chance(1, 5) {
            // generic binder
            self.t("<");
            let n = self.rng.range(1, 2);
            for i in 0..n {
                if i > 0 {
                    self.t(",");
                }
                let g = format!("G{}", self.scope_t.len());
                self.t(&g);
                self.scope_t.push(g);
                pushed_t += 1;
            }
            if self.rng.chance(1, 3) {
                self.t(",");
                let g = format!("P{}", self.scope_p.len());
                self.t(&g);
                self.t("...");
                self.scope_p.push(g);
                pushed_p += 1;
            }
            self.t(">");
        }
        self.t("(");
        let n = self.rng.below(4);
        for i in 0..n {
            if i > 0 {
                self.t(",");
            }
            if self.rng.chance(1, 2) {
                let nm = self.fresh();
                self.t(&nm);
                self.t(":");
            }
            self.ty(d);
        }
        if self.rng.chance(1, 5) {
            if n > 0 {
                self.t(",");
            }
            if !self.scope_p.is_empty() && self.rng.chance(1, 2) {
                let p = self.rng.pick(&self.scope_p).clone();
                self.t(&p);
                self.t("...");
            } else {
                self.t("...");
                self.operand_type();
            }
        }
        self.t(")");
        self.t("->");
        if self.rng.chance(1, 2) {
            self.pack(d);
        } else {
            self.ty(d);
        }
        for _ in 0..pushed_t {
            self.scope_t.pop();
        }
        for _ in 0..pushed_p {
            self.scope_p.pop();
        }
    }

    fn table_type(&mut self, depth: usize) {
        let d = depth.saturating_sub(1);
        self.t("{");
        match self.rng.below(6) {
            0 => {}
            1 => {
                if self.rng.chance(1, 4) {
                    let m = self.rng.pick_s(&["read", "write"]);
                    self.t(m);
                }
                self.ty(d)
            }
            2 => {
                self.t("[");
                self.operand_type();
                self.t("]");
                self.t(":");
                self.ty(d);
            }
            _ => {
                let n = self.rng.range(1, 5);
                let sep = if self.rng.chance(1, 5) { ";" } else { "," };
                let mut indexer_done = false;
                for i in 0..n {
                    if i > 0 {
                        self.t(sep);
                    }
                    if self.rng.chance(1, 6) {
                        let m = self.rng.pick_s(&["read", "write"]);
                        self.t(m);
                    }
                    if !indexer_done && self.rng.chance(1, 6) {
                        indexer_done = true;
                        self.t("[");
                        self.operand_type();
                        self.t("]");
                    } else if self.rng.chance(1, 8) {
                        self.ts(&["[", "\"quoted key\"", "]"]);
                    } else {
                        let nm = self.fresh();
                        self.t(&nm);
                    }
                    self.t(":");
                    self.ty(d);
                }
                if self.rng.chance(1, 3) {
                    self.t(sep);
                }
            }
        }
        self.t("}");
    }

    /// a type that needs no parentheses in any operand position
    fn postfix_type(&mut self, depth: usize) {
        let d = depth.saturating_sub(1);
        let r = if depth == 0 { self.rng.below(3) } else { self.rng.below(12) };
        match r {
            0..=2 => self.simple_type(),
            3 => self.table_type(depth),
            4 => {
                // generic instantiation
                if self.rng.chance(1, 4) {
                    self.ts(&["Mod", "."]);
                }
                let n = self.rng.pick_s(&["Array", "Map", "Promise", "Signal"]);
                self.t(n);
                self.t("<");
                let lo = if self.rng.chance(1, 12) { 0 } else { 1 };
                let k = self.rng.range(lo, 3);
                for i in 0..k {
                    if i > 0 {
                        self.t(",");
                    }
                    if self.rng.chance(1, 3) {
                        self.pack(d);
                    } else {
                        self.ty(d);
                    }
                }
                self.t(">");
            }
            5 => {
                self.ts(&["typeof", "("]);
                self.small_expr(1);
                self.t(")");
            }
            6 => {
                // parenthesised function type (the parentheses matter as a union/optional operand)
                self.t("(");
                self.fn_type(depth);
                self.t(")");
            }
            7 if !self.tame => {
                // parenthesised union/intersection as an operand (redundant when the enclosing
                // chain has the same operator: not in the tame profile)
                self.t("(");
                let u = self.rng.chance(1, 2);
                self.chain(d, u);
                self.t(")");
            }
            8 if !self.tame => {
                // redundant parentheses
                self.t("(");
                self.postfix_type(d);
                self.t(")");
            }
            9 => {
                self.postfix_type(d);
                self.t("?");
            }
            _ => self.simple_type(),
        }
    }

    fn chain(&mut self, depth: usize, union: bool) {
        let op = if union { "|" } else { "&" };
        let n = *self.rng.pick(&[2usize, 2, 3, 3, 4, 6, 9]);
        if self.rng.chance(1, 5) {
            self.t(op);
        }
        for i in 0..n {
            if i > 0 {
                self.t(op);
            }
            let at = self.out.len();
            self.postfix_type(depth);
            // `A? & B` is rejected (optional is a union): parenthesise such an operand
            if !union && matches!(self.out.last(), Some(P::T(s)) if s == "?") {
                self.out.insert(at, P::T("(".to_string()));
                self.t(")");
            }
        }
    }

    fn ty(&mut self, depth: usize) {
        let r = if depth == 0 { 0 } else { self.rng.below(10) };
        match r {
            0..=3 => self.postfix_type(depth),
            4 | 5 => self.chain(depth.saturating_sub(1), true),
            6 => self.chain(depth.saturating_sub(1), false),
            7 | 8 => self.fn_type(depth),
            _ => {
                self.postfix_type(depth);
                self.t("?");
            }
        }
    }

    /// `<T, U = X, V... = (A, B)>`; pushes the names into scope, returns how many (plain, packs)
    fn generic_decl(&mut self, defaults: bool) -> (usize, usize) {
        self.t("<");
        let nt = self.rng.below(3);
        let np = if nt == 0 { 1 } else { self.rng.below(2) };
        let mut defaulting = false;
        let mut first = true;
        for i in 0..nt {
            if !first {
                self.t(",");
            }
            first = false;
            let g = format!("T{}", self.scope_t.len() + i);
            self.t(&g);
            if defaults && (defaulting || self.rng.chance(1, 3)) {
                defaulting = true;
                self.t("=");
                if self.rng.chance(1, 4) {
                    self.t("(");
                    self.ty(1);
                    self.t(")");
                } else {
                    self.ty(1);
                }
            }
        }
        let base_t = self.scope_t.len();
        for i in 0..nt {
            self.scope_t.push(format!("T{}", base_t + i));
        }
        let base_p = self.scope_p.len();
        for i in 0..np {
            if !first {
                self.t(",");
            }
            first = false;
            let g = format!("U{}", base_p + i);
            self.t(&g);
            self.t("...");
            if defaults && (defaulting || self.rng.chance(1, 3)) {
                defaulting = true;
                self.t("=");
                match self.rng.below(5) {
                    0 => self.ts(&["(", ")"]),
                    1 => {
                        self.t("(");
                        self.ty(1);
                        self.t(")");
                    }
                    2 => {
                        self.t("(");
                        self.ty(1);
                        self.t(",");
                        self.ty(1);
                        self.t(")");
                    }
                    3 => {
                        self.t("...");
                        self.operand_type();
                    }
                    _ => {
                        if let Some(p) = self.scope_p.last().cloned() {
                            self.t(&p);
                            self.t("...");
                        } else {
                            self.ts(&["(", "string", ")"]);
                        }
                    }
                }
            }
            self.scope_p.push(g);
        }
        self.t(">");
        (nt, np)
    }

    fn pop_generics(&mut self, g: (usize, usize)) {
        for _ in 0..g.0 {
            self.scope_t.pop();
        }
        for _ in 0..g.1 {
            self.scope_p.pop();
        }
    }

    // ------------------------------------------------------------------------------ expressions
    fn small_expr(&mut self, depth: usize) {
        let r = if depth == 0 { self.rng.below(5) } else { self.rng.below(14) };
        match r {
            0 => {
                let n = format!("{}", self.rng.below(1000));
                self.t(&n);
            }
            1 => self.t("\"str\""),
            2 => self.t("nil"),
            3 | 4 => {
                let n = self.rng.pick_s(&["a", "b", "value", "self", "some_long_variable_name"]);
                self.t(n);
            }
            5 => {
                // an assertion on an atom (`a :: T :: U` is rejected by full_moon)
                let n = self.rng.pick_s(&["a", "b", "value", "self", "some_long_variable_name", "\"str\"", "42"]);
                self.t(n);
                self.t("::");
                self.postfix_type(1);
            }
            6 => {
                self.t("(");
                self.small_expr(depth - 1);
                self.t("::");
                self.ty(2);
                self.t(")");
            }
            7 => {
                match self.rng.below(4) {
                    0 => self.t("f"),
                    1 => self.ts(&["obj", ".", "method"]),
                    2 => self.ts(&["obj", ":", "method"]),
                    _ => self.t("require"),
                }
                self.t("(");
                let k = self.rng.below(3);
                for i in 0..k {
                    if i > 0 {
                        self.t(",");
                    }
                    self.small_expr(depth - 1);
                }
                self.t(")");
            }
            8 => {
                self.t("{");
                let k = self.rng.below(3);
                for i in 0..k {
                    if i > 0 {
                        self.t(",");
                    }
                    if self.rng.chance(1, 2) {
                        let nm = self.fresh();
                        self.t(&nm);
                        self.t("=");
                    }
                    self.small_expr(depth - 1);
                }
                self.t("}");
            }
            9 => {
                self.t("if");
                self.small_expr(depth - 1);
                self.t("then");
                self.small_expr(depth - 1);
                if self.rng.chance(1, 3) {
                    self.t("elseif");
                    self.small_expr(depth - 1);
                    self.t("then");
                    self.small_expr(depth - 1);
                }
                self.t("else");
                self.small_expr(depth - 1);
            }
            10 => {
                self.t("`text {");
                self.small_expr(depth - 1);
                self.t("} more`");
            }
            11 => {
                self.small_expr(depth - 1);
                let op = self.rng.pick_s(&["+", "..", "==", "and", "or", "//", "*", "<", ">", "<=", "~=", "^", "-"]);
                self.t(op);
                self.small_expr(depth - 1);
            }
            12 => {
                // anonymous typed function
                self.t("function");
                let g = if self.rng.chance(1, 4) { Some(self.generic_decl(false)) } else { None };
                self.params();
                if self.rng.chance(1, 2) {
                    self.t(":");
                    self.ret_type();
                }
                self.t("return");
                self.small_expr(depth - 1);
                self.t("end");
                if let Some(g) = g {
                    self.pop_generics(g);
                }
            }
            _ => {
                self.t("not");
                self.small_expr(depth - 1);
            }
        }
    }

    fn ret_type(&mut self) {
        if self.rng.chance(1, 2) {
            self.pack(2);
        } else {
            self.ty(2);
        }
    }

    fn params(&mut self) {
        self.t("(");
        let n = self.rng.below(4);
        for i in 0..n {
            if i > 0 {
                self.t(",");
            }
            let nm = self.fresh();
            self.t(&nm);
            if self.rng.chance(3, 4) {
                self.t(":");
                self.ty(2);
            }
        }
        if self.rng.chance(1, 4) {
            if n > 0 {
                self.t(",");
            }
            self.t("...");
            if self.rng.chance(2, 3) {
                self.t(":");
                if !self.scope_p.is_empty() && self.rng.chance(1, 2) {
                    let p = self.rng.pick(&self.scope_p).clone();
                    self.t(&p);
                    self.t("...");
                } else {
                    self.simple_type();
                }
            }
        }
        self.t(")");
    }

    // ------------------------------------------------------------------------------ statements
    fn body(&mut self, depth: usize, in_loop: bool) {
        self.out.push(P::Nl);
        self.out.push(P::Indent);
        let n = self.rng.below(3);
        for _ in 0..n {
            self.stmt(depth + 1, in_loop);
        }
        if in_loop && self.rng.chance(1, 4) {
            let w = self.rng.pick_s(&["continue", "break"]);
            self.t(w);
            self.out.push(P::StmtEnd);
        }
        self.out.push(P::Dedent);
    }

    fn stmt(&mut self, depth: usize, in_loop: bool) {
        self.stmt_no += 1;
        self.name_k = 0;
        if self.comments && self.rng.chance(1, 8) {
            self.out.push(P::OwnLineComment(format!("-- note {}", self.stmt_no)));
        }
        if self.rng.chance(1, 10) {
            self.out.push(P::Blank(self.rng.range(1, 3)));
        }
        let r = if depth == 0 { self.rng.below(12) } else { 3 + self.rng.below(9) };
        match r {
            0..=2 => {
                if self.rng.chance(1, 3) {
                    self.t("export");
                }
                self.t("type");
                let nm = format!("Ty{}", self.stmt_no);
                self.t(&nm);
                let g = if self.rng.chance(1, 2) { Some(self.generic_decl(true)) } else { None };
                self.t("=");
                self.ty(3);
                if let Some(g) = g {
                    self.pop_generics(g);
                }
            }
            3 | 4 => {
                self.t("local");
                let n = self.rng.range(1, 3);
                for i in 0..n {
                    if i > 0 {
                        self.t(",");
                    }
                    let nm = self.fresh();
                    self.t(&nm);
                    if self.rng.chance(3, 4) {
                        self.t(":");
                        self.ty(2);
                    }
                }
                if self.rng.chance(4, 5) {
                    self.t("=");
                    let k = self.rng.range(1, n);
                    for i in 0..k {
                        if i > 0 {
                            self.t(",");
                        }
                        self.small_expr(2);
                    }
                }
            }
            5 | 6 if depth < 2 => {
                let local = self.rng.chance(1, 2);
                if local {
                    self.t("local");
                }
                self.t("function");
                let nm = self.fresh();
                if !local && self.rng.chance(1, 3) {
                    let sep = self.rng.pick_s(&[":", "."]);
                    self.ts(&["Class", sep]);
                }
                self.t(&nm);
                let g = if self.rng.chance(1, 3) { Some(self.generic_decl(false)) } else { None };
                self.params();
                if self.rng.chance(2, 3) {
                    self.t(":");
                    self.ret_type();
                }
                self.body(depth, false);
                self.t("end");
                if let Some(g) = g {
                    self.pop_generics(g);
                }
            }
            7 if depth < 2 => {
                self.t("for");
                if self.rng.chance(1, 2) {
                    let nm = self.fresh();
                    self.t(&nm);
                    if self.rng.chance(1, 2) {
                        self.ts(&[":", "number"]);
                    }
                    self.ts(&["=", "1", ",", "10"]);
                } else {
                    let n = self.rng.range(1, 2);
                    for i in 0..n {
                        if i > 0 {
                            self.t(",");
                        }
                        let nm = self.fresh();
                        self.t(&nm);
                        if self.rng.chance(1, 2) {
                            self.t(":");
                            self.ty(1);
                        }
                    }
                    self.t("in");
                    self.small_expr(1);
                }
                self.t("do");
                self.body(depth, true);
                self.t("end");
            }
            8 => {
                match self.rng.below(3) {
                    0 => self.t("a"),
                    1 => self.ts(&["b", ".", "c"]),
                    _ => self.t("value"),
                }
                let op = self.rng.pick_s(&["=", "+=", "-=", "..=", "//=", "="]);
                self.t(op);
                self.small_expr(2);
            }
            9 => {
                // `return` must end its block: wrap it in do … end
                self.t("do");
                self.out.push(P::Nl);
                self.out.push(P::Indent);
                self.t("return");
                let k = self.rng.below(3);
                for i in 0..k {
                    if i > 0 {
                        self.t(",");
                    }
                    self.small_expr(2);
                }
                self.out.push(P::StmtEnd);
                self.out.push(P::Dedent);
                self.t("end");
            }
            10 if depth < 2 => {
                self.t("if");
                self.small_expr(2);
                self.t("then");
                self.body(depth, in_loop);
                if self.rng.chance(1, 3) {
                    self.t("else");
                    self.body(depth, in_loop);
                }
                self.t("end");
            }
            _ => {
                // call statement with asserted arguments
                self.t("f");
                self.t("(");
                let k = self.rng.range(1, 3);
                for i in 0..k {
                    if i > 0 {
                        self.t(",");
                    }
                    self.small_expr(2);
                }
                self.t(")");
            }
        }
        if self.comments && self.rng.chance(1, 10) {
            self.out.push(P::TrailingComment(format!("-- t{}", self.stmt_no)));
        }
        self.out.push(P::StmtEnd);
    }
}

/// A complete random Luau program centred on the type language.
pub fn program(rng: &mut Rng, tame: bool) -> String {
    let st = if tame {
        Style { crlf: 0, indent: rng.below(3) as u8, wild: 0, newline_in_expr: 0, semis: 0, same_line: 0 }
    } else {
        Style::random(rng)
    };
    let n = *rng.pick(&[1usize, 1, 2, 3, 5, 8]);
    let comments = !tame && rng.chance(1, 2);
    let pieces = {
        let mut g = LGen { rng, out: Vec::new(), stmt_no: 0, name_k: 0, tame, comments, scope_t: Vec::new(), scope_p: Vec::new() };
        for _ in 0..n {
            g.stmt(0, false);
        }
        g.out
    };
    render(rng, &pieces, &st)
}
