//! C08 — `-- stylua: ignore` regions are reproduced verbatim, everything else is still formatted.
//!
//! Model (checker side, from the documentation): inside one block a statement is ignored when its
//! leading comments contain the line `stylua: ignore`, or when it lies between a `stylua: ignore
//! start` and the next `stylua: ignore end` comment of the same block. Oracles:
//!  (1) the source slice of every ignored statement (first token … last token, plus its `;`)
//!      occurs in the output, in order;
//!  (2) every statement that is neither ignored, nor inside an ignored one, nor an ancestor of one
//!      has exactly the text it gets when the directives are defused (`ignorx`, same length).
use crate::cfg::{self, Cfg};
use crate::ctx::{case_json, Ctx};
use crate::fmt;
use crate::gen;
use crate::lex::{self, TrivKind};
use crate::props::c09::W;
use crate::rng::Rng;
use crate::stmts::{self, StmtInfo};
use serde_json::json;

/// For each statement: Some(directive kind) when the model says it is ignored.
fn ignored_set(src: &str, infos: &[StmtInfo]) -> Vec<Option<&'static str>> {
    let mut out: Vec<Option<&'static str>> = vec![None; infos.len()];
    // statements grouped by block = same parent, in order
    let mut disabled: std::collections::HashMap<usize, bool> = std::collections::HashMap::new();
    for (k, st) in infos.iter().enumerate() {
        // an ignored ancestor: not our business (reported through the ancestor)
        let lead = &src[st.lead_start.min(src.len())..st.start.min(src.len())];
        let mut single = false;
        let flag = disabled.entry(st.block_id).or_insert(false);
        if let Ok(lx) = lex::lex(lead) {
            for v in lx.trivia() {
                let raw = &lead[v.start..v.end];
                let body: String = match v.kind {
                    TrivKind::LineComment => raw[2..].to_string(),
                    TrivKind::BlockComment(level) => raw[2 + level + 2..raw.len() - level - 2].to_string(),
                    _ => continue,
                };
                for line in body.lines().map(|l| l.trim()) {
                    match line {
                        "stylua: ignore start" => *flag = true,
                        "stylua: ignore end" => *flag = false,
                        "stylua: ignore" => single = true,
                        _ => {}
                    }
                }
            }
        }
        if *flag {
            out[k] = Some("region");
        } else if single {
            out[k] = Some("single");
        }
    }
    out
}

fn has_ignored_ancestor(infos: &[StmtInfo], ign: &[Option<&'static str>], k: usize) -> bool {
    let mut p = infos[k].parent;
    while let Some(x) = p {
        if ign[x].is_some() {
            return true;
        }
        p = infos[x].parent;
    }
    false
}

pub fn check_program(ctx: &mut Ctx, id: &str, src: &str, c: &Cfg, family: &str) {
    check_program_range(ctx, id, src, c, family, None)
}

/// With a range only oracle (1) is judged: an ignored statement is reproduced verbatim wherever
/// the range boundaries fall (inside it, around it, elsewhere); what else is formatted under a
/// range is C09's business.
pub fn check_program_range(ctx: &mut Ctx, id: &str, src: &str, c: &Cfg, family: &str, range: crate::fmt::Range) {
    let ast = match fmt::parse(src, c) {
        Some(a) => a,
        None => return,
    };
    let infos = stmts::collect(&ast);
    let ign = ignored_set(src, &infos);
    let n_ign = ign.iter().filter(|x| x.is_some()).count();
    if n_ign == 0 {
        ctx.count("no_directive_effective");
        return;
    }
    let out1 = match ctx.eval(id, src, c, range, false).result {
        Ok(t) => t,
        Err(_) => {
            ctx.inconclusive("program with directives did not format");
            return;
        }
    };
    ctx.count_n("ignored_statements", n_ign as u64);
    if range.is_some() {
        ctx.count("range_evaluations");
    }
    let case = || {
        let mut v = case_json(id, src, c, range);
        v["family"] = json!(family);
        v
    };
    // (1) verbatim slices in order
    let mut pos = 0usize;
    for (k, st) in infos.iter().enumerate() {
        if ign[k].is_none() || has_ignored_ancestor(&infos, &ign, k) {
            continue;
        }
        let slice = &src[st.start..st.semi_end.max(st.end)];
        ctx.count(&format!("verbatim_checked.{}.{}", ign[k].unwrap(), if st.has_semi { "semi" } else { "nosemi" }));
        match out1[pos..].find(slice) {
            Some(p) => pos += p + slice.len(),
            None => {
                // diagnose: without the semicolon?
                let bare = &src[st.start..st.end];
                let what = if st.has_semi && out1[pos..].contains(bare) { "semicolon-lost" } else { "text-changed" };
                let position = if st.index_in_block == 0 { "first" } else if st.index_in_block + 1 == st.block_len { "last" } else { "middle" };
                let sg = format!("C08:verbatim:{}:{}:{}:{}", what, st.kind, ign[k].unwrap(), position);
                let d = format!("ignored statement is not reproduced verbatim ({what}): expected {:?} in the output (after byte {pos}); output: {:?}", clip(slice, 200), clip(&out1, 300));
                ctx.finding("verbatim", &sg, &d, case());
                return;
            }
        }
    }
    if range.is_some() || c.sort_requires {
        // (with sorting on, defusing the directives changes which groups are frozen)
        return;
    }
    // (2) everything else formatted as without the directives
    let defused = src.replace("stylua: ignore", "stylua: ignorx");
    let out2 = match ctx.eval(&format!("{id}#defused"), &defused, c, None, false).result {
        Ok(t) => t,
        Err(_) => {
            ctx.inconclusive("defused program did not format");
            return;
        }
    };
    let (i1, i2) = match (fmt::parse(&out1, c), fmt::parse(&out2, c)) {
        (Some(a), Some(b)) => (stmts::collect(&a), stmts::collect(&b)),
        _ => {
            ctx.inconclusive("an output does not parse (C01's business)");
            return;
        }
    };
    if i1.len() != infos.len() || i2.len() != infos.len() {
        ctx.inconclusive("statement count differs between input and outputs");
        return;
    }
    // ancestors of ignored statements
    let mut anc = vec![false; infos.len()];
    for k in 0..infos.len() {
        if ign[k].is_some() {
            let mut p = infos[k].parent;
            while let Some(x) = p {
                anc[x] = true;
                p = infos[x].parent;
            }
        }
    }
    for k in 0..infos.len() {
        if ign[k].is_some() || anc[k] || has_ignored_ancestor(&infos, &ign, k) {
            continue;
        }
        if infos[k].anon_fn_depth > 0 {
            // inside a function expression the base indentation and width budget depend on how
            // the enclosing expression is laid out, which a directive comment inside that
            // function legitimately changes: not judged
            ctx.count("others_unjudged.in_function_expression");
            continue;
        }
        // siblings directly after an ignored statement can legitimately differ in blank lines
        // before them; compare token spans only
        let a = &out1[i1[k].start.min(out1.len())..i1[k].end.min(out1.len())];
        let b = &out2[i2[k].start.min(out2.len())..i2[k].end.min(out2.len())];
        ctx.count("others_compared");
        if a != b {
            let sg = format!("C08:others:{}:{}", infos[k].kind, family_root(family));
            let d = format!("a statement that is not ignored is formatted differently when an ignore directive is present elsewhere: {:?} vs (directives defused) {:?}", clip(a, 200), clip(b, 200));
            ctx.finding("others-formatted", &sg, &d, case());
            return;
        }
    }
    if ctx.samples.len() < 3 && src.len() < 400 {
        ctx.sample(json!({"input": src, "output": out1, "ignored_statements": n_ign}));
    }
}

fn family_root(f: &str) -> &str {
    f.split(':').next().unwrap_or(f)
}

fn clip(s: &str, n: usize) -> String {
    crate::props::libprops::clip(s, n)
}

const STMT_TEMPLATES: [(&str, &str); 14] = [
    ("local", "local   x{k}   =  {  1,2  }"),
    ("assign", "x{k}  .y   =   f(  1  )"),
    ("call", "f{k}(  1,   2 )"),
    ("method", "obj{k} : m  ( 'a' )"),
    ("do", "do   local a{k}=1   end"),
    ("while", "while   c{k}   do   f()   end"),
    ("repeat", "repeat   f{k}()   until   done"),
    ("if", "if   c{k}   then   f()   elseif d then g() else   h()   end"),
    ("numfor", "for   i{k}=1,  10   do   f(i)   end"),
    ("genfor", "for   k{k},v   in   pairs( t )   do   f(k)   end"),
    ("function", "function   m{k}.f (  a,b  )   return   a+b   end"),
    ("localfunction", "local   function   lf{k} (  a  )   return   a   end"),
    ("multiline", "local   t{k}   =  {\n      a   = 1,\n  b=2,\n        }"),
    ("callstring", "f{k}   'str'"),
];
const TAILS: [&str; 5] = ["", ";", " ;", "; -- c", "  -- c"];
const NEXTS: [&str; 4] = ["local   after =   1", "(g)()", "", "return   1"];

fn pinned_programs() -> Vec<(String, String)> {
    let mut v: Vec<(String, String)> = Vec::new();
    let mut k = 0;
    for (name, t) in STMT_TEMPLATES {
        for tail in TAILS {
            for next in NEXTS {
                for directive in ["single", "region", "region-open"] {
                    for depth in [0usize, 1, 2] {
                        for first in [true, false] {
                            k += 1;
                            // keep the product manageable: rotate over less important axes
                            if (k % 3 != 0) && depth == 2 {
                                continue;
                            }
                            if tail.is_empty() && next == "(g)()" {
                                continue; // would be one statement
                            }
                            let stmt = t.replace("{k}", &k.to_string());
                            let ind = "    ".repeat(depth);
                            let mut body = String::new();
                            if !first {
                                body.push_str(&format!("{ind}local   before{k}=0\n"));
                            }
                            match directive {
                                "single" => body.push_str(&format!("{ind}-- stylua: ignore\n")),
                                _ => body.push_str(&format!("{ind}-- stylua: ignore start\n")),
                            }
                            for line in stmt.lines() {
                                body.push_str(&format!("{ind}{line}\n"));
                            }
                            // the tail goes on the statement's last line
                            if !tail.is_empty() {
                                body.pop();
                                body.push_str(tail);
                                body.push('\n');
                            }
                            if directive == "region" {
                                if next.is_empty() {
                                    continue; // `ignore end` needs a following statement to attach to
                                }
                                body.push_str(&format!("{ind}-- stylua: ignore end\n"));
                            }
                            if !next.is_empty() {
                                body.push_str(&format!("{ind}{next}\n"));
                            }
                            let mut prog = String::new();
                            for d in 0..depth {
                                prog.push_str(&format!("{}do\n", "    ".repeat(d)));
                            }
                            if depth == 0 && next == "return   1" {
                                // a top-level return is fine
                            }
                            prog.push_str(&body);
                            for d in (0..depth).rev() {
                                prog.push_str(&format!("{}end\n", "    ".repeat(d)));
                            }
                            v.push((format!("{name}:{directive}:d{depth}"), prog));
                        }
                    }
                }
            }
        }
    }
    // another comment between the directive and the statement / field
    for (i, t) in [
        "-- stylua: ignore\n-- explanation\nlocal   m   =  { 1,0,\n   0,1 }\nlocal   after=1\n",
        "-- stylua: ignore\n--[[ block ]]\nlocal   m   =  { 1,0 }\n",
        "do\n    -- stylua: ignore\n    -- why\n    call  (  1,2  ) ;\n    other  ( )\nend\n",
        "-- first\n-- stylua: ignore\n-- last\nx   =   1\n",
        "--[[ stylua: ignore ]]\n-- c\nx   =   1\n",
    ]
    .iter()
    .enumerate()
    {
        v.push((format!("comment-between:{i}"), t.to_string()));
    }
    // empty lines between the directive and the statement it precedes
    for (i, t) in [
        "-- stylua: ignore\n\nlocal   m   =  { 1,0,\n   0,1 }\nlocal   after=1\n",
        "local   before=1\n-- stylua: ignore\n\n\nlocal   m   =  { 1,0 }\nlocal   after=1\n",
        "do\n    -- stylua: ignore\n\n    call  (  1,2  ) ;\n    other  ( )\nend\n",
        "--[[ stylua: ignore ]]\n\nx   =   1\n",
        "-- stylua: ignore\n\n-- c\n\nx   =   1\ny   =  2\n",
        "function f()\n    local   a=1\n    -- stylua: ignore\n\n    return   1,2;\nend\n",
        "-- stylua: ignore\n\nreturn   1,2;\n",
    ]
    .iter()
    .enumerate()
    {
        v.push((format!("blank-after-directive:{i}"), t.to_string()));
    }
    // the directive as one line of a longer block comment; stray `ignore end` before a complete region
    for (i, t) in [
        "--[[\n  laid out by hand\n  stylua: ignore\n]]\nlocal   m   =  { 1,0,\n   0,1 }\nlocal   after=1\n",
        "--[[\n  region opens here\n  stylua: ignore start\n]]\nlocal   p   =   1;\ncall(  p  )\n--[[ stylua: ignore end\n   region closed ]]\nlocal   q   =   2\n",
        "-- stylua: ignore end\nlocal   a   =  1\n-- stylua: ignore start\nlocal   b   =   { 0,1,\n 0 }\ncall(  b  ) ;\n-- stylua: ignore end\nlocal   c =   3\n",
        "do\n    -- stylua: ignore end\n    local   a   =  1\n    if x then\n        -- stylua: ignore start\n        y   =   {  2  }\n        -- stylua: ignore end\n        z   =  3\n    end\nend\n",
    ]
    .iter()
    .enumerate()
    {
        v.push((format!("directive-forms:{i}"), t.to_string()));
    }
    // table fields
    for (i, t) in [
        "local t = {\n    -- stylua: ignore\n    a   =   1,\n    b   =  2,\n}\n",
        "local t = {\n    a = 1,\n    -- stylua: ignore\n\n    b   =   2,\n    c=3,\n}\n",
        "local t = {\n    -- stylua: ignore\n\n\n    [ 'k' ]   =  { 1,2 },\n}\n",
        "local t = {\n    a   =   1,\n    -- stylua: ignore\n    [ 'k' ]   =  { 1,2 },\n    c=3,\n}\n",
        "local t = { x   = 1,\n    -- stylua: ignore\n    y   =   2 }\n",
        "call({\n    -- stylua: ignore\n    f   =   function( a )   return a   end,\n    g = 1,\n})\n",
        "local t = {\n    -- stylua: ignore\n    -- why\n    x   =    2,\n    y = 3,\n}\n",
        "local t = {\n    --[[ keep\n      stylua: ignore\n    ]]\n    y   =   {  2  },\n    z = 3,\n}\n",
    ]
    .iter()
    .enumerate()
    {
        v.push((format!("tablefield:{i}"), t.to_string()));
    }
    v
}

/// verbatim check for ignored table fields (separate, text based): the line after the directive
/// must survive up to its separator
fn check_table_field(ctx: &mut Ctx, id: &str, src: &str, c: &Cfg) {
    let out = match ctx.eval(id, src, c, None, false).result {
        Ok(t) => t,
        Err(_) => {
            ctx.inconclusive("table-field program did not format");
            return;
        }
    };
    let lines: Vec<&str> = src.lines().collect();
    for (i, l) in lines.iter().enumerate() {
        let t = l.trim();
        if (t == "-- stylua: ignore" || t == "stylua: ignore") && i + 1 < lines.len() {
            let mut j = i + 1;
            // skip further comment lines (and the closing line of a block comment that holds the directive)
            while j < lines.len() && (lines[j].trim().starts_with("--") || lines[j].trim() == "]]" || lines[j].trim().is_empty()) {
                j += 1;
            }
            if j >= lines.len() {
                continue;
            }
            let field = lines[j].trim().trim_end_matches(['}', ' ']).trim_end_matches(',').trim();
            ctx.count("table_fields_checked");
            if !out.contains(field) {
                ctx.finding(
                    "verbatim",
                    "C08:verbatim:table-field",
                    &format!("ignored table field {:?} is not reproduced verbatim; output {:?}", field, clip(&out, 300)),
                    case_json(id, src, c, None),
                );
            }
        }
    }
}

pub fn n_items(w: &W, ctx: &Ctx) -> usize {
    let seeded = if ctx.quick() { 1500 } else { 40000 };
    pinned_programs().len().div_ceil(16) + w.work.corpus.len() + seeded
}

pub fn run_item(w: &W, ctx: &mut Ctx, mut i: usize) {
    let pinned = pinned_programs();
    let n_chunks = pinned.len().div_ceil(16);
    if i < n_chunks {
        for (name, prog) in pinned[i * 16..((i + 1) * 16).min(pinned.len())].iter() {
            let base = Cfg::with_syntax("Lua51");
            if !fmt::parses(prog, &base) {
                ctx.count("pinned.rejected_by_parser");
                continue;
            }
            let widths: &[usize] = if ctx.quick() { &[120] } else { &[120, 40, 1] };
            for w_ in widths {
                for collapse in ["Never", "Always"] {
                    let mut c = base.clone();
                    c.column_width = *w_;
                    c.collapse_simple_statement = collapse;
                    let id = format!("c08:pin:{name}:w{w_}:{collapse}");
                    if name.starts_with("tablefield") {
                        check_table_field(ctx, &id, prog, &c);
                    } else {
                        check_program(ctx, &id, prog, &c, &format!("pin:{name}"));
                        if *w_ == 120 {
                            // ranges: thirds, halves, and a boundary in the middle of the program's
                            // directive-carrying statement (just after the first directive line)
                            let n = prog.len();
                            let mut rs: Vec<(Option<usize>, Option<usize>)> = vec![(Some(n / 3), Some(2 * n / 3)), (Some(n / 2), None), (None, Some(n / 2))];
                            if let Some(d) = prog.find("stylua: ignore") {
                                let after = prog[d..].find('\n').map(|p| d + p + 1).unwrap_or(n);
                                let mid = (after + (n - after) / 3).min(n);
                                rs.push((Some(mid), None));
                                rs.push((None, Some(mid)));
                                rs.push((Some(after), Some(mid)));
                            }
                            for (ri, r) in rs.into_iter().enumerate() {
                                check_program_range(ctx, &format!("{id}:r{ri}"), prog, &c, &format!("pin:{name}"), Some(r));
                            }
                        }
                    }
                }
            }
        }
        return;
    }
    i -= n_chunks;
    if i < w.work.corpus.len() {
        let file = &w.work.corpus[i];
        if !file.text.contains("stylua: ignore") {
            return;
        }
        for w_ in [120usize, 60] {
            let mut c = Cfg::with_syntax(file.syntax);
            c.column_width = w_;
            check_program(ctx, &format!("c08:corpus:{}:w{w_}", file.name), &file.text, &c, "corpus");
        }
        return;
    }
    i -= w.work.corpus.len();
    // seeded, one item in six: a require-heavy top level (the C12 generator places directives on
    // members and on other statements) with require sorting on: what the model says is ignored
    // stays verbatim and in order whatever the sorter does with its neighbours
    if i % 6 == 5 {
        let mut rng = Rng::derive(ctx.seed, 0xc08c12, i as u64);
        let luau = rng.chance(1, 3);
        let prog = crate::props::c12::program(&mut rng, luau);
        if !prog.contains("stylua: ignore") {
            ctx.count("req.no_directive");
            return;
        }
        let syntax: &'static str = if luau { "Luau" } else { "Lua51" };
        let mut c = Cfg::random(&mut rng, syntax, 40);
        c.sort_requires = true;
        if !fmt::parses(&prog, &c) {
            return;
        }
        ctx.count("req.programs");
        check_program_range(ctx, &format!("c08:req:{}:{i}", ctx.seed), &prog, &c, "req", None);
        return;
    }
    // seeded: a generated program with directives inserted before statements that start a line
    let mut rng = Rng::derive(ctx.seed, 0xc08, i as u64);
    let syntax = *rng.pick(&cfg::SYNTAXES);
    let prog = gen::program(&mut rng, syntax);
    let mut c = Cfg::random(&mut rng, syntax, 40);
    c.sort_requires = false;
    let ast = match fmt::parse(&prog, &c) {
        Some(a) => a,
        None => {
            ctx.count("gen.rejected_by_parser");
            return;
        }
    };
    let infos = stmts::collect(&ast);
    let eligible: Vec<usize> = (0..infos.len())
        .filter(|k| stmts::starts_own_line(&prog, infos[*k].start) && infos[*k].lead_start <= stmts::line_start(&prog, infos[*k].start))
        .collect();
    if eligible.is_empty() {
        return;
    }
    // choose 1-3 statements; insert from the back so offsets stay valid
    let mut chosen: Vec<usize> = Vec::new();
    for _ in 0..rng.range(1, 3) {
        let k = eligible[rng.below(eligible.len())];
        if !chosen.contains(&k) {
            chosen.push(k);
        }
    }
    let nl = if prog.contains("\r\n") { "\r\n" } else { "\n" };
    // collect insertions as (offset in prog, order, text) and apply them from the back
    let mut ins: Vec<(usize, usize, String)> = Vec::new();
    for k in chosen {
        let st = &infos[k];
        let mut ls = stmts::line_start(&prog, st.start);
        let indent = prog[ls..st.start].to_string();
        let indent = indent.as_str();
        // sometimes put the directive above the statement's own leading comments
        if rng.chance(1, 3) && st.lead_start < ls {
            let l2 = stmts::line_start(&prog, st.lead_start);
            if prog[l2..st.lead_start].trim().is_empty() {
                // only when the leading trivia really starts a line (first comment line)
                let first_comment = prog[st.lead_start..st.start].find("--").map(|p| st.lead_start + p);
                if let Some(fc) = first_comment {
                    ls = stmts::line_start(&prog, fc);
                }
            }
        }
        let region = rng.chance(1, 3);
        if region {
            // close the region before the next statement of the same block when it starts a line
            let next = infos.iter().enumerate().find(|(j, s2)| *j > k && s2.block_id == st.block_id && s2.start > st.end);
            if let Some((_, nx)) = next {
                if stmts::starts_own_line(&prog, nx.start) && nx.start >= st.trail_end {
                    let nls = stmts::line_start(&prog, nx.start);
                    let nindent = prog[nls..nx.start].to_string();
                    ins.push((nls, 0, format!("{nindent}-- stylua: ignore end{nl}")));
                }
            }
            ins.push((ls, 1, format!("{indent}-- stylua: ignore start{nl}")));
        } else {
            // sometimes with empty lines between the directive and the statement
            let gap = match rng.below(8) {
                0 => nl.to_string(),
                1 => format!("{nl}{nl}"),
                _ => String::new(),
            };
            ins.push((ls, 1, format!("{indent}-- stylua: ignore{nl}{gap}")));
        }
    }
    // at equal offsets an `ignore end` (order 0) must come before a start/single directive
    ins.sort_by(|a, b| b.0.cmp(&a.0).then(b.1.cmp(&a.1)));
    let mut text = prog.clone();
    for (off, _, t) in ins {
        text.insert_str(off, &t);
    }
    if !fmt::parses(&text, &c) {
        ctx.count("gen.directive_insertion_rejected");
        return;
    }
    check_program(ctx, &format!("c08:gen:{}:{i}", ctx.seed), &text, &c, "gen");
    // the same program under a range: boundaries at random offsets, or inside / at the edges of a
    // statement (re-collected on the text with directives)
    if let Some(ast2) = fmt::parse(&text, &c) {
        let infos2 = stmts::collect(&ast2);
        if infos2.is_empty() {
            return;
        }
        let pick = |rng: &mut Rng| -> usize {
            let st = &infos2[rng.below(infos2.len())];
            match rng.below(4) {
                0 => st.start,
                1 => st.end,
                2 => st.start + (st.end - st.start) / 2,
                _ => rng.below(text.len() + 1),
            }
        };
        let a = pick(&mut rng);
        let b = pick(&mut rng);
        let r = match rng.below(4) {
            0 => (Some(a), None),
            1 => (None, Some(a)),
            _ => (Some(a.min(b)), Some(a.max(b))),
        };
        check_program_range(ctx, &format!("c08:gen:{}:{i}:r{:?}-{:?}", ctx.seed, r.0, r.1), &text, &c, "gen", Some(r));
    }
}

pub fn replay(ctx: &mut Ctx, case: &serde_json::Value) {
    let src = case["src"].as_str().unwrap_or("");
    let c = Cfg::from_json(&case["cfg"]).unwrap_or_default();
    if case["id"].as_str().unwrap_or("").contains("tablefield") {
        check_table_field(ctx, "replay", src, &c);
    } else {
        check_program_range(ctx, "replay", src, &c, case["family"].as_str().unwrap_or("replay"), crate::ctx::range_from_json(&case["range"]));
    }
}
