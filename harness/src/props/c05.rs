//! C05 — parentheses are dropped only where they cannot matter.
//!
//! Pinned, exhaustive small-scope enumeration: operator pair x parenthesis position x expression
//! context x operand length x width class. Oracle: O-N (tree shape, truncation markers) + O-parse.
//! The H1 trace is used to MEASURE that the parenthesis rule was exercised on the single-line path
//! and on the hanging path (coverage requirement).
use crate::cfg::Cfg;
use crate::ctx::{case_json, Ctx, Tier};
use crate::fmt;
use crate::oracles;
use crate::rng;
use serde_json::json;

const BIN51: [&str; 15] = ["or", "and", "<", ">", "<=", ">=", "~=", "==", "..", "+", "-", "*", "/", "%", "^"];
const BIN53: [&str; 6] = ["|", "~", "&", "<<", ">>", "//"];
const UN51: [&str; 3] = ["-", "not", "#"];
/// one representative per precedence class (for the depth-3 family)
const CLASS_REPS: [&str; 12] = ["or", "and", "<", "|", "~", "&", "<<", "..", "+", "*", "^", "=="];

const CONTEXTS: [&str; 15] = [
    "local x = @",
    "x = @",
    "return @",
    "return a, @",
    "return @, b",
    "if @ then end",
    "while @ do end",
    "repeat until @",
    "f(@)",
    "f(a, @)",
    "f(@, b)",
    "local t = { @ }",
    "local t = { k = @ }",
    "local t = { a, @ }",
    "local x = t[@]",
];

/// Luau-only contexts, applied to the Lua 5.1 operator templates under Luau syntax
const LUAU_CONTEXTS: [&str; 6] = [
    "x += @",
    "x ..= @",
    "local s = `a{@}b`",
    "local y = if @ then 1 else 2",
    "local y = if c then @ else 2",
    "local y = (@) :: number",
];

fn operands(long: bool) -> [&'static str; 4] {
    if long {
        [
            "aaaaaaaaaaaaaaaaaaaaaaaaaaaaaa",
            "bbbbbbbbbbbbbbbbbbbbbbbbbbbbbb",
            "cccccccccccccccccccccccccccccc",
            "dddddddddddddddddddddddddddddd",
        ]
    } else {
        ["a", "b", "c", "d"]
    }
}

fn sp(op: &str) -> String {
    // unary operators that are words need a space; symbols do not
    if op == "not" {
        "not ".to_string()
    } else {
        op.to_string()
    }
}

/// All expression templates for a syntax. Returns (family, expression text, syntax).
fn expressions(tier: Tier) -> Vec<(String, String, &'static str)> {
    let mut v: Vec<(String, String, &'static str)> = Vec::new();
    for long in [false, true] {
        let [a, b, c, d] = operands(long);
        let l = if long { "L" } else { "S" };
        for (bins, uns, syntax) in [
            (BIN51.to_vec(), UN51.to_vec(), "Lua51"),
            ([BIN51.to_vec(), BIN53.to_vec()].concat(), [UN51.to_vec(), vec!["~"]].concat(), "Lua53"),
        ] {
            let only_new = syntax == "Lua53";
            for o1 in &bins {
                for o2 in &bins {
                    // under Lua53 only pairs that involve a 5.3 operator (the rest is covered by Lua51)
                    if only_new && !BIN53.contains(o1) && !BIN53.contains(o2) {
                        continue;
                    }
                    v.push((format!("binL.{l}"), format!("({a} {o1} {b}) {o2} {c}"), syntax));
                    v.push((format!("binR.{l}"), format!("{a} {o2} ({b} {o1} {c})"), syntax));
                    v.push((format!("binLL.{l}"), format!("(({a} {o1} {b})) {o2} {c}"), syntax));
                }
            }
            for u in &uns {
                for o in &bins {
                    if only_new && *u != "~" && !BIN53.contains(o) {
                        continue;
                    }
                    let u_ = sp(u);
                    v.push((format!("unL.{l}"), format!("({u_}{a}) {o} {b}"), syntax));
                    v.push((format!("unLL.{l}"), format!("(({u_}{a})) {o} {b}"), syntax));
                    v.push((format!("unR.{l}"), format!("{a} {o} ({u_}{b})"), syntax));
                    v.push((format!("unOfBin.{l}"), format!("{u_}({a} {o} {b})"), syntax));
                    v.push((format!("unOfBinChain.{l}"), format!("{u_}({a} {o} {b}) {o} {c}"), syntax));
                }
                // a parenthesised unary operand inside a chain of two binary operators
                for o1 in &bins {
                    for o2 in &bins {
                        if only_new && *u != "~" && !BIN53.contains(o1) && !BIN53.contains(o2) {
                            continue;
                        }
                        let u_ = sp(u);
                        v.push((format!("unMid.{l}"), format!("{a} {o1} ({u_}{b}) {o2} {c}"), syntax));
                        v.push((format!("unFirst.{l}"), format!("({u_}{a}) {o1} {b} {o2} {c}"), syntax));
                        v.push((format!("unLast.{l}"), format!("{a} {o1} {b} {o2} ({u_}{c})"), syntax));
                    }
                }
                // a unary operation as a parenthesised prefix: the parentheses are always needed
                if !only_new || *u == "~" {
                    let u_ = sp(u);
                    v.push((format!("unPrefixIndex.{l}"), format!("({u_}{a}).{b}"), syntax));
                    v.push((format!("unPrefixMethod.{l}"), format!("({u_}{a}):m({b})"), syntax));
                    v.push((format!("unPrefixCall.{l}"), format!("({u_}{a})({b})"), syntax));
                    v.push((format!("unPrefixBracket.{l}"), format!("({u_}{a})[{b}]"), syntax));
                    v.push((format!("unPrefixChain.{l}"), format!("({u_}{a}).{b}.{c}:m({d})"), syntax));
                }
                for u2 in &uns {
                    if only_new && *u != "~" && *u2 != "~" {
                        continue;
                    }
                    v.push((format!("unUn.{l}"), format!("{}({}{a})", sp(u), sp(u2)), syntax));
                    v.push((format!("unUnBare.{l}"), format!("{} {}{a}", u, sp(u2)), syntax));
                    v.push((format!("unUnChain.{l}"), format!("{}({}{a}) + {b}", sp(u), sp(u2)), syntax));
                }
            }
            if !only_new {
                for e in [
                    format!("(({a} + {b}))"),
                    format!("({a})"),
                    format!("(({a}))"),
                    "(f())".to_string(),
                    "((f()))".to_string(),
                    "(...)".to_string(),
                    "((...))".to_string(),
                    format!("(f({a}, {b}))"),
                    format!("({a}:m({b}))"),
                    format!("(f()) + {b}"),
                    format!("{a} .. (f())"),
                    format!("({a})({b})"),
                    format!("({a}).{b}"),
                    format!("({a} + {b}).{c}"),
                    format!("(\"s\"):rep({a})"),
                    format!("({{}}).{a}"),
                    format!("(function() end)({a})"),
                    format!("{a} and ({b} or {c}) and {d}"),
                    format!("({a} and {b}) or ({c} and {d})"),
                    format!("-(-{a})"),
                    format!("- -{a}"),
                    format!("-(-(-{a}))"),
                    format!("-(-{a}) ^ {b}"),
                    format!("{a} - (-{b})"),
                    format!("{a} - -{b}"),
                    format!("{a} ^ (-{b}) ^ {c}"),
                    format!("(-{a}) ^ (-{b}) ^ {c}"),
                    format!("({a} ^ {b}) ^ {c}"),
                    format!("{a} .. ({b} .. {c})"),
                    format!("({a} .. {b}) .. {c}"),
                ] {
                    v.push((format!("misc.{l}"), e, "Lua51"));
                }
                // Luau: type assertions and if-expressions
                for o in BIN51 {
                    v.push((format!("assertL.{l}"), format!("({a} :: T) {o} {b}"), "Luau"));
                    v.push((format!("assertLL.{l}"), format!("(({a} :: T)) {o} {b}"), "Luau"));
                    v.push((format!("assertR.{l}"), format!("{a} {o} ({b} :: T)"), "Luau"));
                    v.push((format!("assertMid.{l}"), format!("{a} {o} ({b} :: T) {o} {c}"), "Luau"));
                    v.push((format!("ifexprL.{l}"), format!("(if {a} then {b} else {c}) {o} {d}"), "Luau"));
                    v.push((format!("ifexprR.{l}"), format!("{a} {o} (if {b} then {c} else {d})"), "Luau"));
                }
                for u in UN51 {
                    v.push((format!("assertOfUn.{l}"), format!("({}{a}) :: T", sp(u)), "Luau"));
                    v.push((format!("assertOfUnChain.{l}"), format!("({}{a}) :: T + {b}", sp(u)), "Luau"));
                    v.push((format!("unAssert.{l}"), format!("{}({a} :: T)", sp(u)), "Luau"));
                    v.push((format!("unIfexpr.{l}"), format!("{}(if {a} then {b} else {c})", sp(u)), "Luau"));
                }
                // a parenthesised unary operation over an if-expression or an assertion, as an operand
                for u in UN51 {
                    for o in BIN51 {
                        v.push((format!("unIfexprParenL.{l}"), format!("({}if {a} then {b} else {c}) {o} {d}", sp(u)), "Luau"));
                        v.push((format!("unIfexprParenMid.{l}"), format!("{d} {o} ({}if {a} then {b} else {c}) {o} {a}", sp(u)), "Luau"));
                        v.push((format!("unAssertParenL.{l}"), format!("({}{a} :: T) {o} {b}", sp(u)), "Luau"));
                        v.push((format!("unAssertParenMid.{l}"), format!("{c} {o} ({}{a} :: T) {o} {b}", sp(u)), "Luau"));
                    }
                }
                for e in [
                    format!("({a} :: T) :: U"),
                    format!("(({a} :: T) :: U)"),
                    format!("({a} :: T).{b}"),
                    format!("({a} :: T):m({b})"),
                    format!("({a} :: Mod.Type)[{b}]"),
                    format!("(if {a} then {b} else {c}).{d}"),
                    format!("(if {a} then {b} else {c}):m({d})"),
                    format!("({a} :: T)({b})"),
                    format!("(if {a} then {b} else {c})({d})"),
                    format!("(if {a} then {b} else {c}) :: T"),
                    format!("if {a} then ({b} :: T) else ({c} :: U)"),
                ] {
                    v.push((format!("luauMisc.{l}"), e, "Luau"));
                }
            }
        }
        // depth 3 (thorough): representatives of each precedence class, five shapes
        if tier == Tier::Thorough {
            for o1 in CLASS_REPS {
                for o2 in CLASS_REPS {
                    for o3 in CLASS_REPS {
                        v.push((format!("d3a.{l}"), format!("(({a} {o1} {b}) {o2} {c}) {o3} {d}"), "Lua53"));
                        v.push((format!("d3b.{l}"), format!("({a} {o1} ({b} {o2} {c})) {o3} {d}"), "Lua53"));
                        v.push((format!("d3c.{l}"), format!("{a} {o1} (({b} {o2} {c}) {o3} {d})"), "Lua53"));
                        v.push((format!("d3d.{l}"), format!("{a} {o1} ({b} {o2} ({c} {o3} {d}))"), "Lua53"));
                        v.push((format!("d3e.{l}"), format!("({a} {o1} {b}) {o2} ({c} {o3} {d})"), "Lua53"));
                    }
                }
            }
        }
    }
    // every template once more with each grouping pair doubled: `(x)` -> `((x))`. Removing the
    // outer pair must not lose what the inner pair protected (the context is re-derived per pair).
    let mut doubled: Vec<(String, String, &'static str)> = Vec::new();
    for (k, (family, expr, syntax)) in v.iter().enumerate() {
        let _ = k;
        if let Some(d) = double_parens(expr) {
            let (root, rest) = family.split_once('.').unwrap_or((family.as_str(), ""));
            doubled.push((format!("{root}2.{rest}"), d, syntax));
        }
    }
    v.extend(doubled);
    v
}

/// Double every grouping parenthesis pair of a template expression (call parentheses untouched).
fn double_parens(expr: &str) -> Option<String> {
    let b: Vec<char> = expr.chars().collect();
    let mut grouping_open: Vec<bool> = Vec::new(); // stack: is this open paren a grouping one
    let mut out = String::new();
    let mut changed = false;
    let mut i = 0;
    let mut in_str: Option<char> = None;
    while i < b.len() {
        let c = b[i];
        if let Some(q) = in_str {
            out.push(c);
            if c == q {
                in_str = None;
            }
            i += 1;
            continue;
        }
        match c {
            '"' | '\'' | '`' => {
                in_str = Some(c);
                out.push(c);
            }
            '(' => {
                // previous significant text decides: after a name / `)` / `]` / `}` / string it is a call
                let prev: String = out.trim_end().chars().rev().take_while(|ch| ch.is_alphanumeric() || *ch == '_').collect::<String>().chars().rev().collect();
                let last = out.trim_end().chars().last();
                let is_call = if !prev.is_empty() {
                    !matches!(prev.as_str(), "and" | "or" | "not" | "then" | "else" | "elseif" | "if" | "return" | "in" | "until" | "while")
                } else {
                    matches!(last, Some(')') | Some(']') | Some('}') | Some('"') | Some('\''))
                };
                grouping_open.push(!is_call);
                if is_call {
                    out.push('(');
                } else {
                    out.push_str("((");
                    changed = true;
                }
            }
            ')' => {
                if grouping_open.pop().unwrap_or(false) {
                    out.push_str("))");
                } else {
                    out.push(')');
                }
            }
            _ => out.push(c),
        }
        i += 1;
    }
    if changed { Some(out) } else { None }
}

const CHUNK: usize = 8;

pub fn n_items(ctx: &Ctx) -> usize {
    expressions(ctx.tier).len().div_ceil(CHUNK)
}

fn widths_for(text_len: usize) -> [usize; 4] {
    // fits, hangs at top level only (just under the statement length), hangs at every level, narrow
    [200, text_len.saturating_sub(2).max(20), 1, 40]
}

pub fn check_one(ctx: &mut Ctx, id: &str, prog: &str, c: &Cfg, family: &str, context: &str) {
    let out = ctx.eval(id, prog, c, None, true);
    let text = match out.result {
        Ok(t) => t,
        Err(_) => {
            ctx.inconclusive("case did not format (C07's business)");
            return;
        }
    };
    for (site, _a, _b) in &out.events {
        if site.starts_with("paren.") {
            ctx.count(&format!("path.{site}"));
        }
    }
    let wc = oracles::wclass(c);
    if let Some(e) = fmt::parse_error(&text, c) {
        let sg = format!("C05:syntax:{}:{}:{}", family_root(family), context_class(context), wc);
        ctx.finding("syntax", &sg, &format!("output {:?} does not parse: {}", text, e.chars().take(160).collect::<String>()), case_json(id, prog, c, None));
        return;
    }
    if let Some(d) = oracles::nf_diff(prog, &text, c) {
        let sg = format!("C05:grouping:{}:{}:{}", family_root(family), context_class(context), wc);
        ctx.finding("grouping", &sg, &format!("{:?} became {:?}: {}", prog.trim(), text.trim(), d), case_json(id, prog, c, None));
    }
    if ctx.samples.len() < 3 && text != prog && c.column_width < 100 {
        ctx.sample(json!({"input": prog, "width": c.column_width, "output": text}));
    }
}

fn family_root(f: &str) -> &str {
    f.split('.').next().unwrap_or(f)
}

fn context_class(c: &str) -> &'static str {
    if c.starts_with("return") {
        "return"
    } else if c.starts_with("if") || c.starts_with("while") || c.starts_with("repeat") {
        "condition"
    } else if c.starts_with("f(") {
        "argument"
    } else if c.contains("{") {
        "field"
    } else if c.contains("t[") {
        "index"
    } else if c == "luau-context" {
        "luau"
    } else {
        "assignment"
    }
}

pub fn run_item(ctx: &mut Ctx, i: usize) {
    let all = expressions(ctx.tier);
    let lo = i * CHUNK;
    let hi = (lo + CHUNK).min(all.len());
    for (k, (family, expr, syntax)) in all[lo..hi].iter().enumerate() {
        if *syntax == "Lua51" {
            let lbase = Cfg::with_syntax("Luau");
            for (ci, context) in LUAU_CONTEXTS.iter().enumerate() {
                if ctx.quick() && (lo + k + ci) % 3 != 0 {
                    continue;
                }
                let prog = format!("{}\n", context.replace('@', expr));
                if !fmt::parses(&prog, &lbase) {
                    ctx.count("rejected_by_parser");
                    continue;
                }
                for w in widths_for(prog.len()) {
                    let mut c = lbase.clone();
                    c.column_width = w;
                    check_one(ctx, &format!("c05:{family}:luau{ci}:w{w}"), &prog, &c, family, "luau-context");
                }
            }
        }
        let base = Cfg::with_syntax(syntax);
        // quick: contexts rotate; thorough: all
        for (ci, context) in CONTEXTS.iter().enumerate() {
            if ctx.quick() && (lo + k + ci) % 3 != 0 {
                continue;
            }
            let prog = format!("{}\n", context.replace('@', expr));
            if !fmt::parses(&prog, &base) {
                ctx.count("rejected_by_parser");
                continue;
            }
            let seen_h = rng::hash_str(&prog);
            let _ = seen_h;
            for w in widths_for(prog.len()) {
                let mut c = base.clone();
                c.column_width = w;
                let id = format!("c05:{family}:{ci}:w{w}");
                check_one(ctx, &id, &prog, &c, family, context);
            }
        }
    }
}

pub fn replay(ctx: &mut Ctx, case: &serde_json::Value) {
    let src = case["src"].as_str().unwrap_or("");
    let c = Cfg::from_json(&case["cfg"]).unwrap_or_default();
    check_one(ctx, "replay", src, &c, "replay", "local x = @");
}
