//! Monitors for the properties decided on the shared library workload:
//! C01 (output parses), C02 (meaning), C03 (comments), C06 (idempotence), C07 (totality),
//! C10 (whitespace settings).
use crate::ctx::{case_json, Ctx};
use crate::fmt::{self, FmtErr};
use crate::lex;
use crate::libwork::{Eval, Families, Work};
use crate::oracles::{self, wclass};
use crate::rng;
use crate::sig;
use serde_json::json;

pub fn families(prop: &str) -> Families {
    let base = Families {
        corpus_grid: true,
        corpus_critical: true,
        corpus_ranges: true,
        corpus_sort: true,
        gen: true,
        mutants: true,
        seeded_scale: 1,
        seeded_min_width: 40,
        tame: false,
        no_collapse: false,
        seeded_critical: true,
        comment_enum: false,
        tiny: true,
        crlf_corpus: false,
        seeded_ranges: true,
        pinned_gen: 0,
        luau_rich: true,
        collapse_templates: true,
        req_blocks: false,
        cenum_crlf: false,
        cenum_block_only: false,
        blank_enum: false,
        comment_pairs: false,
        respace: false,
    };
    match prop {
        // C02's quantifier has sort_requires off
        "C01" => Families { blank_enum: true, comment_enum: true, comment_pairs: true, ..base },
        "C03" => Families { comment_enum: true, comment_pairs: true, crlf_corpus: true, ..base },
        "C02" => Families { blank_enum: true, corpus_sort: false, comment_enum: true, comment_pairs: true, ..base },
        "C06" => Families { crlf_corpus: true, blank_enum: true, respace: true, comment_enum: true, cenum_block_only: true, req_blocks: true, luau_rich: false, corpus_ranges: false, corpus_sort: false, tame: true, no_collapse: true, mutants: false, seeded_critical: false, seeded_ranges: false, pinned_gen: 900, seeded_min_width: 120, seeded_scale: 3, ..base },
        // panics and step budgets under the comment enumerations too (comments take the rarely used paths)
        "C07" => Families { blank_enum: true, comment_enum: true, comment_pairs: true, ..base },
        "C10" => Families { blank_enum: true, corpus_ranges: false, crlf_corpus: true, comment_enum: true, cenum_crlf: true, comment_pairs: true, ..base },
        _ => base,
    }
}

fn has_directive(src: &str) -> bool {
    src.contains("stylua: ignore")
}

/// Compute the signature of a failing evaluation for `oracle`, where `fails` re-evaluates the
/// same oracle on a reduced text.
fn signature(
    oracle: &str,
    ev: &Eval,
    fails: &mut dyn FnMut(&str) -> Option<bool>,
) -> String {
    if let Some(p) = &ev.presig {
        return format!("cmt1:{}:{}:{}", oracle, p, wclass(&ev.cfg));
    }
    if ev.range.is_some() {
        let r = ev.range.unwrap();
        return format!(
            "range:{}:{}:text#{:08x}@{:?}-{:?}",
            oracle,
            wclass(&ev.cfg),
            sig::ts_hash(&ev.src, &ev.cfg),
            r.0,
            r.1
        );
    }
    sig::attribute(oracle, &ev.src, &ev.cfg, fails)
}

fn report(ctx: &mut Ctx, oracle: &str, ev: &Eval, detail: &str, fails: &mut dyn FnMut(&str) -> Option<bool>) {
    let sg = signature(oracle, ev, fails);
    let mut case = case_json(&ev.id, &ev.src, &ev.cfg, ev.range);
    case["pinned"] = json!(ev.pinned);
    ctx.finding(oracle, &sg, detail, case);
}

pub fn check(ctx: &mut Ctx, prop: &str, ev: &Eval) {
    let cfg = &ev.cfg;
    let in_ok = fmt::parses(&ev.src, cfg);
    let want_events = ctx.evals % 16 == 0; // sample the decision trace for coverage accounting
    let out = ctx.eval(&ev.id, &ev.src, cfg, ev.range, want_events);
    ctx.count(&format!("family.{}", ev.id.split(':').next().unwrap_or("?")));
    ctx.count(&format!("syntax.{}", cfg.syntax));
    ctx.count(&format!("wclass.{}", wclass(cfg)));

    if !in_ok {
        // only C07 has something to say about unparseable input
        if prop == "C07" {
            match &out.result {
                Ok(_) => {
                    let sg = format!("ok-on-unparseable:text#{:08x}", rng::hash_str(&ev.src) as u32);
                    ctx.finding("parse-agreement", &sg, "format_code returned Ok for text the checker's parser rejects", case_json(&ev.id, &ev.src, cfg, ev.range));
                }
                Err(FmtErr::Panic(m)) => {
                    let sg = fmt::panic_signature(m);
                    let sg = if sg == "panic:in-full_moon-parser" { format!("{sg}:invalid-input") } else { sg };
                    ctx.finding("panic", &sg, m, case_json(&ev.id, &ev.src, cfg, ev.range));
                }
                Err(_) => ctx.count("invalid_input.rejected"),
            }
        }
        return;
    }

    let text = match &out.result {
        Ok(t) => t.clone(),
        Err(FmtErr::Panic(m)) => {
            if prop == "C07" {
                let sg = fmt::panic_signature(m);
                let sg = if sg == "panic:in-full_moon-parser" { format!("{sg}:valid-input") } else { sg };
                ctx.finding("panic", &sg, m, case_json(&ev.id, &ev.src, cfg, ev.range));
            } else {
                ctx.inconclusive("formatter panicked (C07's business)");
            }
            return;
        }
        Err(FmtErr::Parse(m)) => {
            if prop == "C07" {
                let sg = format!("parse-error-on-parseable:text#{:08x}", rng::hash_str(&ev.src) as u32);
                ctx.finding("parse-agreement", &sg, m, case_json(&ev.id, &ev.src, cfg, ev.range));
            }
            return;
        }
        Err(FmtErr::Verify(_)) => return,
    };

    match prop {
        "C01" => {
            let bad = |t: &str| -> Option<String> {
                if let Some(e) = fmt::parse_error(t, cfg) {
                    return Some(format!("output does not parse (full_moon): {e}"));
                }
                if let Err(e) = lex::lex(t) {
                    return Some(format!("output does not lex (own lexer): {} at {}", e.what, e.at));
                }
                None
            };
            if let Some(d) = bad(&text) {
                let cfg2 = cfg.clone();
                let range = ev.range;
                let mut fails = |t: &str| -> Option<bool> {
                    match fmt::run(t, &cfg2, range, false, false).result {
                        Ok(o) => Some(!fmt::parses(&o, &cfg2) || lex::lex(&o).is_err()),
                        Err(_) => None,
                    }
                };
                let detail = format!("{d}; output: {:?}", clip(&text, 300));
                report(ctx, "syntax", ev, &detail, &mut fails);
            }
        }
        "C02" => {
            if cfg.sort_requires {
                return;
            }
            let cfg2 = cfg.clone();
            let range = ev.range;
            let judge = move |src: &str, out: &str| -> Option<String> {
                if !fmt::parses(out, &cfg2) {
                    return None; // C01's business
                }
                if let Some(d) = oracles::nf_diff(src, out, &cfg2) {
                    return Some(format!("normal form differs {d}"));
                }
                match (oracles::ts_of(src, &cfg2), oracles::ts_of(out, &cfg2)) {
                    (Ok(a), Ok(b)) => oracles::ts_diff(&a, &b).map(|d| format!("token stream differs: {d}")),
                    _ => None,
                }
            };
            if let Some(d) = judge(&ev.src, &text) {
                let cfg3 = cfg.clone();
                let mut fails = |t: &str| -> Option<bool> {
                    match fmt::run(t, &cfg3, range, false, false).result {
                        Ok(o) => Some(judge(t, &o).is_some()),
                        Err(_) => None,
                    }
                };
                report(ctx, "meaning", ev, &d, &mut fails);
            }
        }
        "C03" => {
            let cfg2 = cfg.clone();
            let range = ev.range;
            let judge = move |src: &str, out: &str| -> Option<String> {
                let (a, b) = match (lex::lex(src), lex::lex(out)) {
                    (Ok(a), Ok(b)) => (a, b),
                    _ => return None,
                };
                if let Some(d) = oracles::census_diff(&lex::comment_census(&a), &lex::comment_census(&b)) {
                    return Some(d);
                }
                if !cfg2.sort_requires {
                    let ta = lex::token_stream(&a, cfg2.int_subtype());
                    let tb = lex::token_stream(&b, cfg2.int_subtype());
                    if let Some(d) = oracles::ts_diff(&ta, &tb) {
                        return Some(format!("code/comment boundary moved: {d}"));
                    }
                }
                None
            };
            let n_comments = lex::lex(&ev.src).map(|l| lex::comment_census(&l).len()).unwrap_or(0);
            ctx.count_n("comments_observed", n_comments as u64);
            if let Some(d) = judge(&ev.src, &text) {
                let cfg3 = cfg.clone();
                let mut fails = |t: &str| -> Option<bool> {
                    match fmt::run(t, &cfg3, range, false, false).result {
                        Ok(o) => Some(judge(t, &o).is_some()),
                        Err(_) => None,
                    }
                };
                report(ctx, "census", ev, &d, &mut fails);
            }
        }
        "C06" => {
            if ev.range.is_some() {
                return;
            }
            let second = ctx.eval(&format!("{}#2", ev.id), &text, cfg, None, false);
            match second.result {
                Ok(t2) => {
                    if t2 != text {
                        let cfg3 = cfg.clone();
                        let mut fails = |t: &str| -> Option<bool> {
                            let a = fmt::run(t, &cfg3, None, false, false).result.ok()?;
                            let b = fmt::run(&a, &cfg3, None, false, false).result.ok()?;
                            Some(a != b)
                        };
                        let d = first_line_diff(&text, &t2);
                        report(ctx, "idempotence", ev, &d, &mut fails);
                    }
                }
                Err(_) => ctx.inconclusive("second pass did not return Ok (C01/C07's business)"),
            }
        }
        "C07" => {
            // the same call with the library's output verification switched on must return as well
            if ctx.evals % 3 == 0 {
                let family = ev.id.split(':').next().unwrap_or("?").to_string();
                crate::props::c07x::verified(ctx, &ev.id, &ev.src, cfg, ev.range, &family, false);
            }
            // logical-step budget: ticks relative to the number of significant tokens
            let ntok = lex::lex(&ev.src).map(|l| l.toks().count()).unwrap_or(1).max(1) as u64;
            let ratio = out.ticks / ntok;
            let e = ctx.counters.entry("max.ticks_per_token".to_string()).or_insert(0);
            if ratio > *e {
                *e = ratio;
            }
            if out.ticks > tick_budget(ntok) {
                let sg = format!("ticks:text#{:08x}", sig::ts_hash(&ev.src, cfg));
                ctx.finding("step-budget", &sg, &format!("{} logical steps for {} tokens (budget {})", out.ticks, ntok, tick_budget(ntok)), case_json(&ev.id, &ev.src, cfg, ev.range));
            }
        }
        "C10" => {
            if has_directive(&ev.src) || ev.range.is_some() {
                return;
            }
            if let Some(d) = oracles::ws_diff(&text, cfg) {
                let cfg3 = cfg.clone();
                let mut fails = |t: &str| -> Option<bool> {
                    let o = fmt::run(t, &cfg3, None, false, false).result.ok()?;
                    Some(oracles::ws_diff(&o, &cfg3).is_some())
                };
                report(ctx, "whitespace", ev, &d, &mut fails);
            }
        }
        _ => {}
    }
    if ctx.samples.len() < 3 && ev.src.len() < 400 && text != ev.src {
        ctx.sample(json!({"id": ev.id, "cfg": cfg.short(), "input": ev.src, "output": text, "ticks": out.ticks}));
    }
}

/// Budget in logical steps for an input of n significant tokens (calibrated on the unchanged tree,
/// see DESIGN C07): generous polynomial.
pub fn tick_budget(ntok: u64) -> u64 {
    20_000 + 400 * ntok + ntok * ntok
}

pub fn clip(s: &str, n: usize) -> String {
    if s.len() <= n {
        s.to_string()
    } else {
        let mut e = n;
        while !s.is_char_boundary(e) {
            e -= 1;
        }
        format!("{}…", &s[..e])
    }
}

fn first_line_diff(a: &str, b: &str) -> String {
    let la: Vec<&str> = a.lines().collect();
    let lb: Vec<&str> = b.lines().collect();
    for i in 0..la.len().max(lb.len()) {
        let x = la.get(i).copied().unwrap_or("<eof>");
        let y = lb.get(i).copied().unwrap_or("<eof>");
        if x != y {
            return format!("line {}: pass1 {:?} vs pass2 {:?}", i + 1, clip(x, 120), clip(y, 120));
        }
    }
    "outputs differ only in line endings / final newline".to_string()
}

pub fn run_item(work: &Work, ctx: &mut Ctx, prop: &str, i: usize) {
    let fam = families(prop);
    let p = prop.to_string();
    work.run_item(&fam, ctx, i, &mut |ctx, ev| check(ctx, &p, ev));
}

pub fn n_items(work: &Work, ctx: &Ctx, prop: &str) -> usize {
    work.n_items(&families(prop), ctx.tier)
}
