//! C09 — range formatting touches only statements wholly inside the range.
//!
//! For a program p, configuration c and range [s,e]: A = maximal statements wholly inside [s,e]
//! (from the input parse). The input with the spans of A (leading trivia start … trailing trivia /
//! semicolon end; adjacent spans merged) cut out gives segments seg0 … segk. The range output must
//! be seg0 R1 seg1 … Rk segk (seg0 a prefix, segk a suffix, the others found in order — unique
//! identifiers make this unambiguous) and each Ri, with blank lines at its ends stripped, must equal
//! the text of the same statements in the whole-file output.
use crate::cfg::{self, Cfg};
use crate::ctx::{case_json, Ctx};
use crate::fmt::{self, Range};
use crate::gen;
use crate::libwork::Work;
use crate::rng::Rng;
use crate::stmts::{self, StmtInfo};
use serde_json::json;

pub struct W {
    pub work: Work,
}

pub fn n_items(w: &W, ctx: &Ctx) -> usize {
    let seeded = if ctx.quick() { 400 } else { 30000 };
    w.work.corpus.len() + templates().len() + seeded
}

fn strip_blank(s: &str) -> &str {
    // strip leading blank lines and trailing whitespace/newlines
    let mut a = 0;
    loop {
        match s[a..].find('\n') {
            Some(p) if s[a..a + p].trim().is_empty() => a += p + 1,
            _ => break,
        }
    }
    s[a..].trim_end()
}

/// regions of A: merged cut spans, each with the list of statement indexes it covers
fn regions(infos: &[StmtInfo], s: usize, e: usize) -> Vec<(usize, usize, Vec<usize>)> {
    let mut in_a = vec![false; infos.len()];
    for (k, st) in infos.iter().enumerate() {
        let inside = st.start >= s && st.end <= e;
        let parent_in = st.parent.map(|p| in_a[p]).unwrap_or(false);
        // pre-order: parents come first; a statement is in A if it is inside and no ancestor is
        if inside && !parent_in && !ancestor_in(infos, &in_a, k) {
            in_a[k] = true;
        }
    }
    let mut spans: Vec<(usize, usize, Vec<usize>)> = Vec::new();
    for (k, st) in infos.iter().enumerate() {
        if !in_a[k] {
            continue;
        }
        let (a, b) = (st.lead_start, st.trail_end.max(st.semi_end));
        match spans.last_mut() {
            Some(last) if a <= last.1 => {
                last.1 = last.1.max(b);
                last.2.push(k);
            }
            _ => spans.push((a, b, vec![k])),
        }
    }
    spans
}

fn ancestor_in(infos: &[StmtInfo], in_a: &[bool], k: usize) -> bool {
    let mut p = infos[k].parent;
    while let Some(x) = p {
        if in_a[x] {
            return true;
        }
        p = infos[x].parent;
    }
    false
}

pub fn check_range(ctx: &mut Ctx, id: &str, src: &str, c: &Cfg, range: (Option<usize>, Option<usize>), family: &str) {
    // A text that starts with a byte order mark is not a program for the parser. Should the library
    // accept it all the same, the range still counts bytes of the text as given: the statements
    // are located in the text without the mark and shifted by its length.
    const BOM: &str = "\u{feff}";
    let (body, shift) = match src.strip_prefix(BOM) {
        Some(rest) => (rest, BOM.len()),
        None => (src, 0),
    };
    let ast = match fmt::parse(body, c) {
        Some(a) => a,
        None => return,
    };
    let infos = stmts::collect(&ast);
    if shift > 0 {
        if ctx.eval(&format!("{id}#bom-probe"), src, c, None, false).result.is_err() {
            ctx.count("bom.rejected_by_library");
            return;
        }
    }
    let full_src = src;
    let full_range = range;
    // from here on the judged text is the text without the mark and the range is counted in it
    let src = body;
    let range = (range.0.map(|x| x.saturating_sub(shift)), range.1.map(|x| x.saturating_sub(shift)));
    let s = range.0.unwrap_or(0);
    let e = range.1.unwrap_or(usize::MAX);
    let regs = regions(&infos, s, e);
    let r: Range = Some(full_range);
    let strip = |t: String| -> String { if shift > 0 { t.strip_prefix(BOM).map(|x| x.to_string()).unwrap_or(t) } else { t } };
    let out_range = match ctx.eval(id, full_src, c, r, false).result {
        Ok(t) => strip(t),
        Err(_) => {
            ctx.inconclusive("range run did not return Ok");
            return;
        }
    };
    let out_full = match ctx.eval(&format!("{id}#full"), full_src, c, None, false).result {
        Ok(t) => strip(t),
        Err(_) => {
            ctx.inconclusive("whole-file run did not return Ok");
            return;
        }
    };
    ctx.count(&format!("regions.{}", regs.len().min(4)));
    let eof_in_range = e >= src.len();
    let case = || {
        let mut v = case_json(id, full_src, c, r);
        v["family"] = json!(family);
        v
    };
    let kinds = |ks: &Vec<usize>| -> String { infos[ks[0]].kind.to_string() };
    let sig_ctx = |ks: Option<&Vec<usize>>| -> String {
        match ks {
            Some(ks) => format!("{}:depth{}", kinds(ks), infos[ks[0]].depth.min(3)),
            None => "none".to_string(),
        }
    };

    // Known finding (root cause in full_moon's Node::end_position, which StyLua's range test uses):
    // for a statement that ends in a closing bracket the reported end lies before the bracket, so a
    // range that ends 1-2 bytes short of such a statement still formats it.
    // More generally the reported end of some nodes (e.g. Luau typed for loops) is not their last
    // token, so a range that ends strictly inside a statement that starts inside the range may
    // still format it. Mid-statement range ends are generated by the pinned families only.
    let edge = infos.iter().any(|st| st.start >= s && e < st.end && e > st.start);
    let untouched_sig = |default: String| -> String {
        if edge {
            "C09:range-end-inside-statement".to_string()
        } else {
            default
        }
    };

    if regs.is_empty() {
        // nothing wholly inside: the whole text must be unchanged (modulo the end of file when
        // the end of the file is in range)
        let same = if eof_in_range { out_range.trim_end() == src.trim_end() } else { out_range == src };
        if !same {
            let d = first_diff(src, &out_range);
            ctx.finding("untouched", &untouched_sig(format!("C09:untouched:no-statement-in-range:{family}")), &d, case());
        }
        return;
    }

    // whole-file output: same statements by pre-order index
    let infos_full = match fmt::parse(&out_full, c) {
        Some(a) => stmts::collect(&a),
        None => {
            ctx.inconclusive("whole-file output does not parse (C01's business)");
            return;
        }
    };
    if infos_full.len() != infos.len() {
        ctx.inconclusive("statement count differs between input and whole-file output");
        return;
    }

    // walk the output: seg0 R1 seg1 ... Rk segk, where each Ri is known from the whole-file output
    let is_ws = |t: &str| t.chars().all(|c| c == ' ' || c == '\t' || c == '\r' || c == '\n');
    let seg0 = &src[..regs[0].0];
    if !out_range.starts_with(seg0) {
        let d = format!("text before the first affected statement was changed; {}", first_diff(src, &out_range));
        ctx.finding("untouched", &untouched_sig(format!("C09:untouched-before:{}:{family}", sig_ctx(Some(&regs[0].2)))), &d, case());
        return;
    }
    let mut pos = seg0.len();
    for (ri, (_a, b, ks)) in regs.iter().enumerate() {
        // expected text of the region = the same statements in the whole-file output
        let first = &infos_full[ks[0]];
        let last = &infos_full[*ks.last().unwrap()];
        let (fa, fb) = (first.lead_start, last.trail_end.max(last.semi_end));
        if fa > fb || fb > out_full.len() {
            ctx.inconclusive("bad span in whole-file output");
            return;
        }
        // a parent that the whole-file run collapsed onto one line changes the region's layout
        // legitimately (the range run does not format the parent): not judged
        if infos_full[ks[0]].parent.is_some() && !stmts::starts_own_line(&out_full, first.start.min(out_full.len())) {
            // (the whole-file run put the statement on its parent's line: collapse_simple_statement)
            ctx.count("unjudged.parent_collapsed_in_whole_file_run");
            return;
        }
        // the region as the whole-file run printed it, including the blank line(s) in front of it
        // (trailing whitespace is matched loosely below). A region at the very start of its block
        // is compared without leading blank lines: whether "first statement of the block" applies
        // depends on out-of-range siblings.
        let first_in_block = infos[ks[0]].index_in_block == 0;
        let core_full = out_full[fa..fb].trim_end();
        let core = if first_in_block { strip_blank(&out_full[fa..fb]) } else { core_full };
        let mut q = pos;
        if first_in_block {
            loop {
                match out_range[q..].find('\n') {
                    Some(p) if is_ws(&out_range[q..q + p]) => q += p + 1,
                    _ => break,
                }
            }
        }
        ctx.count("regions_compared");
        if c.sort_requires && !out_range[q..].starts_with(core) {
            // with require sorting the whole-file run may permute the statements, so "the same
            // statement by position" is not comparable; only the untouched text is judged here
            // (C12 judges the order)
            ctx.count("unjudged.region_under_sort_requires");
            return;
        }
        if !out_range[q..].starts_with(core) {
            // diagnose: what the range run produced for this region (up to the next segment)
            let next_seg_start = *b;
            let next_seg_end = regs.get(ri + 1).map(|r| r.0).unwrap_or(src.len());
            let next_seg = &src[next_seg_start..next_seg_end];
            let got_end = if next_seg.trim().is_empty() { out_range.len() } else { out_range[q..].find(next_seg.trim_start()).map(|p| p + q).unwrap_or(out_range.len()) };
            let got = strip_blank(&out_range[q..got_end]);
            let unindent = |t: &str| t.lines().map(|l| l.trim_start()).collect::<Vec<_>>().join("\n");
            let class = if strip_blank(got) == strip_blank(core) {
                "blank-lines-before"
            } else if unindent(got) == unindent(core) {
                "indent-only"
            } else {
                "layout"
            };
            let anon = infos[ks[0]].anon_fn_depth > 0;
            let sg = if anon {
                // the block-only recursion used for out-of-range parents reaches function
                // expressions with the wrong indentation, or not at all (known finding D13)
                let _ = class;
                "C09:in-anonymous-function".to_string()
            } else {
                format!("C09:differs-from-whole-file:{class}:{}:{family}", sig_ctx(Some(ks)))
            };
            let d = format!("in-range statements differ from whole-file formatting ({class}): range output {:?} vs whole-file {:?}", clip(got, 200), clip(core, 200));
            ctx.finding("same-as-whole-file", &sg, &d, case());
            return;
        }
        let after = q + core.len();
        // next segment must follow after the region's line ending / blank lines
        let next_seg_end = regs.get(ri + 1).map(|r| r.0).unwrap_or(src.len());
        let seg = &src[*b..next_seg_end];
        let is_last = ri + 1 == regs.len();
        let mut matched = None;
        let mut r = after;
        loop {
            let rest = &out_range[r..];
            let ok = if is_last {
                if eof_in_range { rest.trim_end() == seg.trim_end() } else { rest == seg }
            } else {
                rest.starts_with(seg)
            };
            if ok {
                matched = Some(r);
                break;
            }
            match out_range[r..].chars().next() {
                Some(c) if c == ' ' || c == '\t' || c == '\r' || c == '\n' => r += 1,
                _ => break,
            }
        }
        match matched {
            Some(r) => pos = r + seg.len().min(out_range.len() - r),
            None => {
                if infos[ks[0]].anon_fn_depth > 0 {
                    let d = format!("statements inside a function expression were left unformatted although in range: after region {} expected {:?}, found {:?}", ri, clip(seg, 120), clip(&out_range[after..], 120));
                    ctx.finding("same-as-whole-file", "C09:in-anonymous-function", &d, case());
                    return;
                }
                let what = if is_last { "untouched-after" } else { "untouched" };
                let d = format!("out-of-range text after region {} was changed: expected {:?} to follow, found {:?}", ri, clip(seg, 160), clip(&out_range[after..], 160));
                ctx.finding("untouched", &untouched_sig(format!("C09:{what}:{}:{family}", sig_ctx(Some(ks)))), &d, case());
                return;
            }
        }
    }
    if ctx.samples.len() < 3 && src.len() < 300 {
        ctx.sample(json!({"input": src, "range": [range.0, range.1], "output": out_range, "statements_in_range": regs.iter().map(|r| r.2.len()).sum::<usize>()}));
    }
}

fn clip(s: &str, n: usize) -> String {
    crate::props::libprops::clip(s, n)
}

fn first_diff(a: &str, b: &str) -> String {
    let la: Vec<&str> = a.split('\n').collect();
    let lb: Vec<&str> = b.split('\n').collect();
    for i in 0..la.len().max(lb.len()) {
        let x = la.get(i).copied().unwrap_or("<eof>");
        let y = lb.get(i).copied().unwrap_or("<eof>");
        if x != y {
            return format!("first differing line {}: input {:?} vs output {:?}", i + 1, clip(x, 100), clip(y, 100));
        }
    }
    "no differing line".to_string()
}

fn templates() -> Vec<(&'static str, &'static str)> {
    vec![
        ("nested-fn-in-table", "local t = {\n  f = function()\n      local   a  =  1\n      local b   = 2\n  end,\n}\n"),
        ("nested-fn-in-call", "call(function()\n      local   a  =  1\n      local b   = 2\nend)\n"),
        ("nested-fn-in-call-args", "call(x, {\n  key = function(p)\n      if   p then\n   return   1\n      end\n  end,\n})\n"),
        ("neighbour-semicolon", "local a   =  1;\nlocal   b =  2;\nlocal c  =   3;\n"),
        ("neighbour-paren", "local a   =  f;\n(g)()\nlocal   b =  2\n(h)()\n"),
        ("neighbour-comments", "local a   =  1 -- c1\n-- own\nlocal   b =  2 --[[ c2 ]]\nlocal c  =   3\n"),
        ("do-blocks", "do\n   local   a = 1\n do\n     local  b  = 2\n   end\n    local c =   3\nend\n"),
        ("if-chain", "if   a then\n   x  = 1\nelseif  b   then\n     y =  2\nelse\n  z   = 3\nend\n"),
        ("loops", "for i  = 1,  10 do\n    x  = i\nend\nwhile   true do\n   y =  1\nend\nrepeat\n    z  =  1\nuntil   done\n"),
        ("functions", "local function   f( a,b )\n   return   a+b\nend\nfunction   g.h:i( )\n    local x   = 1\nend\n"),
        ("eof-comment", "local   a = 1\nlocal b   = 2\n-- trailing comment at eof   \n\n\n"),
        ("no-final-newline", "local   a = 1\nlocal b   = 2"),
        ("blank-before-in-range", "local a   =  1\n\nlocal   b = 2\n\n\nlocal c  =   3\ndo\n  local x   = 1\n\n  local   y = 2\nend\n"),
        ("multibyte", "-- ✓✓✓✓✓✓✓✓✓✓✓✓✓✓✓✓✓✓✓✓✓✓✓✓\nlocal   a  =  'é'\nlocal   b  =  2\nlocal   c =   3 -- ü\n"),
        ("requires", "local zebra   =   require(\"zebra\")\nlocal apple =   require(\"apple\")\nlocal   mango = require(\"mango\")\nlocal x   = 1\n"),
    ]
}

pub fn run_item(w: &W, ctx: &mut Ctx, mut i: usize) {
    let quick = ctx.quick();
    if i < w.work.corpus.len() {
        let file = &w.work.corpus[i];
        let c = Cfg::with_syntax(file.syntax);
        let ast = match fmt::parse(&file.text, &c) {
            Some(a) => a,
            None => return,
        };
        let infos = stmts::collect(&ast);
        let top: Vec<&StmtInfo> = infos.iter().filter(|s| s.depth == 0).collect();
        let nested: Vec<&StmtInfo> = infos.iter().filter(|s| s.depth > 0).collect();
        let mut ranges: Vec<(Option<usize>, Option<usize>)> = Vec::new();
        let n = file.text.len();
        if !top.is_empty() {
            let k = top.len();
            // statement-aligned: one statement, a run, open-ended on both sides
            ranges.push((Some(top[k / 2].start), Some(top[k / 2].end)));
            ranges.push((Some(top[k / 3].start), Some(top[(2 * k / 3).min(k - 1)].end)));
            ranges.push((Some(top[k / 2].start), None));
            ranges.push((None, Some(top[k / 2].end)));
            // mid-token: one byte into the first statement of the run / one byte short of the end
            ranges.push((Some(top[k / 3].start + 1), Some(top[(2 * k / 3).min(k - 1)].end)));
            ranges.push((Some(top[k / 3].start), Some(top[(2 * k / 3).min(k - 1)].end.saturating_sub(1))));
        }
        for (j, st) in nested.iter().enumerate() {
            if j % (if quick { 7 } else { 2 }) == 0 && ranges.len() < if quick { 9 } else { 40 } {
                ranges.push((Some(st.start), Some(st.end)));
            }
        }
        ranges.push((Some(n / 2), Some(n / 2))); // empty-ish
        ranges.push((Some(n + 10), None)); // beyond the end
        for (ri, r) in ranges.into_iter().enumerate() {
            if quick && ri % 2 == 1 && ri > 2 {
                continue;
            }
            check_range(ctx, &format!("c09:corpus:{}:{ri}", file.name), &file.text, &c, r, "corpus");
        }
        return;
    }
    i -= w.work.corpus.len();
    let ts = templates();
    if i < ts.len() {
        let (name, text) = ts[i];
        let c0 = Cfg::with_syntax("Lua51");
        if let Some(ast) = fmt::parse(text, &c0) {
            let infos = stmts::collect(&ast);
            // every single statement and every pair (a.start, b.end) of statements
            for a in 0..infos.len() {
                for b in a..infos.len() {
                    if infos[b].end < infos[a].start {
                        continue;
                    }
                    for w_ in [120usize, 20] {
                        for collapse in ["Never", "Always"] {
                            let mut c = c0.clone();
                            c.column_width = w_;
                            c.collapse_simple_statement = collapse;
                            c.sort_requires = name == "requires";
                            check_range(ctx, &format!("c09:tmpl:{name}:{a}-{b}:w{w_}:{collapse}"), text, &c, (Some(infos[a].start), Some(infos[b].end)), name);
                            // the same range with its end moved into the gap behind the last
                            // statement: up to the byte before the next statement (or before the
                            // end of the file). Nothing more is in range, nothing more may change.
                            let next = infos.iter().map(|s| s.start).filter(|s| *s > infos[b].end).min().unwrap_or(text.len());
                            if next > infos[b].end + 1 && w_ == 120 {
                                for e2 in [infos[b].trail_end.max(infos[b].end).min(next - 1), next - 1] {
                                    if e2 > infos[b].end {
                                        check_range(ctx, &format!("c09:tmpl:{name}:{a}-{b}+gap{e2}:{collapse}"), text, &c, (Some(infos[a].start), Some(e2)), name);
                                        check_range(ctx, &format!("c09:tmpl:{name}:open-{b}+gap{e2}:{collapse}"), text, &c, (None, Some(e2)), name);
                                    }
                                }
                            }
                        }
                    }
                }
            }
            // ranges that start at the beginning of the text (given as 0 and left open)
            for b in 0..infos.len() {
                check_range(ctx, &format!("c09:tmpl:{name}:0-{b}"), text, &c0, (Some(0), Some(infos[b].end)), name);
                check_range(ctx, &format!("c09:tmpl:{name}:open-{b}"), text, &c0, (None, Some(infos[b].end)), name);
            }
            // the same text behind a byte order mark, every single statement as the range (+3 bytes)
            let with_bom = format!("{}{text}", "\u{feff}");
            for a in 0..infos.len() {
                check_range(ctx, &format!("c09:tmpl:{name}:bom:{a}"), &with_bom, &c0, (Some(infos[a].start + 3), Some(infos[a].end + 3)), name);
            }
            check_range(ctx, &format!("c09:tmpl:{name}:open"), text, &c0, (Some(text.len() / 2), None), name);
            check_range(ctx, &format!("c09:tmpl:{name}:inverted"), text, &c0, (Some(text.len() / 2), Some(1)), name);
        }
        return;
    }
    i -= ts.len();
    // seeded: generated programs (tame rendering inside statements keeps the oracle about ranges,
    // hostile spacing is what makes "unchanged" observable) x statement-aligned ranges
    let mut rng = Rng::derive(ctx.seed, 0xc09, i as u64);
    let syntax = *rng.pick(&cfg::SYNTAXES);
    let plain = gen::program(&mut rng, syntax);
    // one program in three gets an untidy end of file (blank lines, a comment with trailing
    // blanks) for the ranges that end before it: there it is out of range and must stay as it is.
    // (Appended text does not move any statement offset; ranges that reach the end of the text
    // use the plain program, for them the end of file is in range and is formatted.)
    let mut prog = plain.clone();
    if prog.ends_with('\n') && rng.chance(1, 3) {
        prog.push_str(rng.pick_s(&["\n\n", "-- tail   \n\n\n", "\n--[[ block ]]  \n", "   \n", "\n\n-- a\n\n\n-- b  \n"]));
    }
    let mut c = Cfg::random(&mut rng, syntax, 40);
    c.sort_requires = false;
    let ast = match fmt::parse(&prog, &c) {
        Some(a) => a,
        None => {
            ctx.count("gen.rejected_by_parser");
            return;
        }
    };
    let infos = stmts::collect(&ast);
    if infos.is_empty() {
        return;
    }
    for _ in 0..4 {
        let a = rng.below(infos.len());
        let b = rng.below(infos.len());
        let (a, b) = if infos[a].start <= infos[b].start { (a, b) } else { (b, a) };
        let s = infos[a].start;
        let mut e = infos[b].end.max(infos[a].end);
        // one range in four ends somewhere in the gap behind its last statement (before the next
        // statement starts / before the end of the text): still no further statement in range
        if rng.chance(1, 4) {
            let next = infos.iter().map(|st| st.start).filter(|st| *st > e).min().unwrap_or(prog.len());
            if next > e + 1 {
                e += 1 + rng.below(next - e - 1);
                ctx.count("gen.range_end_in_gap");
            }
        }
        // off-by-one (mid-token) ranges are exercised by the pinned families only: whether a
        // statement ending in a closing bracket counts as inside depends on full_moon's
        // end_position (known finding)
        match rng.below(8) {
            2 => {
                check_range(ctx, &format!("c09:gen:{}:{i}:open-end", ctx.seed), &plain, &c, (Some(s), None), "gen");
                continue;
            }
            3 => {
                check_range(ctx, &format!("c09:gen:{}:{i}:open-start", ctx.seed), &prog, &c, (None, Some(e)), "gen");
                continue;
            }
            _ => {}
        }
        check_range(ctx, &format!("c09:gen:{}:{i}:{s}-{e}", ctx.seed), &prog, &c, (Some(s), Some(e)), "gen");
    }
}

pub fn replay(ctx: &mut Ctx, case: &serde_json::Value) {
    let src = case["src"].as_str().unwrap_or("");
    let c = Cfg::from_json(&case["cfg"]).unwrap_or_default();
    if let Some(r) = crate::ctx::range_from_json(&case["range"]) {
        check_range(ctx, "replay", src, &c, r, case["family"].as_str().unwrap_or("replay"));
    }
}
