//! C12 — require sorting only permutes statements inside a require block.
//!
//! Independent model (from the module's documented rules): classify top-level statements
//! (`local NAME = require…`, `local NAME = game:GetService…`, optionally under a Luau type
//! assertion); a group is a maximal run of consecutive members of the same kind where each member
//! starts at most one line after the previous one ends; a group with an ignored or out-of-range
//! member is frozen; expected order = stable byte-wise sort by NAME inside each group, everything
//! else in place. Oracle: the sequence of per-statement normal forms of the output must equal the
//! model's sequence; the comment census must be unchanged.
use crate::cfg::Cfg;
use crate::ctx::{case_json, Ctx};
use crate::fmt::{self, Range};
use crate::lex;
use crate::libwork::Work;
use crate::nf;
use crate::oracles;
use crate::rng::Rng;
use crate::stmts;
use full_moon::ast::*;
use full_moon::node::Node;
use serde_json::json;

#[derive(Clone, Copy, PartialEq, Eq, Debug)]
enum Kind {
    Require,
    GetService,
}

fn expr_kind(e: &Expression) -> Option<Kind> {
    match e {
        Expression::FunctionCall(fc) => {
            let name = match fc.prefix() {
                Prefix::Name(t) => t.token().to_string(),
                _ => return None,
            };
            if name == "require" {
                Some(Kind::Require)
            } else if name == "game" {
                match fc.suffixes().next() {
                    Some(Suffix::Call(Call::MethodCall(m))) if m.name().token().to_string() == "GetService" => Some(Kind::GetService),
                    _ => None,
                }
            } else {
                None
            }
        }
        Expression::TypeAssertion { expression, .. } => expr_kind(expression),
        _ => None,
    }
}

struct Top {
    member: Option<(Kind, String)>,
    start_line: usize,
    end_line: usize,
    ignored: bool,
    in_range: bool,
}

fn tops(src: &str, ast: &Ast, range: Range) -> Vec<Top> {
    let infos = stmts::collect(ast);
    let top_infos: Vec<&stmts::StmtInfo> = infos.iter().filter(|s| s.depth == 0 && !s.is_last_stmt).collect();
    // ignore model (same as C08's): per top-level block
    let mut disabled = false;
    let mut out = Vec::new();
    for (st, info) in ast.nodes().stmts().zip(top_infos.iter()) {
        let member = match st {
            Stmt::LocalAssignment(la) if la.names().len() == 1 && la.expressions().len() == 1 => {
                let name = la.names().iter().next().unwrap().token().to_string();
                expr_kind(la.expressions().iter().next().unwrap()).map(|k| (k, name))
            }
            _ => None,
        };
        let lead = &src[info.lead_start.min(src.len())..info.start.min(src.len())];
        let mut single = false;
        if let Ok(lx) = lex::lex(lead) {
            for v in lx.trivia() {
                let raw = &lead[v.start..v.end];
                let body: String = match v.kind {
                    lex::TrivKind::LineComment => raw[2..].to_string(),
                    lex::TrivKind::BlockComment(level) => raw[2 + level + 2..raw.len() - level - 2].to_string(),
                    _ => continue,
                };
                for line in body.lines().map(|l| l.trim()) {
                    match line {
                        "stylua: ignore start" => disabled = true,
                        "stylua: ignore end" => disabled = false,
                        "stylua: ignore" => single = true,
                        _ => {}
                    }
                }
            }
        }
        let in_range = match range {
            None => true,
            Some((s, e)) => info.start >= s.unwrap_or(0) && info.end <= e.unwrap_or(usize::MAX),
        };
        let sl = st.start_position().map(|p| p.line()).unwrap_or(0);
        let el = src[..info.end.min(src.len())].matches('\n').count() + 1;
        out.push(Top { member, start_line: sl, end_line: el, ignored: disabled || single, in_range });
    }
    out
}

/// expected permutation (indices into the input's top-level statement list) and, per group,
/// whether it was frozen and why
fn expected_order(t: &[Top]) -> (Vec<usize>, Vec<&'static str>) {
    let mut order: Vec<usize> = Vec::new();
    let mut notes = Vec::new();
    let mut i = 0;
    while i < t.len() {
        match &t[i].member {
            None => {
                order.push(i);
                i += 1;
            }
            Some((kind, _)) => {
                let mut j = i + 1;
                while j < t.len() {
                    match &t[j].member {
                        Some((k2, _)) if k2 == kind && t[j].start_line <= t[j - 1].end_line + 1 => j += 1,
                        _ => break,
                    }
                }
                let frozen = if t[i..j].iter().any(|x| x.ignored) {
                    Some("ignored-member")
                } else if t[i..j].iter().any(|x| !x.in_range) {
                    Some("out-of-range-member")
                } else {
                    None
                };
                let mut idx: Vec<usize> = (i..j).collect();
                if frozen.is_none() {
                    idx.sort_by(|a, b| t[*a].member.as_ref().unwrap().1.as_bytes().cmp(t[*b].member.as_ref().unwrap().1.as_bytes()));
                    if j - i > 1 {
                        notes.push("sorted-group");
                    }
                } else {
                    notes.push(frozen.unwrap());
                }
                order.extend(idx);
                i = j;
            }
        }
    }
    (order, notes)
}

pub fn check(ctx: &mut Ctx, id: &str, src: &str, c: &Cfg, range: Range, family: &str) {
    let ast = match fmt::parse(src, c) {
        Some(a) => a,
        None => return,
    };
    let t = tops(src, &ast, range);
    let n_in = nf::normal_form(&ast, c.int_subtype());
    let has_last = ast.nodes().last_stmt().is_some();
    let n_top = t.len() + if has_last { 1 } else { 0 };
    if n_in.stmts.len() != n_top {
        ctx.inconclusive("statement inventories disagree");
        return;
    }
    let out = match ctx.eval(id, src, c, range, false).result {
        Ok(o) => o,
        Err(_) => {
            ctx.inconclusive("did not format");
            return;
        }
    };
    let out_ast = match fmt::parse(&out, c) {
        Some(a) => a,
        None => {
            ctx.inconclusive("output does not parse (C01's business)");
            return;
        }
    };
    let n_out = nf::normal_form(&out_ast, c.int_subtype());
    let case = || {
        let mut v = case_json(id, src, c, range);
        v["family"] = json!(family);
        v
    };
    let (order, notes) = if c.sort_requires { expected_order(&t) } else { ((0..t.len()).collect(), vec![]) };
    for n in &notes {
        ctx.count(&format!("groups.{n}"));
    }
    let mut expect: Vec<&String> = order.iter().map(|k| &n_in.stmts[*k]).collect();
    if has_last {
        expect.push(n_in.stmts.last().unwrap());
    }
    let got: Vec<&String> = n_out.stmts.iter().collect();
    if expect != got {
        // classify
        let names = |v: &Vec<&String>| -> Vec<String> {
            v.iter().map(|s| s.split_whitespace().nth(3).unwrap_or("?").to_string()).collect()
        };
        let same_multiset = {
            let mut a: Vec<&String> = expect.clone();
            let mut b: Vec<&String> = got.clone();
            a.sort();
            b.sort();
            a == b
        };
        let feature = if !c.sort_requires {
            "order-changed-with-option-off"
        } else if !same_multiset {
            "statement-lost-or-changed"
        } else if notes.contains(&"ignored-member") {
            "group-with-ignored-member"
        } else if notes.contains(&"out-of-range-member") {
            "group-with-out-of-range-member"
        } else {
            "wrong-order"
        };
        let first = expect.iter().zip(got.iter()).position(|(a, b)| a != b).unwrap_or(0);
        let d = format!(
            "top-level statement order differs from the model at statement {first}: expected {:?}, got {:?}",
            names(&expect).iter().skip(first.saturating_sub(1)).take(6).collect::<Vec<_>>(),
            names(&got).iter().skip(first.saturating_sub(1)).take(6).collect::<Vec<_>>()
        );
        ctx.finding("order", &format!("C12:order:{feature}"), &d, case());
        return;
    }
    // every comment stays in the file
    if let (Ok(a), Ok(b)) = (lex::lex(src), lex::lex(&out)) {
        if let Some(d) = oracles::census_diff(&lex::comment_census(&a), &lex::comment_census(&b)) {
            // comment-slot defects unrelated to sorting are C03's business: only report when the
            // program without sorting keeps its comments
            let mut c2 = c.clone();
            c2.sort_requires = false;
            let plain = fmt::run(src, &c2, range, false, false).result.ok();
            let plain_ok = plain
                .and_then(|p| lex::lex(&p).ok().map(|l| oracles::census_diff(&lex::comment_census(&a), &lex::comment_census(&l)).is_none()))
                .unwrap_or(false);
            if plain_ok {
                ctx.finding("census", "C12:census", &d, case());
                return;
            }
        }
    }
    if ctx.samples.len() < 3 && src.len() < 500 && notes.contains(&"sorted-group") {
        ctx.sample(json!({"input": src, "output": out}));
    }
}

// ------------------------------------------------------------------------------------------------
// generator of require-heavy top levels
// ------------------------------------------------------------------------------------------------

fn member(rng: &mut Rng, luau: bool) -> String {
    let names = ["A", "a", "B", "b", "Zed", "alpha", "Alpha", "_private", "x1", "x10", "x2", "Module", "module", "React", "Roact", "utils", "Utils", "a_b", "aB", "ab"];
    let name = rng.pick_s(&names);
    let kind = rng.below(10);
    let rhs = match kind {
        0..=4 => format!("require(\"{}\")", rng.pick_s(&["path.to.mod", "b", "a", "./x", "pkg/z"])),
        5 => format!("require(script.Parent.{})", rng.pick_s(&["Foo", "Bar", "Baz", "A", "a", "Module", "utils", "React"])),
        6 => format!("require \"{}\"", rng.pick_s(&["m", "n"])),
        7 => format!("require(\"{}\").field", rng.pick_s(&["m", "n"])),
        _ => format!("game:GetService(\"{}\")", rng.pick_s(&["Players", "RunService", "Workspace"])),
    };
    let rhs = if luau && rng.chance(1, 6) { format!("{rhs} :: any") } else { rhs };
    let tail = match rng.below(8) {
        0 => ";",
        1 => " -- trailing",
        2 => "; -- after semi",
        3 => " --[[ block ]]",
        _ => "",
    };
    let sp = if rng.chance(1, 4) { "   " } else { " " };
    // an inline block comment in front of the statement travels with it
    let lead = if rng.chance(1, 10) { format!("--[[ about {name} ]] ") } else { String::new() };
    format!("{lead}local{sp}{name}{sp}={sp}{rhs}{tail}")
}

/// Statements that look like a group member but are not `local NAME = require(...)` /
/// `local NAME = game:GetService(...)`: they separate groups and never move.
fn near_member(rng: &mut Rng) -> String {
    let names = ["A", "a", "B", "b", "Zed", "alpha", "Module", "utils", "x1", "x2"];
    let n1 = rng.pick_s(&names);
    let n2 = rng.pick_s(&names);
    let m = rng.pick_s(&["b", "a", "pkg/z", "m"]);
    match rng.below(12) {
        0 => format!("local {n1}, {n2} = require(\"{m}\")"),
        1 => format!("local {n1} = require(\"{m}\"), require(\"n\")"),
        2 => format!("local {n1}, {n2} = require(\"{m}\"), require(\"n\")"),
        3 => format!("local {n1} = (require(\"{m}\"))"),
        4 => format!("local {n1} = (game:GetService(\"Players\"))"),
        5 => format!("{n1} = require(\"{m}\")"),
        6 => format!("local {n1} = require(\"{m}\") or {{}}"),
        7 => format!("local {n1} = not require(\"{m}\")"),
        8 => format!("local {n1} = obj.require(\"{m}\")"),
        9 => format!("local {n1} = game.GetService(game, \"Players\")"),
        10 => format!("local {n1} = game:FindService(\"Players\")"),
        _ => format!("local {n1} = Require(\"{m}\")"),
    }
}

pub fn program(rng: &mut Rng, luau: bool) -> String {
    let mut out = String::new();
    if rng.chance(1, 8) {
        // one large contiguous group (sorting algorithms switch strategy with the length; the 20
        // names guarantee duplicate keys, whose relative order must survive)
        let n = *rng.pick(&[21usize, 24, 33, 48, 64, 100]);
        if rng.chance(1, 3) {
            out.push_str("local first = 1\n");
        }
        let odd_at = if rng.chance(1, 3) { rng.below(n) } else { usize::MAX };
        for j in 0..n {
            if j == odd_at {
                out.push_str(&near_member(rng));
                out.push('\n');
            }
            out.push_str(&member(rng, luau));
            out.push('\n');
        }
        if rng.chance(1, 2) {
            out.push_str("return A\n");
        }
        return out;
    }
    let n = rng.range(3, 14);
    let mut region_open = false;
    let mut k = 0;
    if rng.chance(1, 5) {
        out.push_str("-- header comment\n");
    }
    while k < n {
        match rng.below(18) {
            0 => out.push('\n'),
            1 => out.push_str("-- a comment line\n"),
            16 => {
                // a block comment on a line of its own, possibly followed by an empty line
                out.push_str(if rng.chance(1, 3) { "--[[ a block\n     comment ]]\n" } else { "--[[ a block comment ]]\n" });
                if rng.chance(1, 2) {
                    out.push('\n');
                }
            }
            17 => {
                out.push_str("-- a comment line\n\n");
            }
            2 => out.push_str(&format!("local other{k} = {k}\n")),
            3 => {
                if rng.chance(1, 2) {
                    out.push_str(&format!("print({k})\n"));
                } else {
                    out.push_str(&near_member(rng));
                    out.push('\n');
                }
            }
            4 => {
                out.push_str("-- stylua: ignore\n");
                out.push_str(&member(rng, luau));
                out.push('\n');
            }
            11 => {
                // the directive as an inline block comment: the member stays inside its group
                let d = if rng.chance(1, 3) && !region_open { region_open = true; "--[[ stylua: ignore start ]] " } else { "--[[ stylua: ignore ]] " };
                out.push_str(d);
                out.push_str(&member(rng, luau));
                out.push('\n');
            }
            5 if !region_open => {
                out.push_str("-- stylua: ignore start\n");
                region_open = true;
            }
            6 if region_open => {
                out.push_str("-- stylua: ignore end\n");
                region_open = false;
            }
            7 => {
                // two members on one line
                let a = member(rng, luau);
                let b = member(rng, luau);
                if a.contains("--") {
                    out.push_str(&format!("{b}\n"));
                } else {
                    let a = a.trim_end_matches(';').to_string();
                    out.push_str(&format!("{a}; {b}\n"));
                }
            }
            8 => out.push_str(&format!("local t{k} = {{\n    x = 1,\n}}\n")),
            9 => {
                // a multi-line member
                out.push_str(&format!("local Multi{k} = require(\n    \"multi\"\n)\n"));
            }
            _ => {
                out.push_str(&member(rng, luau));
                out.push('\n');
            }
        }
        k += 1;
    }
    if region_open && rng.chance(1, 2) {
        out.push_str("-- stylua: ignore end\nlocal after = 1\n");
    }
    if rng.chance(1, 4) {
        out.push_str("return A\n");
    }
    out
}

pub fn n_items(w: &Work, ctx: &Ctx) -> usize {
    w.corpus.len() + if ctx.quick() { 6000 } else { 120000 } + PINNED.len()
}

const PINNED: [&str; 10] = [
    "local b = require(\"b\")\nlocal a = require(\"a\")\n",
    "local b = require(\"b\")\n\nlocal a = require(\"a\")\n",
    "local b = require(\"b\")\nlocal x = 1\nlocal a = require(\"a\")\n",
    "local b = require(\"b\")\nlocal a = game:GetService(\"a\")\nlocal A = game:GetService(\"A\")\n",
    "-- stylua: ignore start\nlocal b = require(\"b\")\nlocal a = require(\"a\")\n-- stylua: ignore end\nlocal z = 1\n",
    "local c = require(\"c\")\n-- stylua: ignore\nlocal b = require(\"b\")\nlocal a = require(\"a\")\n",
    "-- leading comment\nlocal b = require(\"b\") -- tb\nlocal a = require(\"a\") -- ta\n-- after\n",
    "local b = require(\"b\"); local a = require(\"a\")\nlocal B = require(\"B\")\n",
    "local a = require(\"x\")\nlocal a = require(\"y\")\nlocal A = require(\"z\")\nlocal a = require(\"w\")\n",
    "do\n  local b = require(\"b\")\n  local a = require(\"a\")\nend\nlocal d = require(\"d\")\nlocal c = require(\"c\")\nreturn c\n",
];

pub fn run_item(w: &Work, ctx: &mut Ctx, mut i: usize) {
    if i < PINNED.len() {
        for sort in [true, false] {
            for syntax in ["Lua51", "Luau"] {
                let mut c = Cfg::with_syntax(syntax);
                c.sort_requires = sort;
                check(ctx, &format!("c12:pin:{i}:{syntax}:{sort}"), PINNED[i], &c, None, &format!("pin{i}"));
            }
        }
        // ranges over the pinned programs
        let mut c = Cfg::with_syntax("Lua51");
        c.sort_requires = true;
        let n = PINNED[i].len();
        check(ctx, &format!("c12:pin:{i}:range-a"), PINNED[i], &c, Some((Some(n / 2), None)), &format!("pin{i}"));
        check(ctx, &format!("c12:pin:{i}:range-b"), PINNED[i], &c, Some((None, Some(n / 2))), &format!("pin{i}"));
        return;
    }
    i -= PINNED.len();
    if i < w.corpus.len() {
        let file = &w.corpus[i];
        for sort in [true, false] {
            let mut c = Cfg::with_syntax(file.syntax);
            c.sort_requires = sort;
            check(ctx, &format!("c12:corpus:{}:{sort}", file.name), &file.text, &c, None, "corpus");
        }
        return;
    }
    i -= w.corpus.len();
    let mut rng = Rng::derive(ctx.seed, 0xc12, i as u64);
    let luau = rng.chance(1, 3);
    let prog = program(&mut rng, luau);
    let syntax: &'static str = if luau { "Luau" } else { rng.pick_s(&["Lua51", "All", "Lua54"]) };
    let mut c = Cfg::random(&mut rng, syntax, 40);
    c.sort_requires = !rng.chance(1, 8);
    if !fmt::parses(&prog, &c) {
        ctx.count("gen.rejected_by_parser");
        return;
    }
    let range = if rng.chance(1, 6) {
        let a = rng.below(prog.len());
        let b = rng.below(prog.len());
        Some((Some(a.min(b)), Some(a.max(b))))
    } else {
        None
    };
    check(ctx, &format!("c12:gen:{}:{i}", ctx.seed), &prog, &c, range, "gen");
}

pub fn replay(ctx: &mut Ctx, case: &serde_json::Value) {
    let src = case["src"].as_str().unwrap_or("");
    let c = Cfg::from_json(&case["cfg"]).unwrap_or_default();
    check(ctx, "replay", src, &c, crate::ctx::range_from_json(&case["range"]), case["family"].as_str().unwrap_or("replay"));
}
