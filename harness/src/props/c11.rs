//! C11 — quote_style, call_parentheses and space_after_function_names are honoured.
//!
//! The output of every evaluation is re-lexed (quotes) and re-parsed (calls, function headers) and
//! each string token / call site / function header is judged against the rule of its option value.
use crate::cfg::{self, Cfg};
use crate::ctx::{case_json, Ctx};
use crate::fmt;
use crate::gen;
use crate::lex::{self, TokKind};
use crate::libwork::Work;
use crate::mutate;
use crate::rng::Rng;
use full_moon::ast::*;
use full_moon::node::Node;
use full_moon::visitors::Visitor;
use serde_json::json;

#[derive(Debug, Clone, PartialEq)]
enum ArgForm {
    Parens,
    StringSugar,
    TableSugar,
}

#[derive(Debug, Clone)]
struct CallSite {
    form: ArgForm,
    /// for Parens: Some("string"|"table") when the sole argument is a plain string / table literal
    sole: Option<&'static str>,
    obscure: bool,
    has_comment: bool,
    /// byte offset of `(` (Parens) in the text
    paren_at: Option<usize>,
    /// a method call (`a:b(...)`)
    method: bool,
    /// the sole argument is a string / table literal wrapped in redundant parentheses
    wrapped_sole: bool,
}

#[derive(Debug, Clone)]
struct Header {
    paren_at: usize,
    generics: bool,
    kind: &'static str,
}

#[derive(Default)]
struct Sites {
    calls: Vec<CallSite>,
    headers: Vec<Header>,
}

fn args_site(args: &FunctionArgs, obscure: bool, method: bool) -> CallSite {
    match args {
        FunctionArgs::Parentheses { parentheses, arguments } => {
            let mut wrapped_sole = false;
            let sole = if arguments.len() == 1 {
                match arguments.iter().next().unwrap() {
                    Expression::String(_) => Some("string"),
                    Expression::TableConstructor(_) => Some("table"),
                    Expression::Parentheses { expression, .. } => {
                        let mut e: &Expression = expression;
                        while let Expression::Parentheses { expression, .. } = e {
                            e = expression;
                        }
                        wrapped_sole = matches!(e, Expression::String(_) | Expression::TableConstructor(_));
                        None
                    }
                    _ => None,
                }
            } else {
                None
            };
            let (open, close) = parentheses.tokens();
            let mut has_comment = false;
            let is_c = |t: &full_moon::tokenizer::Token| {
                matches!(t.token_kind(), full_moon::tokenizer::TokenKind::SingleLineComment | full_moon::tokenizer::TokenKind::MultiLineComment)
            };
            if open.trailing_trivia().any(is_c) || close.leading_trivia().any(is_c) || open.leading_trivia().any(is_c) {
                has_comment = true;
            }
            for a in arguments.iter() {
                let (l, t) = a.surrounding_trivia();
                if l.iter().any(|x| is_c(x)) || t.iter().any(|x| is_c(x)) {
                    has_comment = true;
                }
            }
            CallSite {
                form: ArgForm::Parens,
                sole,
                obscure,
                has_comment,
                paren_at: Some(open.token().start_position().bytes()),
                method,
                wrapped_sole,
            }
        }
        FunctionArgs::String(_) => CallSite { form: ArgForm::StringSugar, sole: Some("string"), obscure, has_comment: false, paren_at: None, method, wrapped_sole: false },
        FunctionArgs::TableConstructor(_) => CallSite { form: ArgForm::TableSugar, sole: Some("table"), obscure, has_comment: false, paren_at: None, method, wrapped_sole: false },
        _ => CallSite { form: ArgForm::Parens, sole: None, obscure, has_comment: true, paren_at: None, method, wrapped_sole: false },
    }
}

fn suffix_sites<'a, I: Iterator<Item = &'a Suffix>>(out: &mut Vec<CallSite>, suffixes: I) {
    let v: Vec<&Suffix> = suffixes.collect();
    for (i, s) in v.iter().enumerate() {
        let obscure = matches!(v.get(i + 1), Some(Suffix::Index(_)) | Some(Suffix::Call(Call::MethodCall(_))));
        if let Suffix::Call(c) = s {
            match c {
                Call::AnonymousCall(a) => out.push(args_site(a, obscure, false)),
                Call::MethodCall(m) => out.push(args_site(m.args(), obscure, true)),
                _ => {}
            }
        }
    }
}

impl Visitor for Sites {
    fn visit_function_call(&mut self, n: &FunctionCall) {
        suffix_sites(&mut self.calls, n.suffixes());
    }
    fn visit_var_expression(&mut self, n: &VarExpression) {
        suffix_sites(&mut self.calls, n.suffixes());
    }
    fn visit_function_declaration(&mut self, n: &FunctionDeclaration) {
        self.header(n.body(), "declaration");
    }
    fn visit_local_function(&mut self, n: &LocalFunction) {
        self.header(n.body(), "local-function");
    }
    fn visit_expression(&mut self, n: &Expression) {
        if let Expression::Function(f) = n {
            self.header(&f.1, "anonymous");
        }
    }
    fn visit_type_function(&mut self, n: &luau::TypeFunction) {
        self.header(n.function_body(), "type-function");
    }
}

impl Sites {
    fn header(&mut self, body: &FunctionBody, kind: &'static str) {
        let open = body.parameters_parentheses().tokens().0;
        self.headers.push(Header {
            paren_at: open.token().start_position().bytes(),
            generics: body.generics().is_some(),
            kind,
        });
    }
}

fn sites_of(text: &str, c: &Cfg) -> Option<Sites> {
    let ast = fmt::parse(text, c)?;
    let mut s = Sites::default();
    s.visit_ast(&ast);
    Some(s)
}

/// Judge one output. `input` is needed for call_parentheses = Input.
pub fn judge(ctx: &mut Ctx, id: &str, input: &str, output: &str, c: &Cfg) {
    let case = || case_json(id, input, c, None);
    // ---- quotes ----
    if let Ok(lx) = lex::lex(output) {
        for t in lx.toks().filter(|t| t.kind == TokKind::Str) {
            let s = lx.text(t);
            let q = s.as_bytes()[0];
            if q != b'"' && q != b'\'' {
                continue;
            }
            ctx.count("strings_judged");
            let body = &s[1..s.len() - 1];
            let nd = body.matches('"').count();
            let ns = body.matches('\'').count();
            let bad = match c.quote_style {
                "ForceDouble" => q != b'"',
                "ForceSingle" => q != b'\'',
                "AutoPreferDouble" => {
                    if q == b'"' { nd > ns } else { !(ns < nd) }
                }
                _ => {
                    if q == b'\'' { ns > nd } else { !(nd < ns) }
                }
            };
            if bad {
                let sg = format!("C11:quote:{}:{}", c.quote_style, if nd == 0 && ns == 0 { "no-quotes-inside" } else if nd == ns { "equal" } else { "unequal" });
                ctx.finding("quote-style", &sg, &format!("string token {s} violates quote_style={} ({} double / {} single quote characters inside)", c.quote_style, nd, ns), case());
                return;
            }
        }
    }
    // ---- calls and headers ----
    let so = match sites_of(output, c) {
        Some(s) => s,
        None => {
            ctx.inconclusive("output does not parse (C01's business)");
            return;
        }
    };
    ctx.count_n("calls_judged", so.calls.len() as u64);
    ctx.count_n("headers_judged", so.headers.len() as u64);
    match c.call_parentheses {
        "Always" => {
            if let Some(x) = so.calls.iter().find(|x| x.form != ArgForm::Parens) {
                ctx.finding("call-parentheses", &format!("C11:call-parens:Always:{:?}", x.form), "a call without parentheses under call_parentheses=Always", case());
                return;
            }
        }
        "Input" => {
            if let Some(si) = sites_of(input, c) {
                if si.calls.len() == so.calls.len() {
                    for (a, b) in si.calls.iter().zip(so.calls.iter()) {
                        if a.form != b.form {
                            ctx.finding("call-parentheses", &format!("C11:call-parens:Input:{:?}->{:?}", a.form, b.form), "a call changed its form under call_parentheses=Input", case());
                            return;
                        }
                    }
                } else {
                    ctx.inconclusive("call count differs between input and output");
                }
            }
        }
        mode => {
            let si = sites_of(input, c);
            for (k, x) in so.calls.iter().enumerate() {
                let applies = match (mode, x.sole) {
                    ("None", Some(_)) => true,
                    ("NoSingleString", Some("string")) => true,
                    ("NoSingleTable", Some("table")) => true,
                    _ => false,
                };
                if applies && x.obscure && x.form != ArgForm::Parens {
                    // "… have none unless an index or method call follows": there the call is
                    // written with parentheses (`f "s".x`, `f {}[1]`, `f "s":m()` are obscure)
                    let sg = format!("C11:call-parens:{mode}:sugar-before-index-or-method:{}", x.sole.unwrap_or("?"));
                    ctx.finding("call-parentheses", &sg, &format!("a single-{}-argument call directly followed by an index or method call is written without parentheses under call_parentheses={mode}", x.sole.unwrap_or("?")), case());
                    return;
                }
                if applies && x.form == ArgForm::Parens && !x.obscure {
                    let input_wrapped = si
                        .as_ref()
                        .filter(|si| si.calls.len() == so.calls.len())
                        .map(|si| si.calls[k].wrapped_sole)
                        .unwrap_or(false);
                    let sg = if x.has_comment {
                        format!("C11:call-parens:{mode}:kept-with-comment")
                    } else if input_wrapped {
                        // the argument was `(("s"))` in the input: the redundant parentheses are
                        // removed but the call sugar is only applied by a second pass
                        format!("C11:call-parens:{mode}:kept:redundant-parens-in-input")
                    } else {
                        format!("C11:call-parens:{mode}:kept:{}", x.sole.unwrap_or("?"))
                    };
                    ctx.finding("call-parentheses", &sg, &format!("a single-{}-argument call keeps its parentheses under call_parentheses={mode} although no index or method call follows", x.sole.unwrap_or("?")), case());
                    return;
                }
            }
        }
    }
    // ---- space after function names ----
    let b = output.as_bytes();
    let want_def = matches!(c.space_after_function_names, "Definitions" | "Always");
    let want_call = matches!(c.space_after_function_names, "Calls" | "Always");
    for h in &so.headers {
        if h.generics || h.paren_at == 0 || h.paren_at >= b.len() {
            continue;
        }
        let prev = b[h.paren_at - 1];
        if prev == b'\n' || prev == b'\t' || prev == b']' && false {
            continue;
        }
        let has = prev == b' ';
        // a comment between the name and `(` is not judged
        if !has && !(prev.is_ascii_alphanumeric() || prev == b'_' || prev >= 0x80 || prev == b'n') {
            continue;
        }
        if has != want_def {
            ctx.finding("space-after-function-names", &format!("C11:space:{}:definition:{}", c.space_after_function_names, h.kind), &format!("function header ({}) {} a space before `(` under space_after_function_names={}", h.kind, if has { "has" } else { "lacks" }, c.space_after_function_names), case());
            return;
        }
    }
    for x in &so.calls {
        if let Some(p) = x.paren_at {
            if p == 0 || p >= b.len() {
                continue;
            }
            let prev = b[p - 1];
            if prev == b'\n' || prev == b'\t' {
                continue;
            }
            let has = prev == b' ';
            if has && p >= 2 && (b[p - 2] == b' ' || b[p - 2] == b'\n') {
                continue; // line start / odd spacing produced by a comment: not judged
            }
            if has != want_call {
                ctx.finding("space-after-function-names", &format!("C11:space:{}:call:{}", c.space_after_function_names, if x.method { "method" } else { "plain" }), &format!("call {} a space before `(` under space_after_function_names={}", if has { "has" } else { "lacks" }, c.space_after_function_names), case());
                return;
            }
        }
    }
}

fn option_combo(k: usize) -> (&'static str, &'static str, &'static str) {
    (cfg::QUOTES[k % 4], cfg::CALL_PARENS[(k / 4) % 5], cfg::SPACE_AFTER[(k / 20) % 4])
}

const TEMPLATES: [&str; 16] = [
    "foo:bar(argument_one).baz(argument_two).qux(argument_three).last(argument_four_is_long)\npromise(first_value).andThen(function(result) return result end).catch(warn_about_it)\n",
    "print('a fairly long string argument that will not fit the narrow widths at all')\nlocal m = require('a.long.module.path.that.goes.on.and.on.and.on.for.a.while')\nsetup({ option_number_one = true, option_number_two = false, option_number_three = 3 })\n",
    "f 'a' 'b'\nf('x')('y')\nNew 'TextLabel' { Text = 'hi' }\nk { 1 } { 2 }\nlocal c = curry('a')('b')('c')\nlocal d = make { x = 1 } 'tail'\n",
    "local a = f('a')[1]\nlocal b = f({})[k]\nlocal c = f 'a'[1]\nlocal d = g {}['x']\nlocal e = obj:m('s')[i].n\ncache('x')[k] = v\ncache 'y'[k].z = v\nlocal h = f('a')[1]('b')[2]\n",
    "f('a')\nf(\"b\")\nf([[c]])\nf({})\nf({ 1, 2 })\nf 'd'\nf \"e\"\nf {}\nf { x = 1 }\n",
    "local x = f('a').y\nlocal y = f('a'):m()\nlocal z = f({}).k\nlocal w = f({}):m('q')\nlocal v = f 'a'.y\nlocal u = g {}:m {}\n",
    "obj:method('s')\nobj:method({ 1 })\nobj:method 's'\nobj:method { 1 }\nobj.a.b:c('x'):d({}):e 'y'\n",
    "call('it\\'s')\ncall(\"say \\\"hi\\\"\")\ncall('\"')\ncall(\"'\")\ncall('\\'\"')\ncall(\"\\\"\\\"'\")\ncall('a\"b\"c\\'d')\n",
    "local function name(a, b) return a end\nfunction t.f(x) end\nfunction t:m(x) end\nlocal g = function(a) return a end\ncall(function() end)\n",
    "describe('suite', function()\n  it('works', function()\n    expect(f('x')).to.equal('y')\n  end)\nend)\n",
    "return setmetatable({}, { __index = function(t, k) return rawget(t, k) end })\n",
    "local s = ('%d'):format(1)\nlocal t = ({}).x\nprint(('a'):rep(3), (\"b\"):upper())\n",
    "require('a').setup({ opt = true })\nrequire 'b'.setup { opt = false }\nrequire(\"c\")\n",
    "f(g('a'), h({}))\nf(g 'a', h {})\nf('a', 'b')\nf({}, {})\nf(('a'))\nf(({}))\n",
    "x = a.b.c(\"s\")\ny = a['k']('s')\nz = a.b:c({ 1 }).d\nw = (function() end)('s')\n",
    "very_long_function_name_number_one('a string argument that is fairly long'):and_a_method({ with = 'table' }):another('x')\n",
];

/// Luau-only forms (formatted under the Luau syntax)
const LUAU_TEMPLATES: [&str; 3] = [
    "type function double(ty) return ty end\nexport type function pair(a, b) return a end\nlocal function plain(a) return a end\nfunction t.g<T>(a: T): T return a end\n",
    "local x = f(`a{b}`)\nlocal y = g(`plain`)\nh(`x`):m(`y`)\nlocal z = f('s') :: string\nlocal w = f({}) :: any\n",
    "local v = if f('a') then g({}) else h('b')\nt.n += f('x')\nfor _, p in f('list') do continue end\n",
];

pub fn n_items(w: &Work, ctx: &Ctx) -> usize {
    let seeded = if ctx.quick() { 600 } else { 60000 };
    w.corpus.len() * if ctx.quick() { 2 } else { 10 } + TEMPLATES.len() + LUAU_TEMPLATES.len() + seeded
}

fn eval_and_judge(ctx: &mut Ctx, id: &str, src: &str, c: &Cfg) {
    if src.contains("stylua: ignore") {
        return;
    }
    if let Ok(out) = ctx.eval(id, src, c, None, false).result {
        judge(ctx, id, src, &out, c);
        if ctx.samples.len() < 3 && src.len() < 300 && out != src {
            ctx.sample(json!({"input": src, "cfg": c.short(), "output": out}));
        }
    }
}

pub fn run_item(w: &Work, ctx: &mut Ctx, mut i: usize) {
    let per_file = if ctx.quick() { 2 } else { 10 };
    if i < w.corpus.len() * per_file {
        let file = &w.corpus[i / per_file];
        let k = i % per_file;
        // walk the 80 option combinations, rotating with the file index
        let combo = (i / per_file) * 7 + k * 9;
        let (q, cp, sp) = option_combo(combo);
        let mut c = Cfg::with_syntax(file.syntax);
        c.quote_style = q;
        c.call_parentheses = cp;
        c.space_after_function_names = sp;
        c.column_width = [120usize, 80, 40, 60, 100][k % 5];
        eval_and_judge(ctx, &format!("c11:corpus:{}:{q}:{cp}:{sp}:w{}", file.name, c.column_width), &file.text, &c);
        return;
    }
    i -= w.corpus.len() * per_file;
    if i < TEMPLATES.len() {
        for combo in 0..80 {
            let (q, cp, sp) = option_combo(combo);
            for width in [120usize, 40, 20] {
                let mut c = Cfg::with_syntax("Lua51");
                c.quote_style = q;
                c.call_parentheses = cp;
                c.space_after_function_names = sp;
                c.column_width = width;
                eval_and_judge(ctx, &format!("c11:tmpl:{i}:{q}:{cp}:{sp}:w{width}"), TEMPLATES[i], &c);
            }
        }
        return;
    }
    i -= TEMPLATES.len();
    if i < LUAU_TEMPLATES.len() {
        for combo in 0..80 {
            let (q, cp, sp) = option_combo(combo);
            for width in [120usize, 40] {
                let mut c = Cfg::with_syntax("Luau");
                c.quote_style = q;
                c.call_parentheses = cp;
                c.space_after_function_names = sp;
                c.column_width = width;
                eval_and_judge(ctx, &format!("c11:luau-tmpl:{i}:{q}:{cp}:{sp}:w{width}"), LUAU_TEMPLATES[i], &c);
            }
        }
        return;
    }
    i -= LUAU_TEMPLATES.len();
    let mut rng = Rng::derive(ctx.seed, 0xc11, i as u64);
    if rng.chance(2, 3) {
        let syntax = *rng.pick(&cfg::SYNTAXES);
        // tame profile: no redundant parentheses around sole arguments, no inline comments
        let tame = !rng.chance(1, 3);
        let prog = gen::program_profile(&mut rng, syntax, tame);
        let c = Cfg::random(&mut rng, syntax, 40);
        if !fmt::parses(&prog, &c) {
            ctx.count("gen.rejected_by_parser");
            return;
        }
        eval_and_judge(ctx, &format!("c11:gen:{}:{i}", ctx.seed), &prog, &c);
    } else {
        let file = &w.corpus[rng.below(w.corpus.len())];
        let base0 = Cfg::with_syntax(file.syntax);
        let cs = crate::sig::comments(&file.text);
        let rm: Vec<bool> = cs.iter().map(|c| !c.directive && c.shape != "shebang").collect();
        let mut text = crate::sig::without(&file.text, &cs, &rm);
        for _ in 0..rng.range(1, 3) {
            if let Some(t) = mutate::mutate(&mut rng, &text, &base0) {
                text = t;
            }
        }
        if !fmt::parses(&text, &base0) {
            return;
        }
        let c = Cfg::random(&mut rng, file.syntax, 40);
        eval_and_judge(ctx, &format!("c11:mut:{}:{i}:{}", ctx.seed, file.name), &text, &c);
    }
}

pub fn replay(ctx: &mut Ctx, case: &serde_json::Value) {
    let src = case["src"].as_str().unwrap_or("");
    let c = Cfg::from_json(&case["cfg"]).unwrap_or_default();
    eval_and_judge(ctx, "replay", src, &c);
}
