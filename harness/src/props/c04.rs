//! C04 — literal values survive quote and number normalisation.
//!
//! Exhaustive, pinned enumeration of string-literal bodies over the escape-relevant alphabet up to a
//! length bound, in single-quoted / double-quoted / long-bracket form, in four syntactic positions,
//! under every quote style and both line endings; plus a per-dialect grammar of numeric spellings.
//! Oracle: the checker's own decoders (lex.rs) applied to the k-th literal of the input and of the
//! output (paired by position; the literal count must match too).
use crate::cfg::{self, Cfg};
use crate::ctx::{case_json, Ctx, Tier};
use crate::fmt;
use crate::lex::{self, TokKind};
use crate::rng::{self, Rng};
use serde_json::json;

const ALPHABET: [&str; 17] = [
    "'", "\"", "\\", "n", "0", "1", "9", "x", "u", "{", "}", "z", "a", "q", "\n", " ", "é",
];
/// the 8 escape-relevant symbols used for the extra length
const CORE: [&str; 8] = ["'", "\"", "\\", "n", "0", "x", "z", "\n"];

/// characters that are invisible or are line breaks of their own: a byte order mark, a zero width
/// space, a bare carriage return, a CR LF pair, a tab - next to the backslash, a quote and a letter
const EXOTIC: [&str; 10] = ["\u{feff}", "\u{200b}", "\r", "\r\n", "\t", "\\", "\n", "a", "'", "\u{a0}"];

const BATCH: usize = 400;
const POSITIONS: [&str; 4] = ["expr", "callarg", "tablekey", "index"];

fn bodies_of_len(alpha: &[&str], len: usize) -> usize {
    alpha.len().pow(len as u32)
}

fn nth_body(alpha: &[&str], len: usize, mut k: usize) -> String {
    let mut parts = Vec::with_capacity(len);
    for _ in 0..len {
        parts.push(alpha[k % alpha.len()]);
        k /= alpha.len();
    }
    parts.concat()
}

struct Space {
    /// (alphabet, length, count) segments in enumeration order
    segs: Vec<(&'static [&'static str], usize, usize)>,
}

impl Space {
    fn new(tier: Tier) -> Space {
        let mut segs: Vec<(&'static [&'static str], usize, usize)> = Vec::new();
        let max_full = if tier == Tier::Quick { 3 } else { 4 };
        for l in 0..=max_full {
            segs.push((&ALPHABET, l, bodies_of_len(&ALPHABET, l)));
        }
        // longer bodies over the core symbols
        let core_lens: &[usize] = if tier == Tier::Quick { &[4, 5] } else { &[5, 6] };
        for l in core_lens {
            segs.push((&CORE, *l, bodies_of_len(&CORE, *l)));
        }
        let exotic_max = if tier == Tier::Quick { 2 } else { 3 };
        for l in 1..=exotic_max {
            segs.push((&EXOTIC, l, bodies_of_len(&EXOTIC, l)));
        }
        Space { segs }
    }
    fn total(&self) -> usize {
        self.segs.iter().map(|s| s.2).sum()
    }
    fn body(&self, mut k: usize) -> String {
        for (a, l, n) in &self.segs {
            if k < *n {
                return nth_body(a, *l, k);
            }
            k -= n;
        }
        String::new()
    }
}

fn literal_forms(body: &str) -> Vec<String> {
    let mut v = vec![format!("\"{body}\""), format!("'{body}'")];
    // long brackets have no escapes: use the body verbatim when it cannot close the bracket
    for level in 0..3 {
        let eq = "=".repeat(level);
        let close = format!("]{eq}]");
        if !body.contains(&close) && !body.ends_with(']') {
            v.push(format!("[{eq}[{body}]{eq}]"));
        }
    }
    v
}

fn in_position(lit: &str, pos: &str, k: usize) -> String {
    let sp = if lit.starts_with('[') { " " } else { "" };
    match pos {
        "expr" => format!("local v{k} = {lit}\n"),
        "callarg" => format!("f{k}{sp}{lit}\n"),
        "tablekey" => format!("local v{k} = {{ [{sp}{lit}{sp}] = {k} }}\n"),
        _ => format!("local v{k} = t[{sp}{lit}{sp}]\n"),
    }
}

fn n_number_items() -> usize {
    cfg::SYNTAXES.len()
}

pub fn n_items(ctx: &Ctx) -> usize {
    let sp = Space::new(ctx.tier);
    let string_batches = sp.total().div_ceil(BATCH);
    string_batches + n_number_items() + if ctx.quick() { 40 } else { 400 }
}

pub fn run_item(ctx: &mut Ctx, i: usize) {
    let sp = Space::new(ctx.tier);
    let string_batches = sp.total().div_ceil(BATCH);
    if i < string_batches {
        string_batch(ctx, &sp, i);
    } else if i < string_batches + n_number_items() {
        numbers(ctx, cfg::SYNTAXES[i - string_batches]);
    } else {
        seeded_strings(ctx, i - string_batches - n_number_items());
    }
}

/// Keep only literals that full_moon accepts on their own under `syntax`.
fn valid_literal(lit: &str, c: &Cfg) -> bool {
    // reference-Lua validity (own lexer: no raw newline inside a quoted string, well-formed
    // escapes) AND accepted by full_moon under the syntax in use
    let stmt = format!("local _ = {lit}\n");
    let own_ok = match lex::lex(&stmt) {
        Ok(lx) => {
            let strs: Vec<_> = lx.toks().filter(|t| t.kind == TokKind::Str).collect();
            strs.len() == 1 && lx.text(strs[0]) == lit
        }
        Err(_) => false,
    };
    own_ok && lex::decode_string(lit).is_some() && fmt::parses(&stmt, c)
}

fn check_program(ctx: &mut Ctx, id: &str, prog: &str, c: &Cfg, n_lits_expected: usize) {
    let out = ctx.eval(id, prog, c, None, false);
    let text = match out.result {
        Ok(t) => t,
        Err(e) => {
            // The batch is a sequence of statements that each parse on their own. When the library
            // rejects it, every statement is judged alone: one that the library rejects although
            // the parser accepts it (the text must have been altered before parsing) is a finding.
            let lines: Vec<&str> = prog.split_inclusive('\n').collect();
            if n_lits_expected > 1 && lines.len() > 1 && id.len() < 200 {
                // statements end at a line end that is not inside a literal: re-split with the lexer
                if let Ok(lx) = lex::lex(prog) {
                    let mut starts: Vec<usize> = Vec::new();
                    for t in lx.toks() {
                        let s = lx.text(t);
                        if (s == "local" || (s.starts_with('f') && s[1..].chars().all(|c| c.is_ascii_digit()) && s.len() > 1)) && (t.start == 0 || prog.as_bytes()[t.start - 1] == b'\n') {
                            starts.push(t.start);
                        }
                    }
                    starts.push(prog.len());
                    let mut judged = 0;
                    for w in starts.windows(2) {
                        let stmt = &prog[w[0]..w[1]];
                        if !fmt::parses(stmt, c) {
                            continue;
                        }
                        judged += 1;
                        match ctx.eval(&format!("{id}#single"), stmt, c, None, false).result {
                            Ok(_) => check_program(ctx, &format!("{id}#single{}", w[0]), stmt, c, 1),
                            Err(e1) => {
                                let lit = lex::lex(stmt).ok().and_then(|l| l.toks().find(|t| t.kind == TokKind::Str).map(|t| l.text(t).to_string())).unwrap_or_default();
                                let form = if lit.starts_with('"') { "dq" } else if lit.starts_with('\'') { "sq" } else { "long" };
                                let sg = format!("C04:valid-literal-rejected:{form}");
                                ctx.finding("literal-value", &sg, &format!("the parser accepts {stmt:?}, format_code rejects it: {e1:?}").chars().take(300).collect::<String>(), case_json(id, stmt, c, None));
                            }
                        }
                    }
                    if judged > 0 {
                        return;
                    }
                }
            }
            ctx.inconclusive(&format!("batch did not format: {e:?}").chars().take(120).collect::<String>());
            return;
        }
    };
    let (a, b) = match (lex::lex(prog), lex::lex(&text)) {
        (Ok(a), Ok(b)) => (a, b),
        (_, Err(e)) => {
            // a literal that no longer lexes is a value change as well
            let sg = format!("C04:output-unlexable:{}:{}", c.quote_style, c.line_endings);
            ctx.finding("literal-value", &sg, &format!("output does not lex: {} at {}", e.what, e.at), case_json(id, prog, c, None));
            return;
        }
        _ => {
            ctx.inconclusive("own lexer rejected the generated batch");
            return;
        }
    };
    let la: Vec<&str> = a.toks().filter(|t| t.kind == TokKind::Str).map(|t| a.text(t)).collect();
    let lb: Vec<&str> = b.toks().filter(|t| t.kind == TokKind::Str).map(|t| b.text(t)).collect();
    ctx.count_n("string_literals_judged", la.len() as u64);
    if la.len() != n_lits_expected {
        ctx.inconclusive("literal count of the batch is not what the generator intended");
        return;
    }
    if la.len() != lb.len() {
        let sg = format!("C04:literal-count:{}:{}", c.quote_style, c.line_endings);
        ctx.finding("literal-value", &sg, &format!("{} string literals in, {} out", la.len(), lb.len()), case_json(id, prog, c, None));
        return;
    }
    for (x, y) in la.iter().zip(lb.iter()) {
        let dx = lex::decode_string(x);
        let dy = lex::decode_string(y);
        if dx != dy || dx.is_none() {
            // reduce to the single literal for the replay file
            let form = if x.starts_with('"') { "dq" } else if x.starts_with('\'') { "sq" } else { "long" };
            // long brackets have no escapes: their only feature is a raw carriage return
            let feature: String = if form == "long" {
                // the first run of CR / LF characters that is not a plain LF or a plain CR LF pair, spelled
                // out (C = CR, L = LF), under the configured line ending: Lua reads CR, LF, CR LF and LF CR
                // each as one line break, so every shape of run regroups differently when it is rewritten
                let bytes = x.as_bytes();
                let mut run = String::new();
                let mut k = 0;
                while k < bytes.len() {
                    if bytes[k] == b'\r' || bytes[k] == b'\n' {
                        let s0 = k;
                        while k < bytes.len() && (bytes[k] == b'\r' || bytes[k] == b'\n') {
                            k += 1;
                        }
                        let r = &x[s0..k];
                        if r != "\n" && r != "\r\n" {
                            run = r.chars().take(8).map(|ch| if ch == '\r' { 'C' } else { 'L' }).collect();
                            break;
                        }
                    } else {
                        k += 1;
                    }
                }
                if !run.is_empty() && id.starts_with("c04:seeded") {
                    // seeded bodies reach run shapes the pinned enumeration does not list one by one
                    "cr-lf-run".to_string()
                } else if !run.is_empty() {
                    format!("run-{run}:{}", c.line_endings)
                } else if x.contains('\r') {
                    "crlf".to_string()
                } else {
                    "none".to_string()
                }
            } else {
                escape_feature(x).to_string()
            };
            let sg = format!("C04:string:{}:{}", form, feature);
            let single = format!("local v = {x}\n");
            ctx.finding(
                "literal-value",
                &sg,
                &format!("literal {x:?} became {y:?}: value {:?} vs {:?}", dx.as_ref().map(|b| String::from_utf8_lossy(b).to_string()), dy.as_ref().map(|b| String::from_utf8_lossy(b).to_string())),
                case_json(id, &single, c, None),
            );
        }
        // quote/escape rewriting happened?
        if x != y {
            ctx.count("string_literals_rewritten");
        }
    }
}

/// which escape feature of the literal is involved (for signatures)
fn escape_feature(lit: &str) -> &'static str {
    let b = lit.as_bytes();
    let mut i = 0;
    while i + 1 < b.len() {
        if b[i] == b'\\' {
            return match b[i + 1] {
                b'\n' | b'\r' => "backslash-newline",
                b'z' => "z",
                b'x' => "x",
                b'u' => "u",
                b'0'..=b'9' => "decimal",
                b'\'' | b'"' => "quote",
                b'\\' => "backslash",
                b'a' | b'b' | b'f' | b'n' | b'r' | b't' | b'v' => "named",
                _ => "other",
            };
        }
        i += 1;
    }
    "none"
}

fn string_batch(ctx: &mut Ctx, sp: &Space, batch: usize) {
    let lo = batch * BATCH;
    let hi = (lo + BATCH).min(sp.total());
    let base = Cfg::with_syntax("All");
    // collect valid literals of this batch
    let mut lits: Vec<String> = Vec::new();
    for k in lo..hi {
        let body = sp.body(k);
        for lit in literal_forms(&body) {
            if valid_literal(&lit, &base) {
                lits.push(lit);
            }
        }
    }
    ctx.count_n("bodies_enumerated", (hi - lo) as u64);
    ctx.count_n("valid_literals", lits.len() as u64);
    if lits.is_empty() {
        return;
    }
    // quick tier: positions rotate over batches; thorough: every position
    for (pi, pos) in POSITIONS.iter().enumerate() {
        if ctx.quick() && (batch + pi) % 2 != 0 {
            continue;
        }
        let mut prog = String::new();
        for (k, l) in lits.iter().enumerate() {
            prog.push_str(&in_position(l, pos, k));
        }
        if !fmt::parses(&prog, &base) {
            ctx.inconclusive("batch program rejected by the parser");
            continue;
        }
        for qs in cfg::QUOTES {
            for le in cfg::LINE_ENDINGS {
                let mut c = base.clone();
                c.quote_style = qs;
                c.line_endings = le;
                c.call_parentheses = if *pos == "callarg" { "Input" } else { "Always" };
                check_program(ctx, &format!("c04:b{batch}:{pos}:{qs}:{le}"), &prog, &c, lits.len());
                if *pos == "callarg" && !ctx.quick() {
                    // sugar removed / added
                    for cp in ["Always", "None"] {
                        let mut c2 = c.clone();
                        c2.call_parentheses = cp;
                        check_program(ctx, &format!("c04:b{batch}:{pos}:{qs}:{le}:{cp}"), &prog, &c2, lits.len());
                    }
                }
            }
        }
        // the same program written with CRLF line endings (backslash + CRLF, CRLF inside long strings)
        if !ctx.quick() || batch % 4 == 0 {
            let crlf = prog.replace('\n', "\r\n");
            if fmt::parses(&crlf, &base) {
                for le in cfg::LINE_ENDINGS {
                    let mut c = base.clone();
                    c.line_endings = le;
                    c.call_parentheses = "Input";
                    check_program(ctx, &format!("c04:b{batch}:{pos}:crlf:{le}"), &crlf, &c, lits.len());
                }
            }
        }
    }
}

/// Longer random bodies (seeded): the alphabet plus multi-byte and escape sequences.
fn seeded_strings(ctx: &mut Ctx, i: usize) {
    let mut rng = Rng::derive(ctx.seed, 0xc04, i as u64);
    let syntax = *rng.pick(&["All", "Lua51", "Lua52", "Lua53", "Lua54", "LuaJIT", "Luau"]);
    let base = Cfg::with_syntax(syntax);
    let pieces = [
        "'", "\"", "\\\\", "\\n", "\\'", "\\\"", "\\065", "\\x41", "\\u{48}", "\\u{7FFFFFFF}", "\\z \n  ", "\\\n", "\\\r\n", "a",
        " ", "é", "\\q", "\\0", "\\00", "\\0001", "\\9", "\\255", "[[", "]]", "--", "\\a\\b\\f\\r\\t\\v", "\t", "{", "}", "%",
    ];
    let mut lits = Vec::new();
    for _ in 0..60 {
        let n = rng.range(0, 8);
        let mut body = String::new();
        for _ in 0..n {
            body.push_str(rng.pick_s(&pieces));
        }
        for lit in literal_forms(&body) {
            if valid_literal(&lit, &base) {
                lits.push(lit);
            }
        }
    }
    if lits.is_empty() {
        return;
    }
    let pos = *rng.pick(&POSITIONS);
    let mut prog = String::new();
    for (k, l) in lits.iter().enumerate() {
        prog.push_str(&in_position(l, pos, k));
    }
    if !fmt::parses(&prog, &base) {
        ctx.inconclusive("seeded batch rejected by the parser");
        return;
    }
    let mut c = base.clone();
    c.quote_style = *rng.pick(&cfg::QUOTES);
    c.line_endings = *rng.pick(&cfg::LINE_ENDINGS);
    c.call_parentheses = *rng.pick(&["Input", "Always", "None", "NoSingleString"]);
    check_program(ctx, &format!("c04:seeded:{}:{}", ctx.seed, i), &prog, &c, lits.len());
}

// ------------------------------------------------------------------------------------------------
// numbers
// ------------------------------------------------------------------------------------------------

pub fn number_spellings(syntax: &str) -> Vec<String> {
    let mut v: Vec<String> = Vec::new();
    let ints = ["0", "1", "9", "10", "007", "123456789", "9007199254740993", "18446744073709551616"];
    let fracs = ["", ".", ".0", ".5", ".25"];
    let exps = ["", "e0", "e5", "E+5", "e-5", "E10"];
    for i in ints {
        for f in fracs {
            for e in exps {
                v.push(format!("{i}{f}{e}"));
            }
        }
    }
    for f in [".5", ".0", ".125", ".9"] {
        for e in exps {
            v.push(format!("{f}{e}"));
        }
    }
    for h in ["0x0", "0x1", "0XfF", "0xFFFFFFFFFFFFFFFF", "0x7fffffffffffffff", "0x10000000000000000", "0xaBcD"] {
        v.push(h.to_string());
    }
    let hexfloat = matches!(syntax, "Lua52" | "Lua53" | "Lua54" | "LuaJIT" | "All");
    if hexfloat {
        for h in ["0x.8", "0x1.8", "0xA.", "0x1p4", "0x1P-1", "0x.8p1", "0xA.8P+2", "0x1.fp10"] {
            v.push(h.to_string());
        }
        // hexadecimal fractions over the digits that look like decimal syntax (0, e, E) and others
        for i in ["0x1", "0xA", "0xe", "0x"] {
            for f in ["0", "5", "e", "E", "a", "00", "50", "0e", "e0", "50e", "20e", "00E", "5e0", "e5", "0E0", "e00", "1e5", "1E+"] {
                if f.ends_with('+') {
                    continue;
                }
                for x in ["", "p1", "P-4", "p+2"] {
                    v.push(format!("{i}.{f}{x}"));
                }
            }
        }
    }
    // trailing and leading zeroes of decimal spellings
    for d in ["1.50", "2.500e3", "1.0e0", "10.00", "100", "1.50E+5", "0.10", "00.5", "1.000", "100e0", "1e00", "1e010", "5.0e-0", "0e0", "0.0e10", "1.0e+05"] {
        v.push(d.to_string());
    }
    for h in ["0x00", "0x0e", "0xe0", "0x0E0", "0xE", "0x1e5", "0x1E5", "0xe5e", "0X0e0"] {
        v.push(h.to_string());
    }
    if matches!(syntax, "Luau" | "All") {
        for b in ["0b0", "0b101", "0B1111", "1_000", "1_000_000.5", "0x_ff", "0xff_ff", "0b1_0", "1e1_0", "1__0"] {
            v.push(b.to_string());
        }
    }
    if matches!(syntax, "LuaJIT" | "All") {
        for j in ["1LL", "1ll", "0x1ull", "42ULL", "5i", "1.5i", "0xffLL", "1e2i", "12Ull"] {
            v.push(j.to_string());
        }
    }
    v
}

fn numbers(ctx: &mut Ctx, syntax: &'static str) {
    let base = Cfg::with_syntax(syntax);
    let mut spellings: Vec<String> = Vec::new();
    for s in number_spellings(syntax) {
        if fmt::parses(&format!("local _ = {s}\n"), &base) {
            spellings.push(s);
        }
    }
    ctx.count_n(&format!("number_spellings.{syntax}"), spellings.len() as u64);
    let contexts: [(&str, &str); 6] = [
        ("local v{k} = ", ""),
        ("local v{k} = -", ""),
        ("local v{k} = - ", ""),
        ("local v{k} = a .. ", ""),
        ("local v{k} = ", " .. a"),
        ("f{k}(", ", 1)"),
    ];
    for (ci, (pre, post)) in contexts.iter().enumerate() {
        let mut prog = String::new();
        let mut n = 0;
        for (k, s) in spellings.iter().enumerate() {
            let line = format!("{}{}{}\n", pre.replace("{k}", &k.to_string()), s, post);
            if fmt::parses(&line, &base) {
                prog.push_str(&line);
                n += 1;
            }
        }
        if n == 0 || !fmt::parses(&prog, &base) {
            ctx.inconclusive("number batch rejected by the parser");
            continue;
        }
        for w in [120usize, 1] {
            let mut c = base.clone();
            c.column_width = w;
            let id = format!("c04:num:{syntax}:ctx{ci}:w{w}");
            let out = ctx.eval(&id, &prog, &c, None, false);
            let text = match out.result {
                Ok(t) => t,
                Err(_) => {
                    ctx.inconclusive("number batch did not format");
                    continue;
                }
            };
            let (a, b) = match (lex::lex(&prog), lex::lex(&text)) {
                (Ok(a), Ok(b)) => (a, b),
                _ => {
                    ctx.inconclusive("own lexer rejected a number batch");
                    continue;
                }
            };
            let na: Vec<&str> = a.toks().filter(|t| t.kind == TokKind::Number).map(|t| a.text(t)).collect();
            let nb: Vec<&str> = b.toks().filter(|t| t.kind == TokKind::Number).map(|t| b.text(t)).collect();
            ctx.count_n("number_literals_judged", na.len() as u64);
            if na.len() != nb.len() {
                ctx.finding("literal-value", &format!("C04:number-count:{syntax}:ctx{ci}"), &format!("{} numeric literals in, {} out", na.len(), nb.len()), case_json(&id, &prog, &c, None));
                continue;
            }
            for (x, y) in na.iter().zip(nb.iter()) {
                let vx = lex::decode_number(x, c.int_subtype());
                let vy = lex::decode_number(y, c.int_subtype());
                if vx != vy {
                    let class = if x.starts_with('.') { "leading-dot" } else if x.to_ascii_lowercase().starts_with("0x") { "hex" } else if x.contains('_') { "underscore" } else { "decimal" };
                    ctx.finding(
                        "literal-value",
                        &format!("C04:number:{class}:{syntax}"),
                        &format!("numeral {x} became {y}: {vx:?} vs {vy:?}"),
                        case_json(&id, &format!("local v = {x}\n"), &c, None),
                    );
                }
                if x != y {
                    ctx.count("number_literals_rewritten");
                }
            }
            if ctx.samples.len() < 2 {
                ctx.sample(json!({"id": id, "numerals": na.iter().take(12).collect::<Vec<_>>(), "output_numerals": nb.iter().take(12).collect::<Vec<_>>()}));
            }
        }
    }
    let _ = rng::mix(0);
}

pub fn replay(ctx: &mut Ctx, case: &serde_json::Value) {
    let src = case["src"].as_str().unwrap_or("");
    let c = Cfg::from_json(&case["cfg"]).unwrap_or_default();
    let n = lex::lex(src).map(|l| l.toks().filter(|t| t.kind == TokKind::Str).count()).unwrap_or(0);
    if n > 0 {
        check_program(ctx, "replay", src, &c, n);
    } else {
        // a number case
        let out = ctx.eval("replay", src, &c, None, false);
        if let Ok(text) = out.result {
            if let (Ok(a), Ok(b)) = (lex::lex(src), lex::lex(&text)) {
                let na: Vec<&str> = a.toks().filter(|t| t.kind == TokKind::Number).map(|t| a.text(t)).collect();
                let nb: Vec<&str> = b.toks().filter(|t| t.kind == TokKind::Number).map(|t| b.text(t)).collect();
                for (x, y) in na.iter().zip(nb.iter()) {
                    if lex::decode_number(x, c.int_subtype()) != lex::decode_number(y, c.int_subtype()) {
                        ctx.finding("literal-value", "replay", &format!("numeral {x} became {y}"), case.clone());
                    }
                }
            }
        }
    }
}
