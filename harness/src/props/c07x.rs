//! C07 — extra families on top of the shared workload: extreme configurations, hostile ranges,
//! collapse x range x ignore templates, single-line tables with comments, destroyed inputs
//! (truncate / splice / delete-token / junk), nesting-depth ramps judged in logical steps.
use crate::cfg::{self, Cfg};
use crate::ctx::{case_json, Ctx};
use crate::fmt::{self, FmtErr, Range};
use crate::lex;
use crate::libwork::Work;
use crate::mutate;
use crate::props::libprops::tick_budget;
use crate::rng::{self, Rng};
use serde_json::json;

/// One totality evaluation: no panic, parser agreement, step budget. Returns ticks when Ok.
pub fn total(ctx: &mut Ctx, id: &str, src: &str, c: &Cfg, range: Range, family: &str) -> Option<u64> {
    let in_ok = fmt::parses(src, c);
    // depth ramps and extreme configurations also run on the stack a CLI worker thread has
    if family.starts_with("depth-ramp") || family == "extreme-config" {
        let o2 = ctx.eval_small_stack(&format!("{id}#2MiB"), src, c, range);
        if let Err(FmtErr::Panic(m)) = &o2.result {
            let mut v = case_json(id, src, c, range);
            v["family"] = json!(family);
            ctx.finding("panic", &fmt::panic_signature(m), &format!("format_code panicked on a 2 MiB stack: {m}"), v);
        }
    }
    let out = ctx.eval(id, src, c, range, false);
    ctx.count(&format!("family.{family}"));
    let case = || {
        let mut v = case_json(id, src, c, range);
        v["family"] = json!(family);
        v
    };
    match &out.result {
        Err(FmtErr::Panic(m)) => {
            let sg = fmt::panic_signature(m);
            let sg = if sg == "panic:in-full_moon-parser" { format!("{sg}:{}", if in_ok { "valid-input" } else { "invalid-input" }) } else { sg };
            ctx.finding("panic", &sg, &format!("format_code panicked at {}: {m}", fmt::last_panic_location()), case());
            None
        }
        Ok(_) if in_ok && !brackets_balanced(src) => {
            // the checker's parser (the same full_moon) accepted it, but no Lua program has
            // unbalanced brackets: success was returned for text that is not a program
            ctx.finding("parse-agreement", "ok-on-unbalanced-brackets", "format_code returned Ok for a text with unbalanced brackets (own lexer)", case());
            None
        }
        Ok(_) if !in_ok => {
            ctx.finding("parse-agreement", &format!("ok-on-unparseable:{family}"), "format_code returned Ok for text the checker's parser rejects", case());
            None
        }
        Err(FmtErr::Parse(m)) if in_ok => {
            ctx.finding("parse-agreement", &format!("parse-error-on-parseable:{family}"), m, case());
            None
        }
        Err(_) => {
            ctx.count("invalid_input.rejected");
            None
        }
        Ok(_) => {
            // the same call with the library's output verification switched on must return as well
            if ctx.evals % 3 == 0 || family == "verified-literals" {
                verified(ctx, id, src, c, range, family, family == "verified-literals");
            }
            let ntok = lex::lex(src).map(|l| l.toks().count()).unwrap_or(1).max(1) as u64;
            let ratio = out.ticks / ntok;
            let e = ctx.counters.entry("max.ticks_per_token".to_string()).or_insert(0);
            if ratio > *e {
                *e = ratio;
            }
            if out.ticks > tick_budget(ntok) {
                // on a depth ramp the depth at which the budget is first exceeded is part of the finding
                let at = if family.starts_with("depth-ramp") { id.rsplit(':').next().filter(|t| t.starts_with('d')).map(|t| format!(":{t}")).unwrap_or_default() } else { String::new() };
                ctx.finding(
                    "step-budget",
                    &format!("ticks:{family}{at}"),
                    &format!("{} logical steps for {} tokens (budget {})", out.ticks, ntok, tick_budget(ntok)),
                    case(),
                );
            }
            Some(out.ticks)
        }
    }
}

/// `format_code(.., OutputVerification::Full)` on an input the plain call formatted: it must not
/// panic; `strict` (pinned literal programs, whose plain output C04 decodes) also rejects an error.
pub fn verified(ctx: &mut Ctx, id: &str, src: &str, c: &Cfg, range: Range, family: &str, strict: bool) {
    let o = ctx.eval_verified(&format!("{id}#verify"), src, c, range);
    let case = || {
        let mut v = case_json(id, src, c, range);
        v["family"] = json!(family);
        v["verify"] = json!(true);
        v
    };
    match &o.result {
        Err(FmtErr::Panic(m)) => {
            let sg = format!("verify:{}", fmt::panic_signature(m));
            ctx.finding("panic", &sg, &format!("format_code with OutputVerification::Full panicked at {}: {m}", fmt::last_panic_location()), case());
        }
        Err(FmtErr::Verify(m)) => {
            ctx.count("verify.reported_difference");
            if strict {
                ctx.finding("verify-total", &format!("verify-error:{family}:{}", c.syntax), &format!("OutputVerification::Full rejected the output for a literal-only program: {m}"), case());
            }
        }
        Err(FmtErr::Parse(m)) => {
            ctx.finding("parse-agreement", &format!("verify:parse-error-on-parseable:{family}"), m, case());
        }
        Ok(_) => ctx.count("verify.ok"),
    }
}

/// own-lexer bracket balance of ( ) { } [ ] outside strings and comments
pub fn brackets_balanced(src: &str) -> bool {
    let lx = match lex::lex(src) {
        Ok(l) => l,
        Err(_) => return true, // not judged here
    };
    let mut stack: Vec<u8> = Vec::new();
    for t in lx.toks() {
        if t.kind != lex::TokKind::Sym {
            continue;
        }
        for b in lx.text(t).bytes() {
            match b {
                b'(' | b'{' | b'[' => stack.push(b),
                b')' | b'}' | b']' => {
                    let open = match b {
                        b')' => b'(',
                        b'}' => b'{',
                        _ => b'[',
                    };
                    if stack.pop() != Some(open) {
                        return false;
                    }
                }
                _ => {}
            }
        }
    }
    stack.is_empty()
}

/// pinned invalid inputs (witnesses of known findings rooted in the full_moon parser)
const PINNED_INVALID: [(&str, &str); 8] = [
    ("Lua51", "\u{feff}local x = 1\n"),
    ("Luau", "\u{feff}local   x = 1\nlocal y   = 2\n"),
    ("Lua51", "local x = 1\n\u{feff}local y = 2\n"),
    ("Lua51", "\u{0}local x = 1\n"),
    ("Luau", "export  X = A | B\n"),
    ("Luau", "local x = 1\ntype A = {\nlocal y = 2\n"),
    ("Luau", "type A = {\n"),
    ("Lua51", "local x = (1\n"),
];

const TEMPLATES: [&str; 19] = [
    "local f = function() goto continue end\n::continue::\n",
    "local aaaaaaaaaaaa, bbbbbbbbbbbbbb = { key = function() return 1 end, other = 2 }, call(function() return { 1, 2, 3 } end)\n",
    "x.y.z, w = aaaaaaaaaaaaaaaaaaaa + bbbbbbbbbbbbbbbbbbbbb * { field = cccccccccccc }, dddddddddddddddd and { eeeeeeee = 1 }\n",
    "if x then return end\n",
    "if x then\n  -- stylua: ignore\n  return   1\nend\n",
    "if x then\n  f(  )\nend\n",
    "if x then\n  -- stylua: ignore\n  f(  )\nend\n",
    "if x then goto done end\n::done::\n",
    "if x then\n  -- c\n  return\nend\n",
    "if x then return end -- trailing\n",
    "local function f() return 1 end\n",
    "local function f()\n  -- stylua: ignore\n  return   1\nend\n",
    "local f = function() return a, b end\n",
    "call(function() return end)\n",
    "local t = { a, -- c\n b }\n",
    "local t = { a, b, --[[ c ]] }\n",
    "local t = { a = 1, -- c\n}\n",
    "local t = { -- c\n}\n",
    "local t = {\n  -- stylua: ignore\n  a   =   1, -- c\n  b = 2 }\n",
];

fn ramp(family: usize, d: usize) -> String {
    match family {
        0 => format!("local x = {}1{}\n", "f(".repeat(d), ")".repeat(d)),
        1 => format!("local x = {}1{}\n", "{".repeat(d), "}".repeat(d)),
        2 => format!("local x = {}1{}\n", "function() return ".repeat(d), " end".repeat(d)),
        3 => format!("local x = {}a + 1{}\n", "(".repeat(d), ") * 2".repeat(d)),
        4 => {
            let mut s = String::new();
            for i in 0..d {
                s.push_str(&format!("{}if a{i} then\n", "  ".repeat(i)));
            }
            s.push_str(&format!("{}x = 1\n", "  ".repeat(d)));
            for i in (0..d).rev() {
                s.push_str(&format!("{}end\n", "  ".repeat(i)));
            }
            s
        }
        5 => format!("local x = a{}\n", ":m(b.c[1])".repeat(d)),
        6 => format!("{}x(){}\n", "run(function() ".repeat(d), " end)".repeat(d)),
        7 => format!("{}1{}\n", "call({ key = function() return ".repeat(d), " end })".repeat(d)),
        8 => format!("local x = {}1{}\n", "f(a, { g(".repeat(d), ") }, b)".repeat(d)),
        9 => format!("{}x(){}\n", "obj:method(arg, function(p) ".repeat(d), " end)".repeat(d)),
        10 => format!("local x = {}\"{}\"{}\n", "{ ".repeat(d), "long element ".repeat(11), " }".repeat(d)),
        11 => format!("local x = {}1{}\n", "{ key = ".repeat(d), " }".repeat(d)),
        12 => format!("local x = {}1{}\n", "{ a, { b }, ".repeat(d), " }".repeat(d)),
        13 => format!("local x = {}1{}\n", "t[".repeat(d), "]".repeat(d)),
        // Luau (families >= 14 are formatted under the Luau syntax)
        14 => format!("type T = {}number{}\n", "(x: ".repeat(d), ") -> ()".repeat(d)),
        15 => format!("type T = {}number{}\n", "Array<".repeat(d), ">".repeat(d)),
        16 => format!("type T = {}number{}\n", "{ field: ".repeat(d), " }".repeat(d)),
        17 => format!("local x = {}1{}\n", "if c then (".repeat(d), ") else 0".repeat(d)),
        18 => format!("type T = {}nil{}\n", "(() -> ".repeat(d), ")?".repeat(d)),
        20 => format!("type T = {}number{}\n", "{".repeat(d), "}".repeat(d)),
        _ => format!("local x = {}v{}\n", "(".repeat(d), " :: any)".repeat(d)),
    }
}

const N_RAMP_FAMILIES: usize = 21;
const RAMP_WIDTHS: [usize; 3] = [120, 40, 1];
const N_RAMPS: usize = N_RAMP_FAMILIES * 3;

pub fn n_items(w: &Work, ctx: &Ctx) -> usize {
    let seeded = if ctx.quick() { 600 } else { 30000 };
    w.corpus.len() * 2 + TEMPLATES.len() + N_RAMPS + seeded
}

pub fn run_item(w: &Work, ctx: &mut Ctx, mut i: usize) {
    let quick = ctx.quick();
    // (a) extreme configurations
    if i < w.corpus.len() {
        let file = &w.corpus[i];
        let widths: &[usize] = if quick { &[1, usize::MAX] } else { &[1, 2, 3, usize::MAX, usize::MAX - 1] };
        for (k, wd) in widths.iter().enumerate() {
            let mut c = w.rows[(i + k) % w.rows.len()].clone();
            c.syntax = file.syntax;
            c.column_width = *wd;
            c.indent_width = [1usize, 16, 2, 15, 3, 8, 5, 7, 9, 11, 13, 4, 6, 10, 12, 14][(i + k) % 16];
            total(ctx, &format!("c07:extreme:{}:w{}:iw{}", file.name, wd, c.indent_width), &file.text, &c, None, "extreme-config");
        }
        return;
    }
    i -= w.corpus.len();
    // (b) hostile ranges
    if i < w.corpus.len() {
        let file = &w.corpus[i];
        let c = Cfg::with_syntax(file.syntax);
        let n = file.text.len();
        // a position inside a multi-byte character, if the file has one
        let mid_utf8 = file.text.char_indices().find(|(_, ch)| ch.len_utf8() > 1).map(|(p, _)| p + 1);
        let mut ranges: Vec<(Option<usize>, Option<usize>)> = vec![
            (Some(n / 2), Some(n / 2)),
            (Some(2 * n / 3), Some(n / 3)),
            (Some(n + 1), None),
            (Some(n + 1), Some(n + 100)),
            (None, Some(usize::MAX)),
            (Some(usize::MAX), Some(usize::MAX)),
            (Some(0), Some(0)),
            (None, Some(0)),
        ];
        if let Some(p) = mid_utf8 {
            ranges.push((Some(p), None));
            ranges.push((None, Some(p)));
        }
        for (k, r) in ranges.into_iter().enumerate() {
            if quick && k % 3 != i % 3 {
                continue;
            }
            total(ctx, &format!("c07:range:{}:{k}", file.name), &file.text, &c, Some(r), "hostile-range");
            // the same ranges while requires are sorted (groups with members out of range)
            if file.text.contains("require") || file.text.contains("GetService") {
                let mut cs = c.clone();
                cs.sort_requires = true;
                total(ctx, &format!("c07:range+sort:{}:{k}", file.name), &file.text, &cs, Some(r), "hostile-range-sort");
            }
        }
        // ranges that begin (or end) at each of the first statements of a file with requires
        if file.text.contains("require") || file.text.contains("GetService") {
            if let Some(ast) = fmt::parse(&file.text, &c) {
                let infos = crate::stmts::collect(&ast);
                let mut cs = c.clone();
                cs.sort_requires = true;
                for (k, st) in infos.iter().filter(|s| s.depth == 0).take(if quick { 6 } else { 24 }).enumerate() {
                    total(ctx, &format!("c07:range+sort:{}:from{k}", file.name), &file.text, &cs, Some((Some(st.start), None)), "statement-range-sort");
                    total(ctx, &format!("c07:range+sort:{}:to{k}", file.name), &file.text, &cs, Some((None, Some(st.end))), "statement-range-sort");
                    total(ctx, &format!("c07:range+sort:{}:only{k}", file.name), &file.text, &cs, Some((Some(st.start), Some(st.end))), "statement-range-sort");
                }
            }
        }
        return;
    }
    i -= w.corpus.len();
    // (c,d) collapse x range x ignore templates, tables with comments
    if i < TEMPLATES.len() {
        let t = TEMPLATES[i];
        for syntax in ["Lua52", "Luau"] {
            if !fmt::parses(t, &Cfg::with_syntax(syntax)) {
                continue;
            }
            for collapse in cfg::COLLAPSE {
                for wd in [120usize, 20, 1] {
                    let mut c = Cfg::with_syntax(syntax);
                    c.collapse_simple_statement = collapse;
                    c.column_width = wd;
                    total(ctx, &format!("c07:tmpl:{i}:{syntax}:{collapse}:w{wd}"), t, &c, None, "collapse-template");
                    // every pair of byte offsets at line starts as a range
                    let mut offs: Vec<usize> = vec![0];
                    offs.extend(t.match_indices('\n').map(|(p, _)| p + 1));
                    for a in &offs {
                        for b in &offs {
                            total(ctx, &format!("c07:tmpl:{i}:{syntax}:{collapse}:w{wd}:r{a}-{b}"), t, &c, Some((Some(*a), Some(*b))), "collapse-template-range");
                        }
                    }
                }
            }
        }
        return;
    }
    i -= TEMPLATES.len();
    // (f) depth ramps: judged in logical steps, growth between d and d+4 must stay polynomial
    if i == 0 {
        for (k, (syntax, text)) in PINNED_INVALID.iter().enumerate() {
            let syntax = cfg::SYNTAXES.iter().find(|s| *s == syntax).copied().unwrap_or("All");
            total(ctx, &format!("c07:pinned-invalid:{k}"), text, &Cfg::with_syntax(syntax), None, "pinned-invalid");
        }
    }
    if i == 1 {
        // literal-only programs of every dialect under OutputVerification::Full: each numeric
        // spelling of C04's grammar and a few string forms, one per statement
        for syntax in cfg::SYNTAXES {
            let base = Cfg::with_syntax(syntax);
            let mut prog = String::new();
            let mut n = 0usize;
            for s in crate::props::c04::number_spellings(syntax) {
                let line = format!("local _ = {s}\n");
                if fmt::parses(&line, &base) {
                    prog.push_str(&line);
                    n += 1;
                }
            }
            for s in ["'a\\'b'", "\"\\z\n  x\"", "[==[\n]]]==]", "'\\u{10FFFF}'", "\"\\x41\\065\""] {
                let line = format!("local _ = {s}\n");
                if fmt::parses(&line, &base) {
                    prog.push_str(&line);
                    n += 1;
                }
            }
            *ctx.counters.entry("verified_literal_statements".to_string()).or_insert(0) += n as u64;
            for quote in cfg::QUOTES {
                let mut c = base.clone();
                c.quote_style = quote;
                total(ctx, &format!("c07:verified-literals:{syntax}:{quote}"), &prog, &c, None, "verified-literals");
            }
        }
    }
    if i < N_RAMPS {
        // item = ramp family x width (width index 0 is the family's original width)
        let wi = i / N_RAMP_FAMILIES;
        let i = i % N_RAMP_FAMILIES;
        let wd = match wi {
            0 => if i == 3 { 40 } else { 120 },
            1 => if i == 3 { 120 } else { 40 },
            _ => RAMP_WIDTHS[2],
        };
        let wtag = if wi == 0 { String::new() } else { format!(":w{wd}") };
        // Depth grows in steps of 2. A polynomial law has step ratios that fall towards 1
        // ((d+2)/d)^k strictly decreasing in d); an exponential one keeps its ratio. A layout regime
        // change (the text stops fitting the width) gives a burst of large ratios that then decay.
        // So: more than polynomial = over three consecutive steps at depths >= 8 the ratio does
        // not decay (each >= 0.9 x the previous) and all three are >= 2. The ramp stops at its first
        // finding so that a regression is reported from a case that still terminates quickly.
        let dmax = if (6..=9).contains(&i) { 24 } else { 32 };
        let fam = format!("depth-ramp:ramp{i}{wtag}");
        let findings_before = ctx.findings.len();
        let mut series: Vec<(usize, u64)> = Vec::new();
        let mut d = 4;
        while d <= dmax && ctx.findings.len() == findings_before {
            let src = ramp(i, d);
            let mut c = Cfg::with_syntax(if i >= 14 { "Luau" } else { "Lua51" });
            c.column_width = wd;
            if let Some(t) = total(ctx, &format!("c07:ramp:{i}{wtag}:d{d}"), &src, &c, None, &fam) {
                series.push((d, t));
                ctx.count_n(&format!("ramp{i}{wtag}.ticks_at_d{d}"), t);
                let n = series.len();
                if n >= 4 && series[n - 3].0 >= 8 {
                    let r = |k: usize| series[k].1 as f64 / series[k - 1].1.max(1) as f64;
                    let (r1, r2, r3) = (r(n - 3), r(n - 2), r(n - 1));
                    if series[n - 4].1 > 50 && r1 >= 2.0 && r2 >= 2.0 && r3 >= 2.0 && r3 >= 0.9 * r2 && r2 >= 0.9 * r1 {
                        // a steeper law than the listed ones (x4 per step = x2 per level) is another finding
                        let steep = if r1.min(r2).min(r3) >= 6.0 { ":steep" } else { "" };
                        ctx.finding(
                            "step-growth",
                            &format!("ticks-growth:ramp{i}{wtag}{steep}"),
                            &format!("logical steps per depth {:?}: the last three step ratios are >= 2 and do not decay (more than polynomial)", &series[n - 4..]),
                            case_json(&format!("c07:ramp:{i}{wtag}:d{d}"), &src, &c, None),
                        );
                    }
                }
            }
            d += 2;
        }
        return;
    }
    i -= N_RAMPS;
    // (g) generated programs x statement-aligned ranges x narrow and ordinary widths (seeded)
    if i % 2 == 1 {
        let mut r = Rng::derive(ctx.seed, 0xc7a, i as u64);
        let syntax = *r.pick(&cfg::SYNTAXES);
        let prog = crate::gen::program(&mut r, syntax);
        let mut c = Cfg::random(&mut r, syntax, 1);
        c.sort_requires = r.chance(1, 4);
        if let Some(ast) = fmt::parse(&prog, &c) {
            let infos = crate::stmts::collect(&ast);
            if !infos.is_empty() {
                for _ in 0..3 {
                    let a = &infos[r.below(infos.len())];
                    let b = &infos[r.below(infos.len())];
                    let (s0, e0) = (a.start.min(b.start), a.end.max(b.end));
                    let range = match r.below(4) {
                        0 => (Some(s0), None),
                        1 => (None, Some(e0)),
                        _ => (Some(s0), Some(e0)),
                    };
                    total(ctx, &format!("c07:genrange:{}:{i}:{:?}", ctx.seed, range), &prog, &c, Some(range), "generated-range");
                }
            }
        }
        return;
    }
    // (e) destroyed inputs (seeded)
    let mut r = Rng::derive(ctx.seed, 0xc07, i as u64);
    let a = &w.corpus[r.below(w.corpus.len())];
    let b = &w.corpus[r.below(w.corpus.len())];
    let mut text = mutate::destroy(&mut r, &a.text, &b.text);
    if r.chance(1, 3) {
        text = mutate::destroy(&mut r, &text, &a.text);
    }
    let mut c = Cfg::random(&mut r, a.syntax, 1);
    if r.chance(1, 4) {
        c.syntax = *r.pick(&cfg::SYNTAXES);
    }
    let range = if r.chance(1, 5) { Some((Some(r.below(text.len() + 2)), Some(r.below(text.len() + 2)))) } else { None };
    let fam = if fmt::parses(&text, &c) { "destroyed-still-valid" } else { "destroyed-invalid" };
    total(ctx, &format!("c07:destroy:{}:{i}", ctx.seed), &text, &c, range, fam);
    let _ = rng::mix(0);
}

pub fn replay(ctx: &mut Ctx, case: &serde_json::Value) {
    let src = case["src"].as_str().unwrap_or("");
    let c = Cfg::from_json(&case["cfg"]).unwrap_or_default();
    if case["verify"].as_bool() == Some(true) {
        let family = case["family"].as_str().unwrap_or("replay");
        verified(ctx, "replay", src, &c, crate::ctx::range_from_json(&case["range"]), family, family == "verified-literals");
        return;
    }
    total(ctx, "replay", src, &c, crate::ctx::range_from_json(&case["range"]), case["family"].as_str().unwrap_or("replay"));
}
