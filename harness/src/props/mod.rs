pub mod c04;
pub mod c05;
pub mod c07x;
pub mod c08;
pub mod c09;
pub mod c11;
pub mod c12;
pub mod libprops;
