pub mod c04;
pub mod c05;
pub mod libprops;
