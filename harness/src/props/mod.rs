pub mod libprops;
