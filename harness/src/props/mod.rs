pub mod c04;
pub mod libprops;
