//! W-corpus: the repository's own unformatted inputs, each tagged with the dialect its directory implies.
use std::path::Path;

#[derive(Clone, Debug)]
pub struct CorpusFile {
    pub name: String, // e.g. inputs/foo.lua
    pub syntax: &'static str,
    pub text: String,
}

const DIRS: [(&str, &str); 11] = [
    ("tests/inputs", "Lua51"),
    ("tests/inputs-full_moon", "Lua51"),
    ("tests/inputs-luau", "Luau"),
    ("tests/inputs-luau-full_moon", "Luau"),
    ("tests/inputs-lua52", "Lua52"),
    ("tests/inputs-lua53", "Lua53"),
    ("tests/inputs-lua54", "Lua54"),
    ("tests/inputs-ignore", "Lua51"),
    ("tests/inputs-collapse-single-statement", "Lua51"),
    ("tests/inputs-sort-requires", "Lua51"),
    ("benches", "Lua51"),
];

pub fn repo_root() -> String {
    std::env::var("SV_REPO").unwrap_or_else(|_| "/repo".to_string())
}

pub fn load() -> Vec<CorpusFile> {
    let root = repo_root();
    let mut out = Vec::new();
    for (d, syn) in DIRS {
        let p = Path::new(&root).join(d);
        let mut names: Vec<_> = match std::fs::read_dir(&p) {
            Ok(rd) => rd
                .filter_map(|e| e.ok())
                .map(|e| e.file_name().to_string_lossy().to_string())
                .filter(|n| n.ends_with(".lua") || n.ends_with(".luau"))
                .collect(),
            Err(_) => continue,
        };
        names.sort();
        for n in names {
            if let Ok(text) = std::fs::read_to_string(p.join(&n)) {
                out.push(CorpusFile {
                    name: format!("{}/{}", d.trim_start_matches("tests/"), n),
                    syntax: syn,
                    text,
                });
            }
        }
    }
    // the harness's own inputs: constructs the repository's inputs contain rarely or not at all
    // (appended, so that every existing file keeps its position)
    for (name, syn, text) in OWN {
        out.push(CorpusFile { name: name.to_string(), syntax: syn, text: text.to_string() });
    }
    out
}

const OWN: [(&str, &str, &str); 9] = [
    ("own/lists.lua", "Lua51", include_str!("../corpus/lists.lua")),
    ("own/calls.lua", "Lua51", include_str!("../corpus/calls.lua")),
    ("own/strings.lua", "Lua51", include_str!("../corpus/strings.lua")),
    ("own/luau_types.luau", "Luau", include_str!("../corpus/luau_types.luau")),
    ("own/lua54.lua", "Lua54", include_str!("../corpus/lua54.lua")),
    ("own/unicode.lua", "Lua51", include_str!("../corpus/unicode.lua")),
    ("own/misc.lua", "Lua51", include_str!("../corpus/misc.lua")),
    ("own/luau2.luau", "Luau", include_str!("../corpus/luau2.luau")),
    ("own/crstrings.lua", "Lua52", include_str!("../corpus/crstrings.lua")),
];
