//! Statement inventory of a parsed program in pre-order: token span, span including trivia and the
//! terminating semicolon, nesting. Formatting preserves statement structure, so the k-th statement
//! of the input, of the whole-file output and of a range/ignore output are the same statement.
use full_moon::ast::{Ast, Block, LastStmt, Stmt};
use full_moon::node::Node;
use full_moon::tokenizer::TokenReference;
use full_moon::visitors::Visitor;
use std::collections::HashMap;

#[derive(Clone, Debug)]
pub struct StmtInfo {
    /// first token start .. last token end (no trivia, no semicolon)
    pub start: usize,
    pub end: usize,
    /// start of the leading trivia of the first token
    pub lead_start: usize,
    /// end of the trailing trivia of the last token, or of the semicolon when there is one
    pub trail_end: usize,
    /// end of the semicolon token itself (== end when none)
    pub semi_end: usize,
    pub has_semi: bool,
    pub parent: Option<usize>,
    pub depth: usize,
    pub kind: &'static str,
    pub is_last_stmt: bool,
    /// index among the statements of its block, and the block's statement count
    pub index_in_block: usize,
    pub block_len: usize,
    /// number of enclosing anonymous functions (function expressions)
    pub anon_fn_depth: usize,
    /// identifies the block the statement belongs to
    pub block_id: usize,
}

struct Collect {
    out: Vec<StmtInfo>,
    stack: Vec<usize>,
    semis: HashMap<usize, (usize, usize, usize, usize)>, // stmt ptr -> (semi_end, trail_end, index, block_len)
    blocks: HashMap<usize, usize>,
    n_blocks: usize,
    anon: usize,
}

fn tr_span(t: &TokenReference) -> (usize, usize, usize, usize) {
    let s = t.token().start_position().bytes();
    let e = t.token().end_position().bytes();
    let ls = t.leading_trivia().next().map(|x| x.start_position().bytes()).unwrap_or(s);
    let te = t.trailing_trivia().last().map(|x| x.end_position().bytes()).unwrap_or(e);
    (ls, s, e, te)
}

fn stmt_kind(s: &Stmt) -> &'static str {
    match s {
        Stmt::Assignment(_) => "Assignment",
        Stmt::Do(_) => "Do",
        Stmt::FunctionCall(_) => "FunctionCall",
        Stmt::FunctionDeclaration(_) => "FunctionDeclaration",
        Stmt::GenericFor(_) => "GenericFor",
        Stmt::If(_) => "If",
        Stmt::LocalAssignment(_) => "LocalAssignment",
        Stmt::LocalFunction(_) => "LocalFunction",
        Stmt::NumericFor(_) => "NumericFor",
        Stmt::Repeat(_) => "Repeat",
        Stmt::While(_) => "While",
        Stmt::CompoundAssignment(_) => "CompoundAssignment",
        Stmt::ExportedTypeDeclaration(_) => "ExportedTypeDeclaration",
        Stmt::TypeDeclaration(_) => "TypeDeclaration",
        Stmt::Goto(_) => "Goto",
        Stmt::Label(_) => "Label",
        _ => "Other",
    }
}

impl Collect {
    fn push<N: Node>(&mut self, n: &N, ptr: usize, kind: &'static str, is_last: bool) {
        // full_moon's token iterator is not in source order for contained spans (the closing
        // bracket comes before the contents), so find the first/last token by position
        let mut first: Option<(usize, usize, usize, usize)> = None;
        let mut last: Option<(usize, usize, usize, usize)> = None;
        for t in n.tokens() {
            let x = tr_span(t);
            if first.map(|f| x.1 < f.1).unwrap_or(true) {
                first = Some(x);
            }
            if last.map(|l| x.2 > l.2).unwrap_or(true) {
                last = Some(x);
            }
        }
        let (ls, s) = first.map(|x| (x.0, x.1)).unwrap_or((0, 0));
        let (e, te) = last.map(|x| (x.2, x.3)).unwrap_or((s, s));
        let (semi_end, trail_end, idx, blen, has_semi) = match self.semis.get(&ptr) {
            Some((se, te2, i, l)) if *se > 0 => (*se, *te2, *i, *l, true),
            Some((_, _, i, l)) => (e, te, *i, *l, false),
            None => (e, te, 0, 0, false),
        };
        let parent = self.stack.last().copied();
        let depth = self.stack.len();
        self.out.push(StmtInfo {
            start: s,
            end: e,
            lead_start: ls,
            trail_end,
            semi_end,
            has_semi,
            parent,
            depth,
            kind,
            is_last_stmt: is_last,
            index_in_block: idx,
            block_len: blen,
            anon_fn_depth: self.anon,
            block_id: self.blocks.get(&ptr).copied().unwrap_or(0),
        });
        self.stack.push(self.out.len() - 1);
    }
}

impl Visitor for Collect {
    fn visit_block(&mut self, b: &Block) {
        self.n_blocks += 1;
        let bid = self.n_blocks;
        for s in b.stmts() {
            self.blocks.insert(s as *const Stmt as usize, bid);
        }
        if let Some(l) = b.last_stmt() {
            self.blocks.insert(l as *const LastStmt as usize, bid);
        }
        let n = b.stmts().count() + if b.last_stmt().is_some() { 1 } else { 0 };
        for (i, (s, semi)) in b.stmts_with_semicolon().enumerate() {
            let v = match semi {
                Some(t) => {
                    let x = tr_span(t);
                    (x.2, x.3, i, n)
                }
                None => (0, 0, i, n),
            };
            self.semis.insert(s as *const Stmt as usize, v);
        }
        if let Some((l, semi)) = b.last_stmt_with_semicolon() {
            let v = match semi {
                Some(t) => {
                    let x = tr_span(t);
                    (x.2, x.3, n - 1, n)
                }
                None => (0, 0, n - 1, n),
            };
            self.semis.insert(l as *const LastStmt as usize, v);
        }
    }
    fn visit_expression(&mut self, e: &full_moon::ast::Expression) {
        if let full_moon::ast::Expression::Function(_) = e {
            self.anon += 1;
        }
    }
    fn visit_expression_end(&mut self, e: &full_moon::ast::Expression) {
        if let full_moon::ast::Expression::Function(_) = e {
            self.anon -= 1;
        }
    }
    fn visit_stmt(&mut self, s: &Stmt) {
        self.push(s, s as *const Stmt as usize, stmt_kind(s), false);
    }
    fn visit_stmt_end(&mut self, _s: &Stmt) {
        self.stack.pop();
    }
    fn visit_last_stmt(&mut self, s: &LastStmt) {
        let kind = match s {
            LastStmt::Return(_) => "Return",
            LastStmt::Break(_) => "Break",
            LastStmt::Continue(_) => "Continue",
            _ => "LastOther",
        };
        self.push(s, s as *const LastStmt as usize, kind, true);
    }
    fn visit_last_stmt_end(&mut self, _s: &LastStmt) {
        self.stack.pop();
    }
}

pub fn collect(ast: &Ast) -> Vec<StmtInfo> {
    let mut c = Collect {
        out: Vec::new(),
        stack: Vec::new(),
        semis: HashMap::new(),
        blocks: HashMap::new(),
        n_blocks: 0,
        anon: 0,
    };
    c.visit_ast(ast);
    c.out
}

/// whether only whitespace precedes `pos` on its line
pub fn starts_own_line(src: &str, pos: usize) -> bool {
    let ls = src[..pos].rfind('\n').map(|p| p + 1).unwrap_or(0);
    src[ls..pos].chars().all(|c| c == ' ' || c == '\t')
}

pub fn line_start(src: &str, pos: usize) -> usize {
    src[..pos].rfind('\n').map(|p| p + 1).unwrap_or(0)
}
