//! Configuration values as the harness sees them: plain data, JSON in/out, conversion to the real
//! `stylua_lib::Config` through the Rust enum variants directly (no serde/clap/ec4rs involved).
use crate::rng::Rng;
use serde_json::{json, Value};
use stylua_lib as sl;

pub const SYNTAXES: [&str; 7] = ["All", "Lua51", "Lua52", "Lua53", "Lua54", "LuaJIT", "Luau"];
pub const LINE_ENDINGS: [&str; 2] = ["Unix", "Windows"];
pub const INDENT_TYPES: [&str; 2] = ["Tabs", "Spaces"];
pub const QUOTES: [&str; 4] = ["AutoPreferDouble", "AutoPreferSingle", "ForceDouble", "ForceSingle"];
pub const CALL_PARENS: [&str; 5] = ["Always", "NoSingleString", "NoSingleTable", "None", "Input"];
pub const COLLAPSE: [&str; 4] = ["Never", "FunctionOnly", "ConditionalOnly", "Always"];
pub const SPACE_AFTER: [&str; 4] = ["Never", "Definitions", "Calls", "Always"];

#[derive(Clone, Debug, PartialEq, Eq, Hash)]
pub struct Cfg {
    pub syntax: &'static str,
    pub column_width: usize,
    pub line_endings: &'static str,
    pub indent_type: &'static str,
    pub indent_width: usize,
    pub quote_style: &'static str,
    pub call_parentheses: &'static str,
    pub collapse_simple_statement: &'static str,
    pub sort_requires: bool,
    pub space_after_function_names: &'static str,
}

fn intern(list: &[&'static str], s: &str) -> Option<&'static str> {
    list.iter().find(|x| x.eq_ignore_ascii_case(s)).copied()
}

impl Default for Cfg {
    fn default() -> Self {
        Cfg {
            syntax: "All",
            column_width: 120,
            line_endings: "Unix",
            indent_type: "Tabs",
            indent_width: 4,
            quote_style: "AutoPreferDouble",
            call_parentheses: "Always",
            collapse_simple_statement: "Never",
            sort_requires: false,
            space_after_function_names: "Never",
        }
    }
}

impl Cfg {
    pub fn with_syntax(syntax: &'static str) -> Self {
        Cfg {
            syntax,
            ..Default::default()
        }
    }

    pub fn to_json(&self) -> Value {
        json!({
            "syntax": self.syntax, "column_width": self.column_width,
            "line_endings": self.line_endings, "indent_type": self.indent_type,
            "indent_width": self.indent_width, "quote_style": self.quote_style,
            "call_parentheses": self.call_parentheses,
            "collapse_simple_statement": self.collapse_simple_statement,
            "sort_requires": self.sort_requires,
            "space_after_function_names": self.space_after_function_names,
        })
    }

    pub fn from_json(v: &Value) -> Option<Cfg> {
        let d = Cfg::default();
        let s = |k: &str, list: &[&'static str], dv: &'static str| -> Option<&'static str> {
            match v.get(k) {
                None | Some(Value::Null) => Some(dv),
                Some(x) => intern(list, x.as_str()?),
            }
        };
        Some(Cfg {
            syntax: s("syntax", &SYNTAXES, d.syntax)?,
            column_width: v.get("column_width").and_then(|x| x.as_u64()).map(|x| x as usize).unwrap_or(d.column_width),
            line_endings: s("line_endings", &LINE_ENDINGS, d.line_endings)?,
            indent_type: s("indent_type", &INDENT_TYPES, d.indent_type)?,
            indent_width: v.get("indent_width").and_then(|x| x.as_u64()).map(|x| x as usize).unwrap_or(d.indent_width),
            quote_style: s("quote_style", &QUOTES, d.quote_style)?,
            call_parentheses: s("call_parentheses", &CALL_PARENS, d.call_parentheses)?,
            collapse_simple_statement: s("collapse_simple_statement", &COLLAPSE, d.collapse_simple_statement)?,
            sort_requires: v.get("sort_requires").and_then(|x| x.as_bool()).unwrap_or(false),
            space_after_function_names: s("space_after_function_names", &SPACE_AFTER, d.space_after_function_names)?,
        })
    }

    pub fn short(&self) -> String {
        format!(
            "{}/w{}/{}/{}{}/{}/{}/{}/{}{}",
            self.syntax,
            self.column_width,
            &self.line_endings[..1],
            &self.indent_type[..1],
            self.indent_width,
            self.quote_style,
            self.call_parentheses,
            self.collapse_simple_statement,
            self.space_after_function_names,
            if self.sort_requires { "/sort" } else { "" }
        )
    }

    /// Lua 5.3 / 5.4 / All distinguish integer and float literals
    pub fn int_subtype(&self) -> bool {
        matches!(self.syntax, "All" | "Lua53" | "Lua54")
    }

    pub fn fm_version(&self) -> full_moon::LuaVersion {
        match self.syntax {
            "Lua51" => full_moon::LuaVersion::lua51(),
            "Lua52" => full_moon::LuaVersion::lua52(),
            "Lua53" => full_moon::LuaVersion::lua53(),
            "Lua54" => full_moon::LuaVersion::lua54(),
            "Luau" => full_moon::LuaVersion::luau(),
            "LuaJIT" => full_moon::LuaVersion::luajit(),
            _ => full_moon::LuaVersion::new(),
        }
    }

    #[allow(deprecated)]
    pub fn to_stylua(&self) -> sl::Config {
        let mut c = sl::Config::new();
        c.syntax = match self.syntax {
            "Lua51" => sl::LuaVersion::Lua51,
            "Lua52" => sl::LuaVersion::Lua52,
            "Lua53" => sl::LuaVersion::Lua53,
            "Lua54" => sl::LuaVersion::Lua54,
            "Luau" => sl::LuaVersion::Luau,
            "LuaJIT" => sl::LuaVersion::LuaJIT,
            _ => sl::LuaVersion::All,
        };
        c.column_width = self.column_width;
        c.line_endings = match self.line_endings {
            "Windows" => sl::LineEndings::Windows,
            _ => sl::LineEndings::Unix,
        };
        c.indent_type = match self.indent_type {
            "Spaces" => sl::IndentType::Spaces,
            _ => sl::IndentType::Tabs,
        };
        c.indent_width = self.indent_width;
        c.quote_style = match self.quote_style {
            "AutoPreferSingle" => sl::QuoteStyle::AutoPreferSingle,
            "ForceDouble" => sl::QuoteStyle::ForceDouble,
            "ForceSingle" => sl::QuoteStyle::ForceSingle,
            _ => sl::QuoteStyle::AutoPreferDouble,
        };
        c.call_parentheses = match self.call_parentheses {
            "NoSingleString" => sl::CallParenType::NoSingleString,
            "NoSingleTable" => sl::CallParenType::NoSingleTable,
            "None" => sl::CallParenType::None,
            "Input" => sl::CallParenType::Input,
            _ => sl::CallParenType::Always,
        };
        c.collapse_simple_statement = match self.collapse_simple_statement {
            "FunctionOnly" => sl::CollapseSimpleStatement::FunctionOnly,
            "ConditionalOnly" => sl::CollapseSimpleStatement::ConditionalOnly,
            "Always" => sl::CollapseSimpleStatement::Always,
            _ => sl::CollapseSimpleStatement::Never,
        };
        c.sort_requires = sl::SortRequiresConfig { enabled: self.sort_requires };
        c.space_after_function_names = match self.space_after_function_names {
            "Definitions" => sl::SpaceAfterFunctionNames::Definitions,
            "Calls" => sl::SpaceAfterFunctionNames::Calls,
            "Always" => sl::SpaceAfterFunctionNames::Always,
            _ => sl::SpaceAfterFunctionNames::Never,
        };
        c
    }

    /// A seeded random configuration (syntax fixed by the caller).
    pub fn random(rng: &mut Rng, syntax: &'static str, min_width: usize) -> Cfg {
        let widths = [1usize, 2, 10, 20, 30, 40, 50, 60, 70, 80, 90, 100, 120, 160, 200, usize::MAX];
        let mut w = *rng.pick(&widths);
        if rng.chance(1, 3) {
            w = rng.range(min_width.max(1), 140);
        }
        if w < min_width {
            w = min_width + rng.below(100);
        }
        Cfg {
            syntax,
            column_width: w,
            line_endings: *rng.pick(&LINE_ENDINGS),
            indent_type: *rng.pick(&INDENT_TYPES),
            indent_width: *rng.pick(&[1usize, 2, 3, 4, 4, 4, 8, 16]),
            quote_style: *rng.pick(&QUOTES),
            call_parentheses: *rng.pick(&CALL_PARENS),
            collapse_simple_statement: *rng.pick(&COLLAPSE),
            sort_requires: false,
            space_after_function_names: *rng.pick(&SPACE_AFTER),
        }
    }
}

/// A fixed 12-row covering array over the enum options (every pair of values of two different
/// options occurs in at least one row for the larger domains; small and seed-independent).
pub fn option_rows() -> Vec<Cfg> {
    let rows: [(usize, usize, usize, usize, usize, usize, usize); 12] = [
        // le, it, iw, quote, callp, collapse, space
        (0, 0, 4, 0, 0, 0, 0),
        (1, 1, 2, 1, 1, 1, 1),
        (0, 1, 4, 2, 2, 2, 2),
        (1, 0, 8, 3, 3, 3, 3),
        (0, 1, 3, 0, 4, 1, 2),
        (1, 0, 4, 1, 0, 2, 3),
        (0, 0, 2, 2, 1, 3, 0),
        (1, 1, 1, 3, 2, 0, 1),
        (0, 1, 8, 1, 3, 0, 2),
        (1, 0, 3, 0, 2, 3, 1),
        (0, 0, 16, 3, 4, 2, 0),
        (1, 1, 4, 2, 0, 1, 3),
    ];
    rows.iter()
        .map(|r| Cfg {
            syntax: "All",
            column_width: 120,
            line_endings: LINE_ENDINGS[r.0],
            indent_type: INDENT_TYPES[r.1],
            indent_width: r.2,
            quote_style: QUOTES[r.3],
            call_parentheses: CALL_PARENS[r.4],
            collapse_simple_statement: COLLAPSE[r.5],
            sort_requires: false,
            space_after_function_names: SPACE_AFTER[r.6],
        })
        .collect()
}
