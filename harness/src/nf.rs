//! O-N: semantic normal form of a full_moon AST.
//!
//! N(ast) is a bracketed string produced by a generic traversal (full_moon's `Visitor`): every AST
//! node contributes "(Kind" … ")" and every significant token its normalised text. The differences
//! the property C02 allows are erased and nothing else:
//!   * trivia is never visited;
//!   * `;` and `,` tokens are dropped (semicolons, table separators, trailing separators);
//!   * string and number tokens enter as decoded values (own decoders in lex.rs);
//!   * `f"s"` / `f{t}` are emitted as one-argument parenthesised calls;
//!   * a `Parentheses` expression node is transparent, UNLESS its innermost expression is a call
//!     or `...` and the node sits in a multi-value-sensitive position (last item of a return /
//!     argument / assignment / local / generic-for list, or last positional table field): then it
//!     is emitted as "(Trunc …)". Operator grouping needs no rule: it is the tree shape;
//!   * the `|` / `&` tokens of Luau unions/intersections are dropped (the nesting carries the
//!     structure, and a leading separator is cosmetic);
//!   * a parenthesised union that is itself an operand of a union is spliced into it (`A | (B | C)`
//!     is `A | B | C`: the parentheses are redundant, union is associative), likewise an
//!     intersection inside an intersection. A union inside an intersection (or the reverse), or
//!     under `?`, keeps its node.
//! This is deliberately not StyLua's own verify_ast.

use crate::lex;
use full_moon::ast::*;
use full_moon::tokenizer::{Token, TokenType};
use full_moon::visitors::Visitor;
use std::collections::HashSet;

pub struct Nf {
    pub out: String,
    /// byte offsets in `out` where each top-level statement starts
    pub top_starts: Vec<usize>,
    stmt_depth: usize,
    sensitive: HashSet<usize>,
    /// stack of node kinds (for token filtering by parent)
    stack: Vec<&'static str>,
    /// per Expression enter: what we emitted, so that the matching end can close it
    expr_emit: Vec<u8>,
    args_emit: Vec<u8>,
    type_emit: Vec<u8>,
    /// the next TypeUnion / TypeIntersection node belongs to a spliced operand: emit nothing
    splice_next: bool,
    chain_emit: Vec<u8>,
    int_subtype: bool,
}

fn strip_parens(e: &Expression) -> &Expression {
    let mut e = e;
    while let Expression::Parentheses { expression, .. } = e {
        e = expression;
    }
    e
}

fn is_multivalue(e: &Expression) -> bool {
    match strip_parens(e) {
        Expression::FunctionCall(_) => true,
        Expression::Symbol(t) => t.token().to_string() == "...",
        _ => false,
    }
}

impl Nf {
    pub fn new(int_subtype: bool) -> Self {
        Nf {
            out: String::new(),
            top_starts: Vec::new(),
            stmt_depth: 0,
            sensitive: HashSet::new(),
            stack: Vec::new(),
            expr_emit: Vec::new(),
            args_emit: Vec::new(),
            type_emit: Vec::new(),
            splice_next: false,
            chain_emit: Vec::new(),
            int_subtype,
        }
    }

    fn open(&mut self, kind: &'static str) {
        self.out.push('(');
        self.out.push_str(kind);
        self.out.push(' ');
        self.stack.push(kind);
    }
    fn close(&mut self) {
        self.out.push(')');
        self.stack.pop();
    }
    fn mark_last<'a, I: Iterator<Item = &'a Expression>>(&mut self, it: I) {
        if let Some(e) = it.last() {
            if matches!(e, Expression::Parentheses { .. }) && is_multivalue(e) {
                self.sensitive.insert(e as *const Expression as usize);
            }
        }
    }
    fn tok(&mut self, text: &str) {
        self.out.push_str(text);
        self.out.push(' ');
    }
}

macro_rules! plain_nodes {
    ($( $enter:ident, $leave:ident, $ty:ty, $name:literal; )+) => {
        $(
            fn $enter(&mut self, _n: &$ty) { self.open($name); }
            fn $leave(&mut self, _n: &$ty) { self.close(); }
        )+
    };
}

impl Visitor for Nf {
    plain_nodes! {
        visit_block, visit_block_end, Block, "Block";
        visit_call, visit_call_end, Call, "Call";
        visit_do, visit_do_end, Do, "Do";
        visit_else_if, visit_else_if_end, ElseIf, "ElseIf";
        visit_field, visit_field_end, Field, "Field";
        visit_function_body, visit_function_body_end, FunctionBody, "FunctionBody";
        visit_function_call, visit_function_call_end, FunctionCall, "FunctionCall";
        visit_function_declaration, visit_function_declaration_end, FunctionDeclaration, "FunctionDeclaration";
        visit_function_name, visit_function_name_end, FunctionName, "FunctionName";
        visit_if, visit_if_end, If, "If";
        visit_index, visit_index_end, Index, "Index";
        visit_local_function, visit_local_function_end, LocalFunction, "LocalFunction";
        visit_method_call, visit_method_call_end, MethodCall, "MethodCall";
        visit_numeric_for, visit_numeric_for_end, NumericFor, "NumericFor";
        visit_parameter, visit_parameter_end, Parameter, "Parameter";
        visit_prefix, visit_prefix_end, Prefix, "Prefix";
        visit_repeat, visit_repeat_end, Repeat, "Repeat";
        visit_suffix, visit_suffix_end, Suffix, "Suffix";
        visit_un_op, visit_un_op_end, UnOp, "UnOp";
        visit_var, visit_var_end, Var, "Var";
        visit_var_expression, visit_var_expression_end, VarExpression, "VarExpression";
        visit_while, visit_while_end, While, "While";
        visit_compound_assignment, visit_compound_assignment_end, luau::CompoundAssignment, "CompoundAssignment";
        visit_compound_op, visit_compound_op_end, luau::CompoundOp, "CompoundOp";
        visit_else_if_expression, visit_else_if_expression_end, luau::ElseIfExpression, "ElseIfExpression";
        visit_exported_type_declaration, visit_exported_type_declaration_end, luau::ExportedTypeDeclaration, "ExportedTypeDeclaration";
        visit_exported_type_function, visit_exported_type_function_end, luau::ExportedTypeFunction, "ExportedTypeFunction";
        visit_generic_declaration, visit_generic_declaration_end, luau::GenericDeclaration, "GenericDeclaration";
        visit_generic_declaration_parameter, visit_generic_declaration_parameter_end, luau::GenericDeclarationParameter, "GenericDeclarationParameter";
        visit_generic_parameter_info, visit_generic_parameter_info_end, luau::GenericParameterInfo, "GenericParameterInfo";
        visit_if_expression, visit_if_expression_end, luau::IfExpression, "IfExpression";
        visit_indexed_type_info, visit_indexed_type_info_end, luau::IndexedTypeInfo, "IndexedTypeInfo";
        visit_interpolated_string, visit_interpolated_string_end, luau::InterpolatedString, "InterpolatedString";
        visit_type_argument, visit_type_argument_end, luau::TypeArgument, "TypeArgument";
        visit_type_assertion, visit_type_assertion_end, luau::TypeAssertion, "TypeAssertion";
        visit_type_declaration, visit_type_declaration_end, luau::TypeDeclaration, "TypeDeclaration";
        visit_type_field, visit_type_field_end, luau::TypeField, "TypeField";
        visit_type_field_key, visit_type_field_key_end, luau::TypeFieldKey, "TypeFieldKey";
        visit_type_function, visit_type_function_end, luau::TypeFunction, "TypeFunction";
        visit_type_specifier, visit_type_specifier_end, luau::TypeSpecifier, "TypeSpecifier";
        visit_goto, visit_goto_end, lua52::Goto, "Goto";
        visit_label, visit_label_end, lua52::Label, "Label";
        visit_attribute, visit_attribute_end, lua54::Attribute, "Attribute";
    }

    fn visit_stmt(&mut self, _n: &Stmt) {
        if self.stmt_depth == 0 {
            self.top_starts.push(self.out.len());
        }
        self.stmt_depth += 1;
        self.open("Stmt");
    }
    fn visit_stmt_end(&mut self, _n: &Stmt) {
        self.close();
        self.stmt_depth -= 1;
    }
    fn visit_last_stmt(&mut self, _n: &LastStmt) {
        if self.stmt_depth == 0 {
            self.top_starts.push(self.out.len());
        }
        self.stmt_depth += 1;
        self.open("LastStmt");
    }
    fn visit_last_stmt_end(&mut self, _n: &LastStmt) {
        self.close();
        self.stmt_depth -= 1;
    }

    // nodes that own a multi-value-sensitive list
    fn visit_return(&mut self, n: &Return) {
        self.mark_last(n.returns().iter());
        self.open("Return");
    }
    fn visit_return_end(&mut self, _n: &Return) {
        self.close();
    }
    fn visit_assignment(&mut self, n: &Assignment) {
        self.mark_last(n.expressions().iter());
        self.open("Assignment");
    }
    fn visit_assignment_end(&mut self, _n: &Assignment) {
        self.close();
    }
    fn visit_local_assignment(&mut self, n: &LocalAssignment) {
        self.mark_last(n.expressions().iter());
        self.open("LocalAssignment");
    }
    fn visit_local_assignment_end(&mut self, _n: &LocalAssignment) {
        self.close();
    }
    fn visit_generic_for(&mut self, n: &GenericFor) {
        self.mark_last(n.expressions().iter());
        self.open("GenericFor");
    }
    fn visit_generic_for_end(&mut self, _n: &GenericFor) {
        self.close();
    }
    fn visit_table_constructor(&mut self, n: &TableConstructor) {
        if let Some(Field::NoKey(e)) = n.fields().iter().last() {
            if matches!(e, Expression::Parentheses { .. }) && is_multivalue(e) {
                self.sensitive.insert(e as *const Expression as usize);
            }
        }
        self.open("TableConstructor");
    }
    fn visit_table_constructor_end(&mut self, _n: &TableConstructor) {
        self.close();
    }

    fn visit_function_args(&mut self, n: &FunctionArgs) {
        match n {
            FunctionArgs::Parentheses { arguments, .. } => {
                self.mark_last(arguments.iter());
                self.open("FunctionArgs");
                self.args_emit.push(1);
            }
            _ => {
                // string / table call sugar: emitted as a one-argument parenthesised call
                self.open("FunctionArgs");
                self.open("Expression");
                self.args_emit.push(2);
            }
        }
    }
    fn visit_function_args_end(&mut self, _n: &FunctionArgs) {
        let k = self.args_emit.pop().unwrap_or(1);
        for _ in 0..k {
            self.close();
        }
    }

    fn visit_expression(&mut self, n: &Expression) {
        match n {
            Expression::Parentheses { .. } => {
                if self.sensitive.contains(&(n as *const Expression as usize)) {
                    self.open("Trunc");
                    self.expr_emit.push(1);
                } else {
                    self.expr_emit.push(0);
                }
            }
            Expression::BinaryOperator { .. } => {
                self.open("BinExp");
                self.expr_emit.push(1);
            }
            Expression::UnaryOperator { .. } => {
                self.open("UnExp");
                self.expr_emit.push(1);
            }
            _ => {
                self.open("Expression");
                self.expr_emit.push(1);
            }
        }
    }
    fn visit_expression_end(&mut self, _n: &Expression) {
        if self.expr_emit.pop().unwrap_or(0) == 1 {
            self.close();
        }
    }

    fn visit_type_union(&mut self, _n: &luau::TypeUnion) {
        if self.splice_next {
            self.splice_next = false;
            self.chain_emit.push(0);
        } else {
            self.open("TypeUnion");
            self.chain_emit.push(1);
        }
    }
    fn visit_type_union_end(&mut self, _n: &luau::TypeUnion) {
        if self.chain_emit.pop().unwrap_or(1) == 1 {
            self.close();
        }
    }
    fn visit_type_intersection(&mut self, _n: &luau::TypeIntersection) {
        if self.splice_next {
            self.splice_next = false;
            self.chain_emit.push(0);
        } else {
            self.open("TypeIntersection");
            self.chain_emit.push(1);
        }
    }
    fn visit_type_intersection_end(&mut self, _n: &luau::TypeIntersection) {
        if self.chain_emit.pop().unwrap_or(1) == 1 {
            self.close();
        }
    }

    fn visit_type_info(&mut self, n: &luau::TypeInfo) {
        // a union operand of a union (only possible through parentheses) is spliced
        match n {
            luau::TypeInfo::Union(_) if self.stack.last() == Some(&"TypeUnion") => {
                self.type_emit.push(0);
                self.splice_next = true;
                return;
            }
            luau::TypeInfo::Intersection(_) if self.stack.last() == Some(&"TypeIntersection") => {
                self.type_emit.push(0);
                self.splice_next = true;
                return;
            }
            _ => {}
        }
        // a parenthesised single type is a redundant parenthesis, except as a generic argument
        // (there it is a type pack)
        if let luau::TypeInfo::Tuple { types, .. } = n {
            if types.len() == 1 && self.stack.last() != Some(&"TGeneric") {
                self.type_emit.push(0);
                return;
            }
        }
        self.type_emit.push(1);
        let name = match n {
            luau::TypeInfo::Array { .. } => "TArray",
            luau::TypeInfo::Basic(_) => "TBasic",
            luau::TypeInfo::String(_) => "TString",
            luau::TypeInfo::Boolean(_) => "TBoolean",
            luau::TypeInfo::Callback { .. } => "TCallback",
            luau::TypeInfo::Generic { .. } => "TGeneric",
            luau::TypeInfo::GenericPack { .. } => "TGenericPack",
            luau::TypeInfo::Intersection(_) => "TIntersection",
            luau::TypeInfo::Module { .. } => "TModule",
            luau::TypeInfo::Optional { .. } => "TOptional",
            luau::TypeInfo::Table { .. } => "TTable",
            luau::TypeInfo::Typeof { .. } => "TTypeof",
            luau::TypeInfo::Tuple { .. } => "TTuple",
            luau::TypeInfo::Union(_) => "TUnion",
            luau::TypeInfo::Variadic { .. } => "TVariadic",
            luau::TypeInfo::VariadicPack { .. } => "TVariadicPack",
            _ => "TOther",
        };
        self.open(name);
    }
    fn visit_type_info_end(&mut self, _n: &luau::TypeInfo) {
        if self.type_emit.pop().unwrap_or(1) == 1 {
            self.close();
        }
    }

    // ---- tokens ----
    fn visit_identifier(&mut self, t: &Token) {
        self.tok(&t.to_string());
    }
    fn visit_number(&mut self, t: &Token) {
        let v = lex::decode_number(&t.to_string(), self.int_subtype);
        self.tok(&format!("N{v:?}"));
    }
    fn visit_string_literal(&mut self, t: &Token) {
        let raw = t.to_string();
        match lex::decode_string(&raw) {
            Some(b) => {
                let mut s = String::with_capacity(b.len() * 2 + 2);
                s.push('S');
                for x in b {
                    s.push_str(&format!("{x:02x}"));
                }
                self.tok(&s);
            }
            None => self.tok(&format!("S?{raw:?}")),
        }
    }
    fn visit_interpolated_string_segment(&mut self, t: &Token) {
        if let TokenType::InterpolatedString { literal, .. } = t.token_type() {
            self.tok(&format!("I{:?}", literal.as_str()));
        }
    }
    fn visit_symbol(&mut self, t: &Token) {
        let s = t.to_string();
        match s.as_str() {
            "(" | ")" | ";" | "," => {}
            "|" if self.stack.last() == Some(&"TypeUnion") => {}
            "&" if self.stack.last() == Some(&"TypeIntersection") => {}
            _ => self.tok(&s),
        }
    }
}

pub struct NfResult {
    pub whole: String,
    pub stmts: Vec<String>,
}

pub fn normal_form(ast: &Ast, int_subtype: bool) -> NfResult {
    let mut v = Nf::new(int_subtype);
    v.visit_ast(ast);
    let mut stmts = Vec::new();
    for (k, st) in v.top_starts.iter().enumerate() {
        let en = v.top_starts.get(k + 1).copied().unwrap_or(v.out.len());
        let mut s = v.out[*st..en].to_string();
        // the last statement slice also holds the closing of the enclosing Block: trim it
        if k + 1 == v.top_starts.len() {
            while s.ends_with(')') && paren_balance(&s) < 0 {
                s.pop();
            }
        }
        stmts.push(s);
    }
    NfResult {
        whole: v.out,
        stmts,
    }
}

fn paren_balance(s: &str) -> i64 {
    // strings are hex-encoded and interpolated segments are Debug-quoted: count only structural
    // parens, i.e. '(' followed by an uppercase letter and ')' not inside a quoted segment
    let b = s.as_bytes();
    let mut bal = 0i64;
    let mut in_q = false;
    let mut i = 0;
    while i < b.len() {
        let c = b[i];
        if in_q {
            if c == b'\\' {
                i += 1;
            } else if c == b'"' {
                in_q = false;
            }
        } else if c == b'"' {
            in_q = true;
        } else if c == b'(' {
            bal += 1;
        } else if c == b')' {
            bal -= 1;
        }
        i += 1;
    }
    bal
}

/// First position where two normal forms differ, with some context, for reports.
pub fn first_diff(a: &str, b: &str) -> String {
    let ab = a.as_bytes();
    let bb = b.as_bytes();
    let mut i = 0;
    while i < ab.len() && i < bb.len() && ab[i] == bb[i] {
        i += 1;
    }
    let lo = i.saturating_sub(60);
    let cut = |s: &str| -> String {
        let mut lo2 = lo.min(s.len());
        while lo2 > 0 && !s.is_char_boundary(lo2) {
            lo2 -= 1;
        }
        let mut hi = (i + 60).min(s.len());
        while hi < s.len() && !s.is_char_boundary(hi) {
            hi += 1;
        }
        s[lo2..hi].to_string()
    };
    format!("at {}: in=…{}… out=…{}…", i, cut(a), cut(b))
}
