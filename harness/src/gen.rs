//! W-gen: grammar-directed program generator with an adversarial trivia renderer.
//!
//! The generator builds a token sequence (with a few structural markers) for a random program of
//! the chosen dialect; the renderer then decides spacing, line breaks, indentation, line endings,
//! redundant parentheses/semicolons, quote forms and number spellings. Every statement uses
//! unique identifiers (`v<stmt#>_<k>`), so statement texts can be located unambiguously in outputs.
//! Comments are placed at statement level only (DESIGN §6.3). Generated text is used only if
//! full_moon accepts it under the chosen syntax (checked by the caller).
use crate::rng::Rng;

#[derive(Clone, Copy)]
pub struct Dialect {
    pub goto: bool,      // 5.2+, LuaJIT
    pub bitops: bool,    // 5.3+
    pub floordiv: bool,  // 5.3+, Luau
    pub attribs: bool,   // 5.4
    pub luau: bool,
    pub jit_nums: bool,
    pub hex_escapes: bool, // \x \z \u (5.2+/Luau/JIT)
    pub int_float: bool,
}

pub fn dialect(syntax: &str) -> Dialect {
    let d = Dialect {
        goto: false,
        bitops: false,
        floordiv: false,
        attribs: false,
        luau: false,
        jit_nums: false,
        hex_escapes: false,
        int_float: false,
    };
    match syntax {
        "Lua52" => Dialect { goto: true, hex_escapes: true, ..d },
        "Lua53" => Dialect { goto: true, bitops: true, floordiv: true, hex_escapes: true, int_float: true, ..d },
        "Lua54" => Dialect { goto: true, bitops: true, floordiv: true, attribs: true, hex_escapes: true, int_float: true, ..d },
        "LuaJIT" => Dialect { goto: true, jit_nums: true, hex_escapes: true, ..d },
        "Luau" => Dialect { floordiv: true, luau: true, hex_escapes: true, ..d },
        // `All`: overlapping syntaxes are ambiguous (labels vs type assertions), keep to the
        // intersection-safe subset plus unambiguous extensions
        "All" => Dialect { bitops: true, floordiv: true, hex_escapes: true, int_float: true, ..d },
        _ => d,
    }
}

#[derive(Clone, Debug)]
pub enum P {
    /// a token
    T(String),
    /// statement boundary: newline strongly preferred (the renderer may use `;` or spaces instead)
    StmtEnd,
    /// block indentation markers
    Indent,
    Dedent,
    /// a comment on its own line before the next statement
    OwnLineComment(String),
    /// a trailing comment after the statement just emitted
    TrailingComment(String),
    /// n blank lines
    Blank(usize),
    /// a line break that is never replaced by `;` (after `do`, `then`, a function header …)
    Nl,
}

pub struct Gen<'a> {
    pub rng: &'a mut Rng,
    pub d: Dialect,
    pub out: Vec<P>,
    stmt_no: usize,
    name_k: usize,
    depth: usize,
    in_loop: usize,
    pub max_depth: usize,
    pub comments: bool,
    pub expr_budget: usize,
    labels: usize,
    /// tame profile: no redundant parentheses, no multi-line strings, no comments
    pub tame: bool,
}

const BINOPS: [(&str, u8, bool); 15] = [
    ("or", 1, false),
    ("and", 2, false),
    ("<", 3, false),
    (">", 3, false),
    ("<=", 3, false),
    (">=", 3, false),
    ("~=", 3, false),
    ("==", 3, false),
    ("..", 9, true),
    ("+", 10, false),
    ("-", 10, false),
    ("*", 11, false),
    ("/", 11, false),
    ("%", 11, false),
    ("^", 14, true),
];
const BITOPS: [(&str, u8, bool); 5] = [("|", 4, false), ("~", 5, false), ("&", 6, false), ("<<", 7, false), (">>", 7, false)];
const UNARY_PREC: u8 = 12;

#[derive(Clone, Debug)]
pub enum E {
    Atom(Vec<String>),
    Bin(&'static str, u8, bool, Box<E>, Box<E>),
    Un(&'static str, Box<E>),
    /// already parenthesised (redundant parens chosen by the generator)
    Paren(Box<E>),
}

impl<'a> Gen<'a> {
    pub fn new(rng: &'a mut Rng, d: Dialect) -> Self {
        Gen {
            rng,
            d,
            out: Vec::new(),
            stmt_no: 0,
            name_k: 0,
            depth: 0,
            in_loop: 0,
            max_depth: 3,
            comments: true,
            expr_budget: 0,
            labels: 0,
            tame: false,
        }
    }

    fn t(&mut self, s: &str) {
        self.out.push(P::T(s.to_string()));
    }
    fn ts(&mut self, ss: &[&str]) {
        for s in ss {
            self.t(s);
        }
    }

    pub fn fresh(&mut self) -> String {
        self.name_k += 1;
        let long = !self.tame && self.rng.chance(1, 6);
        if long {
            format!("v{}_{}_{}", self.stmt_no, self.name_k, "long_identifier_name_for_width")
        } else {
            format!("v{}_{}", self.stmt_no, self.name_k)
        }
    }

    // ---------------------------------------------------------------- literals
    pub fn number(&mut self) -> String {
        let r = self.rng.below(16);
        match r {
            0 => "0".into(),
            1 => format!("{}", self.rng.below(1000)),
            2 => format!("{}.{}", self.rng.below(100), self.rng.below(100)),
            3 => format!(".{}", self.rng.range(1, 99)),
            4 => format!("{}.", self.rng.below(100)),
            5 => format!("{}e{}", self.rng.range(1, 9), self.rng.below(20)),
            6 => format!("{}E-{}", self.rng.range(1, 9), self.rng.below(20)),
            7 => format!("0x{:X}", self.rng.below(65536)),
            8 => format!("0X{:x}", self.rng.below(65536)),
            9 => format!("{}.{}e+{}", self.rng.below(10), self.rng.below(100), self.rng.below(9)),
            10 if self.d.luau => format!("0b{:b}", self.rng.below(255)),
            11 if self.d.luau => format!("1_000_{:03}", self.rng.below(1000)),
            12 if self.d.jit_nums => format!("{}{}", self.rng.below(1000), self.rng.pick(&["LL", "ULL", "ll", "ull", "i"])),
            13 if self.d.hex_escapes && !self.d.luau => format!("0x{:x}.{:x}p{}", self.rng.below(16), self.rng.below(256), self.rng.below(8)),
            14 if self.d.int_float => format!("{}", 9007199254740993u64 + self.rng.below(1000) as u64),
            _ => format!("{}", self.rng.below(100)),
        }
    }

    pub fn string_body_piece(&mut self) -> String {
        let r = self.rng.below(22);
        match r {
            0 => "\\n".into(),
            1 => "\\t".into(),
            2 => "\\\\".into(),
            3 => "\\\"".into(),
            4 => "\\'".into(),
            5 => "\\065".into(),
            6 => "\\10".into(),
            7 if self.d.hex_escapes => "\\x41".into(),
            8 if self.d.hex_escapes => "\\z  ".into(),
            9 if self.d.hex_escapes => "\\u{48}".into(),
            10 => "\\a\\b\\f\\r\\v".into(),
            11 => "é".into(),
            12 => " ".into(),
            13 => "%d".into(),
            14 => "--".into(),
            15 => "]]".into(),
            16 => "[[".into(),
            _ => self.rng.pick(&["a", "hello", "world", "x", "foo bar", "0", "q"]).to_string(),
        }
    }

    pub fn string(&mut self) -> String {
        if self.tame {
            let w = self.rng.pick_s(&["a", "hello", "some text", "x", ""]);
            return if self.rng.chance(1, 2) { format!("\"{w}\"") } else { format!("'{w}'") };
        }
        let form = self.rng.below(10);
        let n = self.rng.below(4);
        match form {
            0..=3 => {
                // double quoted
                let mut b = String::new();
                for _ in 0..n {
                    b.push_str(&self.string_body_piece());
                }
                if self.rng.chance(1, 5) {
                    b.push('\'');
                }
                format!("\"{b}\"")
            }
            4..=6 => {
                let mut b = String::new();
                for _ in 0..n {
                    b.push_str(&self.string_body_piece());
                }
                if self.rng.chance(1, 5) {
                    b.push('"');
                }
                if self.rng.chance(1, 10) {
                    b.push_str("\"\"");
                }
                format!("'{b}'")
            }
            _ => {
                let level = self.rng.below(3);
                let eq = "=".repeat(level);
                let words = ["text", "more text", "line1\nline2", "\nleading newline", "a]b", "\"quoted\"", "--[[ not a comment"];
                let mut b = String::new();
                for _ in 0..=n {
                    b.push_str(self.rng.pick_s(&words));
                    b.push(' ');
                }
                let close = format!("]{eq}]");
                if b.contains(&close) || b.ends_with(']') {
                    b = "plain".into();
                }
                format!("[{eq}[{b}]{eq}]")
            }
        }
    }

    // ---------------------------------------------------------------- expressions
    fn binop(&mut self) -> (&'static str, u8, bool) {
        if self.d.bitops && self.rng.chance(1, 6) {
            return *self.rng.pick(&BITOPS);
        }
        if self.d.floordiv && self.rng.chance(1, 12) {
            return ("//", 11, false);
        }
        *self.rng.pick(&BINOPS)
    }

    fn unop(&mut self) -> &'static str {
        if self.d.bitops && self.rng.chance(1, 8) {
            return "~";
        }
        self.rng.pick_s(&["-", "not", "#", "-", "not"])
    }

    pub fn expr(&mut self, depth: usize) -> E {
        if self.expr_budget == 0 || depth == 0 {
            return self.atom(0);
        }
        self.expr_budget -= 1;
        match self.rng.below(10) {
            0..=3 => {
                let (op, p, r) = self.binop();
                let l = self.expr(depth - 1);
                let rr = self.expr(depth - 1);
                E::Bin(op, p, r, Box::new(l), Box::new(rr))
            }
            4 => {
                let op = self.unop();
                let e = self.expr(depth - 1);
                E::Un(op, Box::new(e))
            }
            5 if !self.tame => {
                let e = self.expr(depth - 1);
                E::Paren(Box::new(e))
            }
            _ => self.atom(depth - 1),
        }
    }

    /// chain of the same operator (exercises hanging of long chains)
    pub fn chain_expr(&mut self, n: usize) -> E {
        let (op, p, r) = self.binop();
        let mut e = self.atom(1);
        for _ in 0..n {
            let rhs = self.atom(1);
            e = if r {
                E::Bin(op, p, r, Box::new(rhs), Box::new(e))
            } else {
                E::Bin(op, p, r, Box::new(e), Box::new(rhs))
            };
        }
        e
    }

    fn name_ref(&mut self) -> String {
        let pool = ["foo", "bar", "baz", "self", "value", "index", "result", "callback", "x", "y", "data", "SomeLongerGlobalName"];
        if self.rng.chance(1, 2) {
            self.rng.pick(&pool).to_string()
        } else {
            self.fresh()
        }
    }

    fn render_to_tokens(&mut self, e: &E) -> Vec<String> {
        let mut v = Vec::new();
        self.render(e, &mut v);
        v
    }

    fn render(&mut self, e: &E, out: &mut Vec<String>) {
        match e {
            E::Atom(ts) => out.extend(ts.iter().cloned()),
            E::Paren(inner) => {
                out.push("(".into());
                self.render(inner, out);
                out.push(")".into());
            }
            E::Un(op, inner) => {
                out.push(op.to_string());
                let need = match &**inner {
                    E::Bin(_, p, _, _, _) => *p < UNARY_PREC,
                    _ => false,
                };
                let extra = !need && !self.tame && self.rng.chance(1, 8);
                if need || extra {
                    out.push("(".into());
                }
                self.render(inner, out);
                if need || extra {
                    out.push(")".into());
                }
            }
            E::Bin(op, p, right, l, r) => {
                let need_l = match &**l {
                    E::Bin(_, lp, _, _, _) => lp < p || (lp == p && *right),
                    E::Un(_, _) => *p > UNARY_PREC,
                    _ => false,
                };
                let need_r = match &**r {
                    E::Bin(_, rp, _, _, _) => rp < p || (rp == p && !*right),
                    _ => false,
                };
                let extra_l = !need_l && !self.tame && self.rng.chance(1, 8);
                let extra_r = !need_r && !self.tame && self.rng.chance(1, 8);
                if need_l || extra_l {
                    out.push("(".into());
                }
                self.render(l, out);
                if need_l || extra_l {
                    out.push(")".into());
                }
                out.push(op.to_string());
                if need_r || extra_r {
                    out.push("(".into());
                }
                self.render(r, out);
                if need_r || extra_r {
                    out.push(")".into());
                }
            }
        }
    }

    fn args_tokens(&mut self, depth: usize) -> Vec<String> {
        // one of the three argument forms
        let mut v = Vec::new();
        match self.rng.below(10) {
            0 => v.push(self.string()),
            1 => v.extend(self.table_tokens(depth)),
            _ => {
                v.push("(".into());
                let n = if self.tame { self.rng.below(3) } else { self.rng.below(4) };
                for i in 0..n {
                    if i > 0 {
                        v.push(",".into());
                    }
                    let e = self.expr(depth);
                    let ts = self.render_to_tokens(&e);
                    v.extend(ts);
                }
                v.push(")".into());
            }
        }
        v
    }

    fn table_tokens(&mut self, depth: usize) -> Vec<String> {
        let mut v = vec!["{".to_string()];
        let n = if depth == 0 || self.tame { self.rng.below(3) } else { self.rng.below(5) };
        for i in 0..n {
            match self.rng.below(4) {
                0 => {
                    let e = self.expr(depth.saturating_sub(1));
                    v.extend(self.render_to_tokens(&e));
                }
                1 => {
                    v.push(self.fresh());
                    v.push("=".into());
                    let e = self.expr(depth.saturating_sub(1));
                    v.extend(self.render_to_tokens(&e));
                }
                2 => {
                    v.push("[".into());
                    let e = if self.rng.chance(1, 2) { E::Atom(vec![self.string()]) } else { self.expr(1) };
                    v.extend(self.render_to_tokens(&e));
                    v.push("]".into());
                    v.push("=".into());
                    let e = self.expr(depth.saturating_sub(1));
                    v.extend(self.render_to_tokens(&e));
                }
                _ => {
                    let e = self.atom(0);
                    v.extend(self.render_to_tokens(&e));
                }
            }
            if i + 1 < n {
                v.push(if self.rng.chance(1, 5) { ";".into() } else { ",".into() });
            } else if self.rng.chance(1, 3) {
                v.push(if self.rng.chance(1, 5) { ";".into() } else { ",".into() });
            }
        }
        v.push("}".into());
        v
    }

    fn suffixed(&mut self, depth: usize, must_end_in_call: bool) -> Vec<String> {
        let mut v: Vec<String> = Vec::new();
        if self.rng.chance(1, 10) {
            v.push("(".into());
            let e = if self.rng.chance(1, 2) { E::Atom(vec![self.string()]) } else { self.expr(1) };
            v.extend(self.render_to_tokens(&e));
            v.push(")".into());
            // a parenthesised prefix needs a suffix to be a prefix expression of interest
            v.push(".".into());
            v.push(self.fresh());
        } else {
            v.push(self.name_ref());
        }
        let n = if self.tame { self.rng.below(2) } else { self.rng.below(4) } + if must_end_in_call { 1 } else { 0 };
        for i in 0..n {
            let last = i + 1 == n;
            let k = if last && must_end_in_call { 2 + self.rng.below(2) } else { self.rng.below(4) };
            match k {
                0 => {
                    v.push(".".into());
                    v.push(self.fresh());
                }
                1 => {
                    v.push("[".into());
                    let e = if self.rng.chance(1, 3) { E::Atom(vec![self.string()]) } else { self.expr(1) };
                    v.extend(self.render_to_tokens(&e));
                    v.push("]".into());
                }
                2 => v.extend(self.args_tokens(depth.saturating_sub(1))),
                _ => {
                    v.push(":".into());
                    v.push(self.fresh());
                    v.extend(self.args_tokens(depth.saturating_sub(1)));
                }
            }
        }
        v
    }

    fn func_body_tokens(&mut self, depth: usize) -> Vec<P> {
        // parameters + block + end, generated into a side buffer
        let saved = std::mem::take(&mut self.out);
        self.t("(");
        let n = self.rng.below(4);
        for i in 0..n {
            if i > 0 {
                self.t(",");
            }
            let nm = self.fresh();
            self.t(&nm);
            if self.d.luau && self.rng.chance(1, 3) {
                self.t(":");
                self.type_tokens(2);
            }
        }
        if self.rng.chance(1, 5) {
            if n > 0 {
                self.t(",");
            }
            self.t("...");
            if self.d.luau && self.rng.chance(1, 3) {
                self.t(":");
                self.t("any");
            }
        }
        self.t(")");
        if self.d.luau && self.rng.chance(1, 4) {
            self.t(":");
            self.type_tokens(2);
        }
        let saved_loop = self.in_loop;
        self.in_loop = 0;
        self.block(depth, 0, 3);
        self.in_loop = saved_loop;
        self.t("end");
        std::mem::replace(&mut self.out, saved)
    }

    pub fn atom(&mut self, depth: usize) -> E {
        let r = self.rng.below(20);
        let toks: Vec<String> = match r {
            0 => vec!["nil".into()],
            1 => vec!["true".into()],
            2 => vec!["false".into()],
            3 | 4 => vec![self.number()],
            5 | 6 => vec![self.string()],
            7 => vec!["...".into()],
            8 | 9 if depth > 0 => self.table_tokens(depth),
            10 | 11 if depth > 0 => self.suffixed(depth, true),
            12 | 13 => self.suffixed(depth.min(1), false),
            14 if depth > 0 && self.depth < self.max_depth => {
                // anonymous function: flatten its pieces into tokens with structural markers kept
                // by emitting through a nested Gen is complex; keep functions simple: single-line
                // token sequence is fine (renderer chooses the newlines).
                let body = self.func_body_tokens(depth.saturating_sub(1));
                let mut v = vec!["function".to_string()];
                for p in body {
                    match p {
                        P::T(s) => v.push(s),
                        P::StmtEnd => v.push("\u{0}stmtend".into()),
                        P::Indent => v.push("\u{0}indent".into()),
                        P::Dedent => v.push("\u{0}dedent".into()),
                        P::OwnLineComment(c) => v.push(format!("\u{0}own{c}")),
                        P::TrailingComment(c) => v.push(format!("\u{0}trail{c}")),
                        P::Blank(n) => v.push(format!("\u{0}blank{n}")),
                        P::Nl => {}
                    }
                }
                v
            }
            15 if self.d.luau && depth > 0 => {
                // if-expression
                let mut v = vec!["if".to_string()];
                let c = self.expr(1);
                v.extend(self.render_to_tokens(&c));
                v.push("then".into());
                let a = self.expr(1);
                v.extend(self.render_to_tokens(&a));
                if self.rng.chance(1, 4) {
                    v.push("elseif".into());
                    let c = self.expr(1);
                    v.extend(self.render_to_tokens(&c));
                    v.push("then".into());
                    let a = self.expr(1);
                    v.extend(self.render_to_tokens(&a));
                }
                v.push("else".into());
                let b = self.expr(1);
                v.extend(self.render_to_tokens(&b));
                // if-expressions are greedy on the right: parenthesise to keep the tree shape ours
                let mut w = vec!["(".to_string()];
                w.extend(v);
                w.push(")".into());
                w
            }
            16 if self.d.luau && depth > 0 => {
                // type assertion
                let mut v = Vec::new();
                let inner = self.atom(0);
                v.push("(".to_string());
                v.extend(self.render_to_tokens(&inner));
                v.push("::".into());
                let saved = std::mem::take(&mut self.out);
                self.type_tokens(1);
                let tt = std::mem::replace(&mut self.out, saved);
                for p in tt {
                    if let P::T(s) = p {
                        v.push(s);
                    }
                }
                v.push(")".into());
                v
            }
            17 if self.d.luau => {
                // interpolated string
                let mut s = String::from("`");
                let n = self.rng.below(3);
                for _ in 0..n {
                    s.push_str(self.rng.pick_s(&["text ", "a", "\\n", "\\{", " "]));
                    if self.rng.chance(1, 2) {
                        s.push('{');
                        let e = self.expr(1);
                        let ts = self.render_to_tokens(&e);
                        let inner = ts.join(" ");
                        // a table constructor directly inside `{` would read as `{{`
                        if inner.starts_with('{') || inner.contains('\u{0}') || inner.contains('`') || inner.contains('\n') {
                            s.push_str("1");
                        } else {
                            s.push_str(&inner);
                        }
                        s.push('}');
                    }
                }
                s.push('`');
                vec![s]
            }
            _ => vec![self.name_ref()],
        };
        E::Atom(toks)
    }

    // ---------------------------------------------------------------- Luau types
    fn type_tokens(&mut self, depth: usize) {
        // tame profile: no nested table / function types (width-dependent type layouts are a
        // known non-idempotent area, exercised by the pinned corpus instead)
        let depth = if self.tame { depth.min(1) } else { depth };
        let r = if depth == 0 { self.rng.below(4) } else { self.rng.below(12) };
        match r {
            0 => self.t("number"),
            1 => self.t("string"),
            2 => self.t("any"),
            3 => {
                let n = self.rng.pick(&["Foo", "Bar", "T", "Instance"]).to_string();
                self.t(&n);
            }
            4 => {
                self.type_tokens(depth - 1);
                self.t("?");
            }
            5 => {
                let n = self.rng.range(2, 4);
                if self.rng.chance(1, 4) {
                    self.t("|");
                }
                for i in 0..n {
                    if i > 0 {
                        self.t("|");
                    }
                    self.type_tokens(0);
                }
            }
            6 => {
                self.type_tokens(0);
                self.t("&");
                self.type_tokens(0);
            }
            7 => {
                self.t("{");
                let n = self.rng.below(4);
                for i in 0..n {
                    if i > 0 {
                        self.t(",");
                    }
                    let nm = self.fresh();
                    self.t(&nm);
                    self.t(":");
                    self.type_tokens(depth - 1);
                }
                if n > 0 && self.rng.chance(1, 3) {
                    self.t(",");
                }
                self.t("}");
            }
            8 => {
                self.t("{");
                self.type_tokens(depth - 1);
                self.t("}");
            }
            9 => {
                self.t("(");
                let n = self.rng.below(3);
                for i in 0..n {
                    if i > 0 {
                        self.t(",");
                    }
                    if self.rng.chance(1, 2) {
                        let nm = self.fresh();
                        self.t(&nm);
                        self.t(":");
                    }
                    self.type_tokens(depth - 1);
                }
                self.t(")");
                self.t("->");
                if self.rng.chance(1, 3) {
                    self.t("(");
                    self.t(")");
                } else {
                    self.type_tokens(0);
                }
            }
            10 => {
                self.t("Array");
                self.t("<");
                self.type_tokens(depth - 1);
                self.t(">");
            }
            _ => {
                let s = if self.rng.chance(1, 2) { "\"literal\"" } else { "'single'" };
                self.t(s);
            }
        }
    }

    // ---------------------------------------------------------------- statements
    fn emit_expr(&mut self, depth: usize) {
        self.expr_budget = if self.tame { self.rng.range(0, 2) } else { self.rng.range(0, 8) };
        let depth = if self.tame { depth.min(1) } else { depth };
        let e = if !self.tame && self.rng.chance(1, 8) {
            let n = self.rng.range(3, 9);
            self.chain_expr(n)
        } else {
            self.expr(depth)
        };
        let ts = self.render_to_tokens(&e);
        self.emit_tokens(ts);
    }

    fn emit_tokens(&mut self, ts: Vec<String>) {
        for s in ts {
            if let Some(rest) = s.strip_prefix('\u{0}') {
                if rest == "stmtend" {
                    self.out.push(P::StmtEnd);
                } else if rest == "indent" {
                    self.out.push(P::Indent);
                } else if rest == "dedent" {
                    self.out.push(P::Dedent);
                } else if let Some(c) = rest.strip_prefix("own") {
                    self.out.push(P::OwnLineComment(c.to_string()));
                } else if let Some(c) = rest.strip_prefix("trail") {
                    self.out.push(P::TrailingComment(c.to_string()));
                } else if let Some(n) = rest.strip_prefix("blank") {
                    self.out.push(P::Blank(n.parse().unwrap_or(1)));
                }
            } else {
                self.out.push(P::T(s));
            }
        }
    }

    fn exprlist(&mut self, depth: usize, min: usize, max: usize) {
        let n = self.rng.range(min, max);
        for i in 0..n {
            if i > 0 {
                self.t(",");
            }
            self.emit_expr(depth);
        }
    }

    fn comment_text(&mut self) -> String {
        let k = self.rng.below(1000);
        let form = self.rng.below(6);
        match form {
            0 => format!("--[[ block c{k} ]]"),
            1 => format!("--[=[ level1 c{k} ]=]"),
            2 => format!("--c{k} no space"),
            3 => format!("-- c{k} trailing ws   "),
            _ => format!("-- c{k}"),
        }
    }

    pub fn block(&mut self, depth: usize, min: usize, max: usize) {
        self.out.push(P::Indent);
        self.depth += 1;
        let n = self.rng.range(min, max);
        for _ in 0..n {
            self.stmt(depth);
        }
        // last statement
        if self.rng.chance(1, 5) {
            if self.comments && self.rng.chance(1, 6) {
                let c = self.comment_text();
                self.out.push(P::OwnLineComment(c));
            }
            self.stmt_no += 1;
            self.name_k = 0;
            if self.in_loop > 0 && self.rng.chance(1, 2) {
                if self.d.luau && self.rng.chance(1, 2) {
                    self.t("continue");
                } else {
                    self.t("break");
                }
            } else {
                self.t("return");
                if self.rng.chance(3, 4) {
                    self.exprlist(depth.min(2), 1, 3);
                }
            }
            self.out.push(P::StmtEnd);
        } else if self.comments && self.rng.chance(1, 10) {
            // comment before `end`
            let c = self.comment_text();
            self.out.push(P::OwnLineComment(c));
        }
        self.depth -= 1;
        self.out.push(P::Dedent);
    }

    pub fn stmt(&mut self, depth: usize) {
        self.stmt_no += 1;
        self.name_k = 0;
        let nested_ok = self.depth < self.max_depth;
        let mut r = self.rng.below(30);
        if r == 26 {
            // statement starting with `(`: the guarding `;` is written right after the previous
            // statement (a comment or blank line between a statement and its `;` is a known
            // comment-merging defect, kept out of generated programs)
            let n = self.out.len();
            let prev_is_plain_stmt = n >= 2
                && matches!(self.out[n - 1], P::StmtEnd)
                && matches!(&self.out[n - 2], P::T(t) if t != ";");
            if self.tame || !prev_is_plain_stmt {
                r = 29;
            } else {
                self.out.insert(n - 1, P::T(";".to_string()));
            }
        }
        if r != 26 {
            if self.rng.chance(1, 6) {
                let n = self.rng.range(1, 3);
                self.out.push(P::Blank(n));
            }
            if self.comments && self.rng.chance(1, 8) {
                let c = self.comment_text();
                self.out.push(P::OwnLineComment(c));
            }
        }
        match r {
            0..=5 => {
                // local
                self.t("local");
                let n = self.rng.range(1, 3);
                for i in 0..n {
                    if i > 0 {
                        self.t(",");
                    }
                    let nm = self.fresh();
                    self.t(&nm);
                    if self.d.attribs && self.rng.chance(1, 5) {
                        self.t("<");
                        let a = if self.rng.chance(1, 2) { "const" } else { "close" };
                        self.t(a);
                        self.t(">");
                    }
                    if self.d.luau && self.rng.chance(1, 4) {
                        self.t(":");
                        self.type_tokens(2);
                    }
                }
                if self.rng.chance(5, 6) {
                    self.t("=");
                    self.exprlist(depth, 1, n.max(1));
                }
            }
            6..=9 => {
                // assignment
                let n = self.rng.range(1, 2);
                for i in 0..n {
                    if i > 0 {
                        self.t(",");
                    }
                    let mut v = self.suffixed(1, false);
                    // must end in name or index
                    if v.last().map(|s| s == ")" || s == "}" || s.starts_with('"') || s.starts_with('\'') || s.starts_with('[') && s.len() > 1).unwrap_or(false) {
                        v.push(".".into());
                        v.push(self.fresh());
                    }
                    if v[0] == "(" {
                        v = vec![self.fresh()];
                    }
                    self.emit_tokens(v);
                }
                if self.d.luau && n == 1 && self.rng.chance(1, 4) {
                    let op = self.rng.pick(&["+=", "-=", "*=", "/=", "..=", "%=", "^=", "//="]).to_string();
                    self.t(&op);
                    self.emit_expr(depth);
                } else {
                    self.t("=");
                    self.exprlist(depth, 1, n + 1);
                }
            }
            10..=13 => {
                // call statement
                let mut v = self.suffixed(depth, true);
                if v[0] == "(" {
                    // a statement starting with `(` is only safe after `;` — avoid
                    v = vec![self.name_ref()];
                    v.extend(self.args_tokens(depth));
                }
                self.emit_tokens(v);
            }
            14 if nested_ok => {
                self.t("do");
                self.block(depth, 0, 3);
                self.t("end");
            }
            15 if nested_ok => {
                self.t("while");
                self.emit_expr(depth.min(2));
                self.t("do");
                self.in_loop += 1;
                self.block(depth, 0, 3);
                self.in_loop -= 1;
                self.t("end");
            }
            16 if nested_ok => {
                self.t("repeat");
                self.in_loop += 1;
                self.block(depth, 0, 3);
                self.in_loop -= 1;
                self.t("until");
                self.emit_expr(depth.min(2));
            }
            17..=19 if nested_ok => {
                self.t("if");
                if self.rng.chance(1, 4) {
                    self.t("(");
                    self.emit_expr(depth.min(2));
                    self.t(")");
                } else {
                    self.emit_expr(depth.min(2));
                }
                self.t("then");
                self.block(depth, 0, 3);
                let n = self.rng.below(3);
                for _ in 0..n {
                    self.t("elseif");
                    self.emit_expr(depth.min(2));
                    self.t("then");
                    self.block(depth, 0, 2);
                }
                if self.rng.chance(1, 2) {
                    self.t("else");
                    self.block(depth, 0, 2);
                }
                self.t("end");
            }
            20 if nested_ok => {
                self.t("for");
                let nm = self.fresh();
                self.t(&nm);
                self.t("=");
                self.emit_expr(1);
                self.t(",");
                self.emit_expr(1);
                if self.rng.chance(1, 3) {
                    self.t(",");
                    self.emit_expr(1);
                }
                self.t("do");
                self.in_loop += 1;
                self.block(depth, 0, 3);
                self.in_loop -= 1;
                self.t("end");
            }
            21 if nested_ok => {
                self.t("for");
                let n = self.rng.range(1, 3);
                for i in 0..n {
                    if i > 0 {
                        self.t(",");
                    }
                    let nm = self.fresh();
                    self.t(&nm);
                }
                self.t("in");
                self.exprlist(depth.min(2), 1, 2);
                self.t("do");
                self.in_loop += 1;
                self.block(depth, 0, 3);
                self.in_loop -= 1;
                self.t("end");
            }
            22 | 23 if nested_ok => {
                // function declaration
                let local = self.rng.chance(1, 2);
                if local {
                    self.t("local");
                }
                self.t("function");
                let nm = self.fresh();
                self.t(&nm);
                if !local {
                    let n = self.rng.below(3);
                    for _ in 0..n {
                        self.t(".");
                        let f = self.fresh();
                        self.t(&f);
                    }
                    if self.rng.chance(1, 3) {
                        self.t(":");
                        let f = self.fresh();
                        self.t(&f);
                    }
                }
                if self.d.luau && self.rng.chance(1, 5) {
                    self.ts(&["<", "T", ">"]);
                }
                let body = self.func_body_tokens(depth);
                self.out.extend(body);
            }
            24 if self.d.goto => {
                self.labels += 1;
                let l = format!("label{}", self.labels);
                if self.rng.chance(1, 2) {
                    self.ts(&["::", &l, "::"]);
                } else {
                    // goto a label defined right after (always visible)
                    self.ts(&["goto", &l]);
                    self.out.push(P::StmtEnd);
                    self.ts(&["::", &l, "::"]);
                }
            }
            25 if self.d.luau && self.depth == 0 => {
                if self.rng.chance(1, 3) {
                    self.t("export");
                }
                self.t("type");
                let nm = format!("Type{}", self.stmt_no);
                self.t(&nm);
                if self.rng.chance(1, 4) {
                    self.ts(&["<", "T", ">"]);
                }
                self.t("=");
                self.type_tokens(3);
            }
            26 => {
                // statement starting with `(` (guarded by the `;` inserted above)
                self.t("(");
                let nm = self.name_ref();
                self.t(&nm);
                self.t(")");
                let a = self.args_tokens(1);
                self.emit_tokens(a);
            }
            _ => {
                self.t("local");
                let nm = self.fresh();
                self.t(&nm);
                self.t("=");
                self.emit_expr(depth);
            }
        }
        if self.comments && self.rng.chance(1, 10) {
            // a block comment may trail; a line comment too. No trailing whitespace here: comments
            // moved off removed tokens are copied verbatim (known finding), own-line ones carry it
            let c = self.comment_text().trim_end().to_string();
            self.out.push(P::TrailingComment(c));
        }
        self.out.push(P::StmtEnd);
    }
}

// ------------------------------------------------------------------------------------------------
// Renderer
// ------------------------------------------------------------------------------------------------

fn is_word(c: char) -> bool {
    c.is_alphanumeric() || c == '_'
}

/// whether two adjacent tokens need a separator to stay two tokens with the same meaning
pub fn needs_sep(a: &str, b: &str) -> bool {
    let ca = a.chars().last().unwrap_or(' ');
    let cb = b.chars().next().unwrap_or(' ');
    if is_word(ca) && is_word(cb) {
        return true;
    }
    // a numeral swallows a following word or dot (`54.then`, `1..2` are malformed numbers)
    let a_is_number = a.chars().next().map(|c| c.is_ascii_digit()).unwrap_or(false)
        || (a.starts_with('.') && a.chars().nth(1).map(|c| c.is_ascii_digit()).unwrap_or(false));
    if a_is_number && (is_word(cb) || cb == '.') {
        return true;
    }
    // number followed by `.`/`..`, `.` followed by digit or `.`
    if (ca.is_ascii_digit() || ca == '.') && cb == '.' {
        return true;
    }
    if ca == '.' && cb.is_ascii_digit() {
        return true;
    }
    // a string/backtick adjacent to a word is fine; long bracket hazards:
    if ca == '[' && (cb == '[' || cb == '=') {
        return true;
    }
    let safe = |c: char| "(){}],;".contains(c) || is_word(c) || c == '"' || c == '\'' || c == '`';
    if safe(ca) || safe(cb) {
        // `a.b`, `f(`, `x,`… but `-` `-` etc. handled below (both unsafe)
        return false;
    }
    true
}

pub struct Style {
    pub crlf: u8,        // 0 LF, 1 CRLF, 2 mixed
    pub indent: u8,      // 0 tabs, 1 spaces(2), 2 spaces(4), 3 mixed/random, 4 none
    pub wild: usize,     // probability (per 100) of an odd separator between tokens
    pub newline_in_expr: usize, // per 1000: newline between tokens inside a statement
    pub semis: usize,    // per 100: `;` after a statement
    pub same_line: usize, // per 100: next statement on the same line
}

impl Style {
    pub fn random(rng: &mut Rng) -> Style {
        let tame = rng.chance(1, 4);
        Style {
            crlf: if rng.chance(1, 4) { rng.range(1, 2) as u8 } else { 0 },
            indent: rng.below(5) as u8,
            wild: if tame { 0 } else { rng.below(25) },
            newline_in_expr: if tame { 0 } else { *rng.pick(&[0usize, 0, 10, 30, 80]) },
            semis: *rng.pick(&[0usize, 0, 10, 50]),
            same_line: *rng.pick(&[0usize, 0, 5, 20]),
        }
    }
}

pub fn render(rng: &mut Rng, pieces: &[P], st: &Style) -> String {
    let mut out = String::new();
    let mut level: usize = 0;
    let mut at_line_start = true;
    let mut prev_tok: Option<String> = None;
    let mut must_newline = false; // after a line comment
    let nl = |rng: &mut Rng, out: &mut String| match st.crlf {
        0 => out.push('\n'),
        1 => out.push_str("\r\n"),
        _ => {
            if rng.chance(1, 2) {
                out.push_str("\r\n")
            } else {
                out.push('\n')
            }
        }
    };
    let indent = |rng: &mut Rng, out: &mut String, level: usize| match st.indent {
        0 => out.push_str(&"\t".repeat(level)),
        1 => out.push_str(&"  ".repeat(level)),
        2 => out.push_str(&"    ".repeat(level)),
        3 => {
            for _ in 0..level {
                out.push_str(rng.pick_s(&["\t", "  ", "   ", " \t", ""]));
            }
        }
        _ => {}
    };
    let mut k = 0;
    while k < pieces.len() {
        match &pieces[k] {
            P::Indent => level += 1,
            P::Dedent => level = level.saturating_sub(1),
            P::Nl => {
                if !at_line_start {
                    nl(rng, &mut out);
                    at_line_start = true;
                    must_newline = false;
                    prev_tok = None;
                }
            }
            P::Blank(n) => {
                if !at_line_start {
                    nl(rng, &mut out);
                    at_line_start = true;
                    must_newline = false;
                }
                for _ in 0..*n {
                    if rng.chance(1, 4) {
                        out.push_str("  ");
                    }
                    nl(rng, &mut out);
                }
            }
            P::OwnLineComment(c) => {
                if !at_line_start {
                    nl(rng, &mut out);
                }
                indent(rng, &mut out, level);
                out.push_str(c);
                nl(rng, &mut out);
                at_line_start = true;
                must_newline = false;
                prev_tok = None;
            }
            P::TrailingComment(c0) => {
                let c_owned;
                let c: &String = if st.crlf != 0 && !c0.starts_with("--[") {
                    c_owned = format!("--[[{} ]]", &c0[2..]);
                    &c_owned
                } else {
                    c0
                };
                if at_line_start {
                    indent(rng, &mut out, level);
                } else {
                    out.push(' ');
                }
                out.push_str(c);
                if c.starts_with("--[") && c.ends_with(']') {
                    // block comment: a newline is not required
                    at_line_start = false;
                } else {
                    must_newline = true;
                    at_line_start = false;
                }
                prev_tok = None;
            }
            P::StmtEnd => {
                // optional semicolon
                let next_is_tok = matches!(pieces.get(k + 1), Some(P::T(_)));
                if st.semis > 0 && rng.below(100) < st.semis && prev_tok.as_deref() != Some(";") && !must_newline && !at_line_start {
                    out.push(';');
                    prev_tok = Some(";".into());
                }
                if must_newline || !(next_is_tok && st.same_line > 0 && rng.below(100) < st.same_line) {
                    if !at_line_start || must_newline {
                        nl(rng, &mut out);
                    }
                    at_line_start = true;
                    must_newline = false;
                    prev_tok = None;
                } else {
                    out.push(' ');
                    prev_tok = Some(" ".into());
                }
            }
            P::T(s) => {
                if must_newline {
                    nl(rng, &mut out);
                    at_line_start = true;
                    must_newline = false;
                }
                if at_line_start {
                    indent(rng, &mut out, level);
                    at_line_start = false;
                } else if let Some(p) = &prev_tok {
                    let need = p != " " && needs_sep(p, s);
                    let tight_ok = !need;
                    if st.newline_in_expr > 0 && rng.below(1000) < st.newline_in_expr && p != " " {
                        nl(rng, &mut out);
                        indent(rng, &mut out, level + 1);
                    } else if st.wild > 0 && rng.below(100) < st.wild {
                        match rng.below(4) {
                            0 if tight_ok => {}
                            1 => out.push_str("  "),
                            2 => out.push('\t'),
                            _ => out.push(' '),
                        }
                    } else if p == " " {
                    } else {
                        // conventional spacing: space around operators and after commas, tight calls
                        let tight = tight_ok
                            && (s == "," || s == ")" || s == "]" || s == "." || s == ":" || s == ";"
                                || p == "(" || p == "[" || p == "." || p == ":" || p == "#"
                                || (s == "(" && p.chars().last().map(|c| is_word(c) || c == ')' || c == ']').unwrap_or(false) && !crate::lex::is_keyword(p))
                                || (s == "[" && p.chars().last().map(|c| is_word(c) || c == ')' || c == ']').unwrap_or(false) && !crate::lex::is_keyword(p)));
                        if !tight {
                            out.push(' ');
                        }
                    }
                }
                out.push_str(s);
                prev_tok = Some(s.clone());
            }
        }
        k += 1;
    }
    if !at_line_start && (must_newline || rng.chance(3, 4)) {
        nl(rng, &mut out);
    }
    out
}

/// A complete random program for `syntax` (hostile rendering).
pub fn program(rng: &mut Rng, syntax: &str) -> String {
    program_profile(rng, syntax, false)
}

/// `tame`: conventional spacing, one statement per line, no redundant parentheses or semicolons,
/// no multi-line strings, no comments — the shape ordinary hand-written code has.
pub fn program_profile(rng: &mut Rng, syntax: &str, tame: bool) -> String {
    let d = dialect(syntax);
    let st = if tame {
        Style { crlf: 0, indent: rng.below(3) as u8, wild: 0, newline_in_expr: 0, semis: 0, same_line: 0 }
    } else {
        Style::random(rng)
    };
    let n = *rng.pick(&[1usize, 2, 3, 5, 8, 12, 20]);
    let comments = !tame && rng.chance(2, 3);
    let shebang = !tame && rng.chance(1, 25);
    let pieces = {
        let mut g = Gen::new(rng, d);
        g.tame = tame;
        g.comments = comments;
        g.max_depth = if tame { *g.rng.pick(&[1usize, 2]) } else { *g.rng.pick(&[1usize, 2, 3, 4]) };
        g.block(3, 1, n);
        let mut out = g.out;
        // top level is level 0: drop block()'s outermost Indent/Dedent pair
        if let Some(i) = out.iter().position(|p| matches!(p, P::Indent)) {
            out.remove(i);
        }
        if let Some(i) = out.iter().rposition(|p| matches!(p, P::Dedent)) {
            out.remove(i);
        }
        out
    };
    let mut text = render(rng, &pieces, &st);
    if shebang {
        text = format!("#!/usr/bin/env lua\n{text}");
    }
    text
}
