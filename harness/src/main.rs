//! `sv` — stylua-verif harness. See /verif/DESIGN.md.
mod cfg;
mod corpus;
mod ctx;
mod fmt;
mod gen;
mod gen_luau;
mod lex;
mod libwork;
mod mutate;
mod nf;
mod oracles;
mod props;
mod rng;
mod sig;
mod stmts;

use ctx::{Ctx, Tier};
use serde_json::{json, Value};
use std::io::Write;

const LIB_PROPS: [&str; 6] = ["C01", "C02", "C03", "C06", "C07", "C10"];

fn tier_of(s: &str) -> Tier {
    if s == "thorough" {
        Tier::Thorough
    } else {
        Tier::Quick
    }
}

struct Runner {
    work: Option<libwork::Work>,
    c09: Option<props::c09::W>,
}

impl Runner {
    fn new(prop: &str) -> Self {
        Runner {
            work: if LIB_PROPS.contains(&prop) {
                Some(libwork::Work::load())
            } else {
                None
            },
            c09: if prop == "C09" || prop == "C08" || prop == "C11" || prop == "C12" {
                Some(props::c09::W { work: libwork::Work::load() })
            } else {
                None
            },
        }
    }
    fn n_items(&self, ctx: &Ctx, prop: &str) -> usize {
        match prop {
            "C07" => {
                let w = self.work.as_ref().unwrap();
                props::libprops::n_items(w, ctx, prop) + props::c07x::n_items(w, ctx)
            }
            p if LIB_PROPS.contains(&p) => props::libprops::n_items(self.work.as_ref().unwrap(), ctx, prop),
            "C04" => props::c04::n_items(ctx),
            "C05" => props::c05::n_items(ctx),
            "C09" => props::c09::n_items(self.c09.as_ref().unwrap(), ctx),
            "C08" => props::c08::n_items(self.c09.as_ref().unwrap(), ctx),
            "C11" => props::c11::n_items(&self.c09.as_ref().unwrap().work, ctx),
            "C12" => props::c12::n_items(&self.c09.as_ref().unwrap().work, ctx),
            _ => 0,
        }
    }
    fn run_item(&self, ctx: &mut Ctx, prop: &str, i: usize) {
        match prop {
            "C07" => {
                let w = self.work.as_ref().unwrap();
                let n_lib = props::libprops::n_items(w, ctx, prop);
                if i < n_lib {
                    props::libprops::run_item(w, ctx, prop, i)
                } else {
                    props::c07x::run_item(w, ctx, i - n_lib)
                }
            }
            p if LIB_PROPS.contains(&p) => props::libprops::run_item(self.work.as_ref().unwrap(), ctx, prop, i),
            "C04" => props::c04::run_item(ctx, i),
            "C05" => props::c05::run_item(ctx, i),
            "C09" => props::c09::run_item(self.c09.as_ref().unwrap(), ctx, i),
            "C08" => props::c08::run_item(self.c09.as_ref().unwrap(), ctx, i),
            "C11" => props::c11::run_item(&self.c09.as_ref().unwrap().work, ctx, i),
            "C12" => props::c12::run_item(&self.c09.as_ref().unwrap().work, ctx, i),
            _ => {}
        }
    }
}

fn worker(args: &[String]) -> i32 {
    if args.len() < 7 {
        eprintln!("usage: sv worker PROP tier seed shard nshards outfile progressfile [from]");
        return 3;
    }
    let prop = args[0].clone();
    let tier = tier_of(&args[1]);
    let seed: u64 = args[2].parse().unwrap_or(0);
    let shard: usize = args[3].parse().unwrap_or(0);
    let nshards: usize = args[4].parse().unwrap_or(1);
    let outfile = args[5].clone();
    let progress = args[6].clone();
    let from: usize = args.get(7).and_then(|x| x.parse().ok()).unwrap_or(0);

    fmt::install_quiet_panic_hook();
    let mut ctx = Ctx::new(&prop, tier, seed, Some(&progress));
    // wall-clock watchdog: bounds the run; its firing is INCONCLUSIVE, never a violation
    let clock = ctx.case_clock.clone();
    let limit_ms: u64 = std::env::var("SV_CASE_TIMEOUT_MS").ok().and_then(|x| x.parse().ok()).unwrap_or(60_000);
    std::thread::spawn(move || loop {
        std::thread::sleep(std::time::Duration::from_millis(250));
        let st = clock.load(std::sync::atomic::Ordering::SeqCst);
        if st != 0 && ctx::now_ms().saturating_sub(st) > limit_ms {
            std::process::exit(75);
        }
    });
    let h = std::thread::Builder::new()
        .stack_size(1 << 30)
        .spawn(move || {
            let runner = Runner::new(&prop);
            let n = runner.n_items(&ctx, &prop);
            let mut i = shard;
            while i < n {
                if i >= from {
                    ctx.cur_item = i;
                    runner.run_item(&mut ctx, &prop, i);
                }
                i += nshards;
            }
            let mut v = ctx.to_json();
            v["items_total"] = json!(n);
            v["shard"] = json!(shard);
            let mut f = std::fs::File::create(&outfile).expect("cannot write worker output");
            f.write_all(v.to_string().as_bytes()).unwrap();
        })
        .unwrap();
    match h.join() {
        Ok(_) => 0,
        Err(_) => 3,
    }
}

fn replay(args: &[String]) -> i32 {
    // sv replay <replay.json>: re-execute exactly that case under its property's monitor
    let path = match args.first() {
        Some(p) => p,
        None => return 3,
    };
    let v: Value = match std::fs::read_to_string(path).ok().and_then(|s| serde_json::from_str(&s).ok()) {
        Some(v) => v,
        None => {
            eprintln!("cannot read {path}");
            return 3;
        }
    };
    let prop = v["property"].as_str().unwrap_or("").to_string();
    let case = &v["case"];
    fmt::install_quiet_panic_hook();
    let h = std::thread::Builder::new()
        .stack_size(1 << 30)
        .spawn({
            let case = case.clone();
            move || {
                let mut ctx = Ctx::new(&prop, Tier::Quick, 0, None);
                if prop == "C07" && case.get("family").is_some() {
                    props::c07x::replay(&mut ctx, &case);
                } else if LIB_PROPS.contains(&prop.as_str()) {
                    let ev = libwork::Eval {
                        id: case["id"].as_str().unwrap_or("replay").to_string(),
                        src: case["src"].as_str().unwrap_or("").to_string(),
                        cfg: cfg::Cfg::from_json(&case["cfg"]).unwrap_or_default(),
                        range: ctx::range_from_json(&case["range"]),
                        pinned: true,
                        presig: None,
                    };
                    props::libprops::check(&mut ctx, &prop, &ev);
                } else if prop == "C04" {
                    props::c04::replay(&mut ctx, &case);
                } else if prop == "C05" {
                    props::c05::replay(&mut ctx, &case);
                } else if prop == "C09" {
                    props::c09::replay(&mut ctx, &case);
                } else if prop == "C08" {
                    props::c08::replay(&mut ctx, &case);
                } else if prop == "C11" {
                    props::c11::replay(&mut ctx, &case);
                } else if prop == "C12" {
                    props::c12::replay(&mut ctx, &case);
                }
                println!("{}", serde_json::to_string_pretty(&json!({"findings": ctx.findings, "evaluations": ctx.evals})).unwrap());
                if ctx.findings.is_empty() { 0 } else { 1 }
            }
        })
        .unwrap();
    h.join().unwrap_or(3)
}

/// `sv min <replay.json>`: developer helper. Token-level delta debugging of a library-property
/// witness: the smallest token subsequence on which the same property monitor still reports a
/// finding of the same oracle. Prints the reduced source and its output.
fn min_cmd(args: &[String]) -> i32 {
    let path = match args.first() {
        Some(p) => p,
        None => return 3,
    };
    let v: Value = match std::fs::read_to_string(path).ok().and_then(|s| serde_json::from_str(&s).ok()) {
        Some(v) => v,
        None => return 3,
    };
    let prop = v["property"].as_str().unwrap_or("").to_string();
    let oracle = v["oracle"].as_str().unwrap_or("").to_string();
    let case = v["case"].clone();
    if !LIB_PROPS.contains(&prop.as_str()) {
        eprintln!("min: library properties only");
        return 3;
    }
    fmt::install_quiet_panic_hook();
    let h = std::thread::Builder::new()
        .stack_size(1 << 30)
        .spawn(move || {
            let c = cfg::Cfg::from_json(&case["cfg"]).unwrap_or_default();
            let range = ctx::range_from_json(&case["range"]);
            let src = case["src"].as_str().unwrap_or("").to_string();
            let mut fails = |t: &str| -> bool {
                let mut ctx = Ctx::new(&prop, Tier::Quick, 0, None);
                let ev = libwork::Eval { id: "min".to_string(), src: t.to_string(), cfg: c.clone(), range, pinned: true, presig: Some("min".to_string()) };
                props::libprops::check(&mut ctx, &prop, &ev);
                ctx.findings.iter().any(|f| f["oracle"].as_str() == Some(oracle.as_str()))
            };
            if !fails(&src) {
                eprintln!("min: the case does not fail");
                return 1;
            }
            let lx = match lex::lex(&src) {
                Ok(l) => l,
                Err(_) => return 3,
            };
            // units: tokens and comments, each with the kind of gap that follows it
            let mut units: Vec<(String, bool)> = Vec::new();
            for it in &lx.items {
                match it {
                    lex::Item::T(t) => units.push((src[t.start..t.end].to_string(), false)),
                    lex::Item::V(tr) => {
                        let text = &src[tr.start..tr.end];
                        if tr.kind == lex::TrivKind::Ws {
                            if text.contains('\n') {
                                if let Some(u) = units.last_mut() {
                                    u.1 = true;
                                }
                            }
                        } else {
                            units.push((text.to_string(), text.starts_with("--") && !text.starts_with("--[")));
                        }
                    }
                }
            }
            let build = |us: &[(String, bool)]| -> String {
                let mut o = String::new();
                for (t, nl) in us {
                    o.push_str(t);
                    o.push(if *nl { '\n' } else { ' ' });
                }
                o
            };
            let mut n = 2usize;
            while units.len() >= 2 {
                let chunk = (units.len() / n).max(1);
                let mut reduced = false;
                let mut i = 0;
                while i < units.len() {
                    let mut cand = units[..i].to_vec();
                    cand.extend_from_slice(&units[(i + chunk).min(units.len())..]);
                    if !cand.is_empty() && fails(&build(&cand)) {
                        units = cand;
                        n = n.saturating_sub(1).max(2);
                        reduced = true;
                        break;
                    }
                    i += chunk;
                }
                if !reduced {
                    if chunk == 1 {
                        break;
                    }
                    n = (n * 2).min(units.len());
                }
            }
            // newline flags off where possible
            for k in 0..units.len() {
                if units[k].1 {
                    units[k].1 = false;
                    if !fails(&build(&units)) {
                        units[k].1 = true;
                    }
                }
            }
            let m = build(&units);
            println!("cfg: {}", c.short());
            println!("input:  {m:?}");
            println!("output: {:?}", fmt::run(&m, &c, range, false, false).result);
            0
        })
        .unwrap();
    h.join().unwrap_or(3)
}

fn fmt_cmd(args: &[String]) -> i32 {
    // sv fmt <cfg-json> < input : prints formatted output (debug helper)
    let cfgv: Value = args.first().and_then(|s| serde_json::from_str(s).ok()).unwrap_or(json!({}));
    let c = cfg::Cfg::from_json(&cfgv).unwrap_or_default();
    let mut src = String::new();
    use std::io::Read;
    std::io::stdin().read_to_string(&mut src).unwrap();
    let o = fmt::run(&src, &c, None, true, false);
    match o.result {
        Ok(t) => {
            print!("{t}");
            eprintln!("ticks={} events={:?}", o.ticks, o.events.iter().take(40).collect::<Vec<_>>());
            0
        }
        Err(e) => {
            eprintln!("{e:?}");
            2
        }
    }
}

/// `sv libfmt`: batch reference formatter for the CLI monitors (O-lib). One JSON request per line on
/// stdin: {"src":..,"cfg":{..},"range":[s,e]|null,"verify":bool}; one JSON reply per line.
/// The Config is built from the explicit field list through the Rust enum variants (cfg.rs), not
/// through serde/clap/ec4rs, so it is independent of the decoders C20 compares.
fn libfmt_cmd() -> i32 {
    use std::io::BufRead;
    fmt::install_quiet_panic_hook();
    let h = std::thread::Builder::new()
        .stack_size(1 << 30)
        .spawn(|| {
            let stdin = std::io::stdin();
            let stdout = std::io::stdout();
            for line in stdin.lock().lines() {
                let line = match line {
                    Ok(l) => l,
                    Err(_) => break,
                };
                if line.trim().is_empty() {
                    continue;
                }
                let reply = match serde_json::from_str::<Value>(&line) {
                    Err(e) => json!({"error": format!("bad request: {e}")}),
                    Ok(req) => match cfg::Cfg::from_json(&req["cfg"]) {
                        None => json!({"error": "bad cfg"}),
                        Some(c) => {
                            let src = req["src"].as_str().unwrap_or("");
                            let range = ctx::range_from_json(&req["range"]);
                            let verify = req["verify"].as_bool().unwrap_or(false);
                            let o = fmt::run(src, &c, range, false, verify);
                            match o.result {
                                Ok(t) => json!({"ok": t}),
                                Err(fmt::FmtErr::Parse(m)) => json!({"parse_error": m}),
                                Err(fmt::FmtErr::Verify(m)) => json!({"verify_error": m}),
                                Err(fmt::FmtErr::Panic(m)) => json!({"panic": m}),
                            }
                        }
                    },
                };
                let mut out = stdout.lock();
                let _ = writeln!(out, "{}", reply);
                let _ = out.flush();
            }
        })
        .unwrap();
    let _ = h.join();
    0
}

/// `sv mirileg <shard> <nshards> <n>`: a small in-process slice of the C04 / C07 / C02 workloads meant to
/// be executed under Miri (`cargo +nightly miri run`): the executions the monitors judge are then
/// also checked for undefined behaviour in the dependency code they reach (regex automata, smol_str).
/// No file system access, no subprocesses, no big stacks.
fn mirileg_cmd(args: &[String]) -> i32 {
    let shard: u64 = args.first().and_then(|x| x.parse().ok()).unwrap_or(0);
    let nshards: u64 = args.get(1).and_then(|x| x.parse().ok()).unwrap_or(1);
    let n: u64 = args.get(2).and_then(|x| x.parse().ok()).unwrap_or(4);
    fmt::install_quiet_panic_hook();
    let mut ctx = Ctx::new("MIRI", Tier::Quick, 0, None);
    let mut judged = 0u64;
    let mut bad = 0u64;
    // string literals through the escape-rewriting regexes (C04)
    let bodies = ["a\\nb", "it's", "say \\\"hi\\\"", "\\x41\\065\\u{48}", "\\z  x", "q\\'\\\"", "\\\\", "é\\t", ""];
    for (k, b) in bodies.iter().enumerate() {
        if k as u64 % nshards != shard {
            continue;
        }
        for q in ["\"", "'"] {
            let lit = format!("{q}{b}{q}");
            if lex::decode_string(&lit).is_none() {
                continue;
            }
            let src = format!("local v = {lit}\nf{lit}\nlocal t = {{ [{lit}] = t[{lit}] }}\n");
            for qs in cfg::QUOTES {
                let mut c = cfg::Cfg::with_syntax("Lua52");
                c.quote_style = qs;
                if !fmt::parses(&src, &c) {
                    continue;
                }
                props::c04::replay(&mut ctx, &json!({"src": src, "cfg": c.to_json()}));
                judged += 1;
            }
        }
    }
    // small generated programs: totality + parse + meaning
    for i in 0..n {
        if i % nshards != shard {
            continue;
        }
        let mut r = rng::Rng::derive(7, 0x3141, i);
        let syntax = *r.pick(&cfg::SYNTAXES);
        let mut g = gen::Gen::new(&mut r, gen::dialect(syntax));
        g.max_depth = 1;
        g.tame = i % 2 == 0;
        g.block(1, 1, 3);
        let pieces = g.out;
        let text = gen::render(&mut r, &pieces, &gen::Style::random(&mut rng::Rng::derive(7, 0x99, i)));
        let c = cfg::Cfg::random(&mut r, syntax, 20);
        if !fmt::parses(&text, &c) {
            continue;
        }
        judged += 1;
        match fmt::run(&text, &c, None, false, false).result {
            Ok(out) => {
                if !fmt::parses(&out, &c) || oracles::nf_diff(&text, &out, &c).is_some() {
                    bad += 1;
                    println!("MIRILEG-FINDING program {i}: output invalid or meaning changed");
                }
            }
            Err(e) => {
                bad += 1;
                println!("MIRILEG-FINDING program {i}: {e:?}");
            }
        }
    }
    bad += ctx.findings.len() as u64;
    println!("MIRILEG judged={judged} findings={bad}");
    if bad == 0 { 0 } else { 1 }
}

fn gen_cmd(args: &[String]) -> i32 {
    let seed: u64 = args.first().and_then(|x| x.parse().ok()).unwrap_or(0);
    let n: u64 = args.get(1).and_then(|x| x.parse().ok()).unwrap_or(1);
    let syntax_arg = args.get(2).cloned();
    let mut ok = 0;
    for i in 0..n {
        let mut r = rng::Rng::derive(seed, 0x6e6, i);
        let syntax = match &syntax_arg {
            Some(s) => cfg::SYNTAXES.iter().find(|x| x.eq_ignore_ascii_case(s)).copied().unwrap_or("All"),
            None => *r.pick(&cfg::SYNTAXES),
        };
        let rich = syntax_arg.as_deref() == Some("luau-rich");
        let syntax = if rich { "Luau" } else { syntax };
        let p = if rich { gen_luau::program(&mut r, args.get(3).is_some()) } else { gen::program(&mut r, syntax) };
        let c = cfg::Cfg::with_syntax(syntax);
        let good = fmt::parses(&p, &c);
        if !good && rich && n <= 200 {
            println!("parse error: {:?}", fmt::parse_error(&p, &c));
        }
        if good {
            ok += 1;
        }
        if n <= 5 || !good && n <= 200 {
            println!("---- #{i} syntax={syntax} parses={good}\n{p}");
        }
    }
    println!("accepted {ok}/{n}");
    0
}

fn main() {
    let args: Vec<String> = std::env::args().skip(1).collect();
    let code = match args.first().map(|s| s.as_str()) {
        Some("worker") => worker(&args[1..]),
        Some("replay") => replay(&args[1..]),
        Some("min") => min_cmd(&args[1..]),
        Some("fmt") => fmt_cmd(&args[1..]),
        Some("gen") => gen_cmd(&args[1..]),
        Some("libfmt") => libfmt_cmd(),
        Some("pos") => pos_cmd(),
        Some("nf") => nf_cmd(&args[1..]),
        Some("mirileg") => mirileg_cmd(&args[1..]),
        _ => {
            eprintln!("usage: sv worker|replay|fmt|gen ...");
            3
        }
    };
    std::process::exit(code);
}

#[allow(dead_code)]
fn pos_cmd() -> i32 {
    use std::io::Read;
    let mut src = String::new();
    std::io::stdin().read_to_string(&mut src).unwrap();
    let c = cfg::Cfg::with_syntax("Lua51");
    let ast = fmt::parse(&src, &c).unwrap();
    for s in stmts::collect(&ast) {
        println!("{:?} text={:?} withtrivia={:?}", s, &src[s.start..s.end], &src[s.lead_start..s.trail_end]);
    }
    0
}

#[allow(dead_code)]
fn nf_cmd(args: &[String]) -> i32 {
    // sv nf <syntax> : prints the normal form of stdin
    use std::io::Read;
    let mut src = String::new();
    std::io::stdin().read_to_string(&mut src).unwrap();
    let syntax = cfg::SYNTAXES.iter().find(|s| args.first().map(|a| s.eq_ignore_ascii_case(a)).unwrap_or(false)).copied().unwrap_or("All");
    let c = cfg::Cfg::with_syntax(syntax);
    match fmt::parse(&src, &c) {
        Some(ast) => {
            println!("{}", nf::normal_form(&ast, c.int_subtype()).whole);
            0
        }
        None => {
            println!("does not parse");
            2
        }
    }
}
