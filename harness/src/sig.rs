//! Attribution of a failing evaluation to a root-cause signature (DESIGN §6.3).
//!
//! * comment-caused failures: delta-debug over the comments of the input; the signature is the
//!   slot (shape, previous significant token class, next significant token class) of the first
//!   comment of a 1-minimal failing subset, plus oracle family and width class;
//! * comment-free failures: reduce to a single top-level statement when one alone reproduces the
//!   failure; the signature carries the hash of that statement's own token stream (a specific
//!   input, independent of file names and of the rest of the file).
use crate::cfg::Cfg;
use crate::fmt;
use crate::lex::{self, Item, TokKind, TrivKind};
use crate::oracles::wclass;
use crate::rng;

#[derive(Clone, Debug)]
pub struct CommentInfo {
    pub start: usize,
    pub end: usize,
    pub shape: &'static str,
    pub prev: String,
    pub next: String,
    pub directive: bool,
    pub line: bool,
}

fn tok_class(lx: &lex::Lexed, t: &lex::Tok) -> String {
    let text = lx.text(t);
    match t.kind {
        TokKind::Name => {
            if lex::is_keyword(text) {
                text.to_string()
            } else {
                "ID".to_string()
            }
        }
        TokKind::Number => "NUM".to_string(),
        TokKind::Str => "STR".to_string(),
        TokKind::InterpSeg => "ISTR".to_string(),
        TokKind::Sym => text.to_string(),
    }
}

pub fn comments(src: &str) -> Vec<CommentInfo> {
    let lx = match lex::lex(src) {
        Ok(l) => l,
        Err(_) => return Vec::new(),
    };
    let mut out = Vec::new();
    let items = &lx.items;
    for (k, it) in items.iter().enumerate() {
        let v = match it {
            Item::V(v) if !matches!(v.kind, TrivKind::Ws) => v,
            _ => continue,
        };
        let prev = items[..k]
            .iter()
            .rev()
            .find_map(|i| match i {
                Item::T(t) => Some(tok_class(&lx, t)),
                _ => None,
            })
            .unwrap_or_else(|| "BOF".to_string());
        let next = items[k + 1..]
            .iter()
            .find_map(|i| match i {
                Item::T(t) => Some(tok_class(&lx, t)),
                _ => None,
            })
            .unwrap_or_else(|| "EOF".to_string());
        // own line? only whitespace between the previous newline and the comment
        let line_start = src[..v.start].rfind('\n').map(|p| p + 1).unwrap_or(0);
        let own_line = src[line_start..v.start].trim().is_empty();
        let rest_of_line_end = src[v.end..].find('\n').map(|p| v.end + p).unwrap_or(src.len());
        let code_after = !src[v.end..rest_of_line_end].trim().is_empty();
        let (shape, line) = match v.kind {
            TrivKind::LineComment => (if own_line { "line-own" } else { "line-trailing" }, true),
            TrivKind::BlockComment(_) => (
                if own_line && !code_after {
                    "block-own"
                } else if code_after {
                    "block-inline"
                } else {
                    "block-trailing"
                },
                false,
            ),
            TrivKind::Shebang => ("shebang", true),
            TrivKind::Ws => unreachable!(),
        };
        let text = &src[v.start..v.end];
        out.push(CommentInfo {
            start: v.start,
            end: v.end,
            shape,
            prev,
            next,
            directive: text.contains("stylua: ignore"),
            line,
        });
    }
    out
}

/// Source with the comments whose index is in `remove` taken out (a line comment is deleted up to
/// its newline, a block comment is replaced by one space).
pub fn without(src: &str, cs: &[CommentInfo], remove: &[bool]) -> String {
    let mut out = String::with_capacity(src.len());
    let mut pos = 0;
    for (k, c) in cs.iter().enumerate() {
        if !remove[k] {
            continue;
        }
        // a comment alone on its line goes together with the line
        let line_start = src[..c.start].rfind('\n').map(|p| p + 1).unwrap_or(0);
        let own_line = line_start >= pos && src[line_start..c.start].trim().is_empty();
        let rest_end = src[c.end..].find('\n').map(|p| c.end + p + 1);
        let nothing_after = match rest_end {
            Some(e) => src[c.end..e].trim().is_empty(),
            None => src[c.end..].trim().is_empty(),
        };
        if own_line && nothing_after && rest_end.is_some() {
            out.push_str(&src[pos..line_start]);
            pos = rest_end.unwrap();
            continue;
        }
        out.push_str(&src[pos..c.start]);
        if !c.line {
            out.push(' ');
        } else {
            // drop the spaces that separated the code from its trailing comment
            while out.ends_with(' ') || out.ends_with('\t') {
                out.pop();
            }
        }
        pos = c.end;
    }
    out.push_str(&src[pos..]);
    out
}

/// `fails(text)`: Some(true) the same oracle still fails, Some(false) it holds, None: text unusable.
pub fn attribute(
    oracle: &str,
    src: &str,
    cfg: &Cfg,
    fails: &mut dyn FnMut(&str) -> Option<bool>,
) -> String {
    let cs = comments(src);
    let removable: Vec<bool> = cs.iter().map(|c| !c.directive && c.shape != "shebang").collect();
    if removable.iter().any(|x| *x) && cs.len() <= 400 {
        let all_removed = without(src, &cs, &removable);
        if fmt::parses(&all_removed, cfg) && fails(&all_removed) == Some(false) {
            // comment-caused: greedy 1-minimal subset
            let mut remove = vec![false; cs.len()];
            let mut budget = 120;
            for k in 0..cs.len() {
                if !removable[k] || budget == 0 {
                    continue;
                }
                budget -= 1;
                remove[k] = true;
                let t = without(src, &cs, &remove);
                if !(fmt::parses(&t, cfg) && fails(&t) == Some(true)) {
                    remove[k] = false;
                }
            }
            let kept: Vec<&CommentInfo> = cs
                .iter()
                .enumerate()
                .filter(|(k, _)| removable[*k] && !remove[*k])
                .map(|(_, c)| c)
                .collect();
            if let Some(c) = kept.first() {
                return format!(
                    "cmt:{}:{}:{}|{}:{}",
                    oracle,
                    c.shape,
                    c.prev,
                    c.next,
                    wclass(cfg)
                );
            }
        }
    }
    // comment-free (or comments are not the cause): reduce to one top-level statement
    if let Some(ast) = fmt::parse(src, cfg) {
        use full_moon::node::Node;
        let mut spans: Vec<(usize, usize)> = Vec::new();
        for s in ast.nodes().stmts() {
            if let (Some(a), Some(b)) = (s.start_position(), s.end_position()) {
                spans.push((a.bytes(), b.bytes()));
            }
        }
        if let Some(l) = ast.nodes().last_stmt() {
            if let (Some(a), Some(b)) = (l.start_position(), l.end_position()) {
                spans.push((a.bytes(), b.bytes()));
            }
        }
        if spans.len() > 1 && spans.len() <= 300 {
            for (a, b) in &spans {
                if *b > src.len() || a >= b || !src.is_char_boundary(*a) || !src.is_char_boundary(*b) {
                    continue;
                }
                let piece = format!("{}\n", &src[*a..*b]);
                if fmt::parses(&piece, cfg) && fails(&piece) == Some(true) {
                    return format!("plain:{}:{}:stmt#{:08x}", oracle, wclass(cfg), ts_hash(&piece, cfg));
                }
            }
        }
    }
    format!("plain:{}:{}:text#{:08x}", oracle, wclass(cfg), ts_hash(src, cfg))
}

pub fn ts_hash(src: &str, cfg: &Cfg) -> u32 {
    let s = match lex::lex(src) {
        Ok(lx) => lex::token_stream(&lx, cfg.int_subtype())
            .iter()
            .map(|t| t.show())
            .collect::<Vec<_>>()
            .join("\u{1}"),
        Err(_) => src.to_string(),
    };
    (rng::hash_str(&s) & 0xffff_ffff) as u32
}
