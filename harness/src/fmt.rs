//! Running the code under test: one evaluation = one `format_code` call under catch_unwind, with
//! the H1 step counter and event trace collected.
use crate::cfg::Cfg;
use std::panic::{catch_unwind, AssertUnwindSafe};
use stylua_lib as sl;

pub type Range = Option<(Option<usize>, Option<usize>)>;

#[derive(Debug, Clone)]
pub enum FmtErr {
    Parse(String),
    Verify(String),
    Panic(String),
}

pub struct Outcome {
    pub result: Result<String, FmtErr>,
    pub ticks: u64,
    pub events: Vec<sl::verif::Event>,
}

thread_local! {
    static LAST_PANIC_AT: std::cell::RefCell<String> = const { std::cell::RefCell::new(String::new()) };
}

/// Silent panic hook that remembers where the panic was raised (file path), so that a monitor can
/// tell a panic inside the full_moon parser (dependency) from one inside StyLua.
pub fn install_quiet_panic_hook() {
    std::panic::set_hook(Box::new(|info| {
        let at = info.location().map(|l| l.file().to_string()).unwrap_or_default();
        LAST_PANIC_AT.with(|p| *p.borrow_mut() = at);
    }));
}

pub fn last_panic_location() -> String {
    LAST_PANIC_AT.with(|p| p.borrow().clone())
}

/// Stable description of a panic for signatures: origin (full_moon parser / stylua source file /
/// other) plus the message without digits.
pub fn panic_signature(msg: &str) -> String {
    let at = last_panic_location();
    let m: String = msg.chars().filter(|c| !c.is_ascii_digit()).take(60).collect::<String>().replace(' ', "_");
    if at.contains("full_moon") {
        "panic:in-full_moon-parser".to_string()
    } else if let Some(p) = at.find("/src/") {
        format!("panic:stylua{}:{m}", &at[p..])
    } else {
        format!("panic:{at}:{m}")
    }
}

pub fn run(src: &str, cfg: &Cfg, range: Range, events: bool, verify: bool) -> Outcome {
    sl::verif::reset();
    sl::verif::record_events(events);
    let c = cfg.to_stylua();
    let r = range.map(|(s, e)| sl::Range::from_values(s, e));
    let v = if verify {
        sl::OutputVerification::Full
    } else {
        sl::OutputVerification::None
    };
    let res = catch_unwind(AssertUnwindSafe(|| sl::format_code(src, c, r, v)));
    let (ticks, ev) = sl::verif::take();
    let result = match res {
        Ok(Ok(s)) => Ok(s),
        Ok(Err(sl::Error::ParseError(e))) => Err(FmtErr::Parse(
            e.iter().map(|x| x.to_string()).collect::<Vec<_>>().join("; "),
        )),
        Ok(Err(e)) => Err(FmtErr::Verify(e.to_string())),
        Err(p) => {
            let msg = if let Some(s) = p.downcast_ref::<&str>() {
                s.to_string()
            } else if let Some(s) = p.downcast_ref::<String>() {
                s.clone()
            } else {
                "<non-string panic payload>".to_string()
            };
            Err(FmtErr::Panic(msg))
        }
    };
    Outcome {
        result,
        ticks,
        events: ev,
    }
}

/// O-parse: the checker's own call to full_moon.
pub fn parses(src: &str, cfg: &Cfg) -> bool {
    parse(src, cfg).is_some()
}

pub fn parse(src: &str, cfg: &Cfg) -> Option<full_moon::ast::Ast> {
    let r = catch_unwind(AssertUnwindSafe(|| {
        full_moon::parse_fallible(src, cfg.fm_version()).into_result()
    }));
    match r {
        Ok(Ok(ast)) => Some(ast),
        _ => None,
    }
}

/// O-parse with the error text (for reports).
pub fn parse_error(src: &str, cfg: &Cfg) -> Option<String> {
    let r = catch_unwind(AssertUnwindSafe(|| {
        full_moon::parse_fallible(src, cfg.fm_version()).into_result()
    }));
    match r {
        Ok(Ok(_)) => None,
        Ok(Err(es)) => Some(es.iter().take(2).map(|e| e.to_string()).collect::<Vec<_>>().join("; ")),
        Err(_) => Some("parser panicked".to_string()),
    }
}

/// Same as `run`, on a fresh thread with the given stack size (2 MiB = what a CLI pool worker has).
/// A stack overflow kills the whole process: the parent attributes it to the case in progress.
pub fn run_with_stack(src: &str, cfg: &Cfg, range: Range, stack: usize) -> Outcome {
    let src = src.to_string();
    let cfg = cfg.clone();
    let h = std::thread::Builder::new().stack_size(stack).spawn(move || run(&src, &cfg, range, false, false));
    match h {
        Ok(h) => match h.join() {
            Ok(o) => o,
            Err(_) => Outcome { result: Err(FmtErr::Panic("thread panicked outside catch_unwind".to_string())), ticks: 0, events: Vec::new() },
        },
        Err(_) => run(&src_fallback(), &Cfg::default(), None, false, false),
    }
}

fn src_fallback() -> String {
    String::new()
}
