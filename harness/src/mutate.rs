//! W-mut: corpus mutators. Each returns a new text; the caller checks that it still parses.
use crate::cfg::Cfg;
use crate::fmt;
use crate::lex::{self, Item, TokKind, TrivKind};
use crate::rng::Rng;
use full_moon::node::Node;
use full_moon::visitors::Visitor;

struct Spans {
    exprs: Vec<(usize, usize)>,
    stmts: Vec<(usize, usize)>,
}

impl Visitor for Spans {
    fn visit_expression(&mut self, e: &full_moon::ast::Expression) {
        if let (Some(a), Some(b)) = (e.start_position(), e.end_position()) {
            self.exprs.push((a.bytes(), b.bytes()));
        }
    }
    fn visit_stmt(&mut self, s: &full_moon::ast::Stmt) {
        if let (Some(a), Some(b)) = (s.start_position(), s.end_position()) {
            self.stmts.push((a.bytes(), b.bytes()));
        }
    }
}

fn spans(text: &str, cfg: &Cfg) -> Option<Spans> {
    let ast = fmt::parse(text, cfg)?;
    let mut v = Spans {
        exprs: Vec::new(),
        stmts: Vec::new(),
    };
    v.visit_ast(&ast);
    Some(v)
}

pub fn mutate(rng: &mut Rng, text: &str, cfg: &Cfg) -> Option<String> {
    match rng.below(9) {
        0 => join_lines(rng, text),
        1 => split_line(rng, text),
        2 => reindent(rng, text),
        3 | 4 => wrap_parens(rng, text, cfg),
        5 => add_semicolon(rng, text, cfg),
        6 => requote(rng, text),
        7 => blank_lines(rng, text, cfg),
        _ => stmt_comment(rng, text, cfg),
    }
}

/// whitespace gaps (start,end) between two significant tokens that contain no comment
fn ws_gaps(lx: &lex::Lexed) -> Vec<(usize, usize, bool)> {
    let mut out = Vec::new();
    let it = &lx.items;
    for k in 1..it.len().saturating_sub(1) {
        if let (Item::T(_), Item::V(v), Item::T(_)) = (&it[k - 1], &it[k], &it[k + 1]) {
            if v.kind == TrivKind::Ws {
                let has_nl = lx.src[v.start..v.end].contains('\n');
                out.push((v.start, v.end, has_nl));
            }
        }
    }
    out
}

fn join_lines(rng: &mut Rng, text: &str) -> Option<String> {
    let lx = lex::lex(text).ok()?;
    let gaps: Vec<_> = ws_gaps(&lx).into_iter().filter(|g| g.2).collect();
    if gaps.is_empty() {
        return None;
    }
    let g = gaps[rng.below(gaps.len())];
    Some(format!("{} {}", &text[..g.0], &text[g.1..]))
}

fn split_line(rng: &mut Rng, text: &str) -> Option<String> {
    let lx = lex::lex(text).ok()?;
    let gaps: Vec<_> = ws_gaps(&lx).into_iter().filter(|g| !g.2).collect();
    if gaps.is_empty() {
        return None;
    }
    let g = gaps[rng.below(gaps.len())];
    let ind = ["", "\t", "    ", "  ", "\t\t\t"];
    Some(format!("{}\n{}{}", &text[..g.0], rng.pick(&ind), &text[g.1..]))
}

fn reindent(rng: &mut Rng, text: &str) -> Option<String> {
    let lx = lex::lex(text).ok()?;
    let mask = lex::string_mask(&lx);
    let bmask = lex::block_comment_mask(&lx);
    let lines: Vec<(usize, usize)> = {
        let mut v = Vec::new();
        let mut st = 0;
        for (i, b) in text.bytes().enumerate() {
            if b == b'\n' {
                v.push((st, i));
                st = i + 1;
            }
        }
        v
    };
    let cands: Vec<_> = lines
        .iter()
        .filter(|(a, b)| a < b && !mask[*a] && !bmask[*a])
        .collect();
    if cands.is_empty() {
        return None;
    }
    let (a, _) = **rng.pick(&cands);
    let mut e = a;
    let bytes = text.as_bytes();
    while e < bytes.len() && (bytes[e] == b' ' || bytes[e] == b'\t') {
        e += 1;
    }
    if e < bytes.len() && (mask[e] && e > a && mask[e - 1]) {
        return None;
    }
    let ind = ["", "\t", "   ", " \t ", "        ", "\t\t\t\t"];
    Some(format!("{}{}{}", &text[..a], rng.pick(&ind), &text[e..]))
}

fn wrap_parens(rng: &mut Rng, text: &str, cfg: &Cfg) -> Option<String> {
    let sp = spans(text, cfg)?;
    if sp.exprs.is_empty() {
        return None;
    }
    let (a, b) = sp.exprs[rng.below(sp.exprs.len())];
    if a >= b || b > text.len() || !text.is_char_boundary(a) || !text.is_char_boundary(b) {
        return None;
    }
    // a parenthesised expression followed by `(`, a string or a table on a later line would become
    // a call of the new parenthesised prefix (valid, but a different program whose odd layout
    // trips unrelated known quirks): not generated
    if let Some(c) = text[b..].trim_start().chars().next() {
        if matches!(c, '(' | '{' | '"' | '\'' | '[' | '`') {
            return None;
        }
    }
    let (l, r) = match rng.below(4) {
        0 => ("( ", " )"),
        1 => ("((", "))"),
        _ => ("(", ")"),
    };
    Some(format!("{}{}{}{}{}", &text[..a], l, &text[a..b], r, &text[b..]))
}

fn add_semicolon(rng: &mut Rng, text: &str, cfg: &Cfg) -> Option<String> {
    let sp = spans(text, cfg)?;
    if sp.stmts.is_empty() {
        return None;
    }
    let (_, b) = sp.stmts[rng.below(sp.stmts.len())];
    if b > text.len() || !text.is_char_boundary(b) {
        return None;
    }
    if text[b..].trim_start().starts_with(';') {
        return None;
    }
    Some(format!("{};{}", &text[..b], &text[b..]))
}

fn requote(rng: &mut Rng, text: &str) -> Option<String> {
    let lx = lex::lex(text).ok()?;
    let strs: Vec<_> = lx
        .toks()
        .filter(|t| t.kind == TokKind::Str)
        .filter(|t| {
            let s = lx.text(t);
            (s.starts_with('"') || s.starts_with('\''))
                && !s[1..s.len() - 1].contains(['"', '\'', '\\', '\n', ']'])
        })
        .cloned()
        .collect();
    if strs.is_empty() {
        return None;
    }
    let t = strs[rng.below(strs.len())];
    let body = &text[t.start + 1..t.end - 1];
    let new = match rng.below(4) {
        0 => format!("'{body}'"),
        1 => format!("\"{body}\""),
        2 => format!("[[{body}]]"),
        _ => format!("[==[{body}]==]"),
    };
    Some(format!("{}{}{}", &text[..t.start], new, &text[t.end..]))
}

fn line_start_of(text: &str, pos: usize) -> usize {
    text[..pos].rfind('\n').map(|p| p + 1).unwrap_or(0)
}

fn blank_lines(rng: &mut Rng, text: &str, cfg: &Cfg) -> Option<String> {
    let sp = spans(text, cfg)?;
    if sp.stmts.is_empty() {
        return None;
    }
    let (a, _) = sp.stmts[rng.below(sp.stmts.len())];
    let ls = line_start_of(text, a);
    if !text[ls..a].trim().is_empty() {
        return None;
    }
    let n = rng.range(1, 3);
    Some(format!("{}{}{}", &text[..ls], "\n".repeat(n), &text[ls..]))
}

/// statement-level comment: own line before a statement, or trailing after a statement's last token
fn stmt_comment(rng: &mut Rng, text: &str, cfg: &Cfg) -> Option<String> {
    let sp = spans(text, cfg)?;
    if sp.stmts.is_empty() {
        return None;
    }
    let (a, b) = sp.stmts[rng.below(sp.stmts.len())];
    let k = rng.below(10000);
    if rng.chance(1, 2) {
        let ls = line_start_of(text, a);
        if !text[ls..a].trim().is_empty() {
            return None;
        }
        let c = match rng.below(3) {
            0 => format!("--[[ m{k} ]]"),
            _ => format!("-- m{k}"),
        };
        Some(format!("{}{}{}\n{}", &text[..ls], &text[ls..a], c, &text[ls..]))
    } else {
        if b > text.len() || !text.is_char_boundary(b) {
            return None;
        }
        let le = text[b..].find('\n').map(|p| b + p).unwrap_or(text.len());
        if !text[b..le].trim().is_empty() {
            return None;
        }
        Some(format!("{} -- m{k}{}", &text[..le].trim_end(), &text[le..]))
    }
}

/// Destructive mutations for C07: about half of the results do not parse.
pub fn destroy(rng: &mut Rng, text: &str, other: &str) -> String {
    let cut = |rng: &mut Rng, s: &str| -> usize {
        let mut p = rng.below(s.len() + 1);
        while !s.is_char_boundary(p) {
            p -= 1;
        }
        p
    };
    match rng.below(4) {
        0 => text[..cut(rng, text)].to_string(),
        1 => format!("{}{}", &text[..cut(rng, text)], &other[cut(rng, other)..]),
        2 => {
            if let Ok(lx) = lex::lex(text) {
                let toks: Vec<_> = lx.toks().cloned().collect();
                if !toks.is_empty() {
                    let t = toks[rng.below(toks.len())];
                    return format!("{}{}", &text[..t.start], &text[t.end..]);
                }
            }
            text.to_string()
        }
        _ => {
            let p = cut(rng, text);
            let junk = ["(", ")", "end", "\"", "[[", "--[[", "`", "{", "}", "\\", "::", "\0", "\u{feff}", "=", "then"];
            format!("{}{}{}", &text[..p], rng.pick(&junk), &text[p..])
        }
    }
}
