//! Per-worker bookkeeping: what was evaluated, what the monitors observed, what they reported.
use crate::cfg::Cfg;
use crate::fmt::{self, Outcome, Range};
use crate::rng;
use serde_json::{json, Value};
use std::collections::{BTreeMap, HashSet};
use std::io::{Seek, SeekFrom, Write};

#[derive(Clone, Copy, PartialEq, Eq, Debug)]
pub enum Tier {
    Quick,
    Thorough,
}

pub struct Ctx {
    pub prop: String,
    pub tier: Tier,
    pub seed: u64,
    pub evals: u64,
    pub nontrivial: HashSet<u64>,
    pub sites: BTreeMap<String, u64>,
    pub counters: BTreeMap<String, u64>,
    pub findings: Vec<Value>,
    pub per_sig: BTreeMap<String, u64>,
    /// signatures listed as open in the known-findings file (SV_KNOWN): recorded once, without the
    /// case, and never counted against the cap on stored witnesses
    pub listed: HashSet<String>,
    pub stored_new: usize,
    pub samples: Vec<Value>,
    pub inconclusive: u64,
    pub inconclusive_notes: Vec<String>,
    progress: Option<std::fs::File>,
    pub cur_item: usize,
    pub slowest: String,
    /// wall-clock watchdog shared with the monitor thread: (start millis of the current case)
    pub case_clock: std::sync::Arc<std::sync::atomic::AtomicU64>,
}

pub fn case_json(id: &str, src: &str, cfg: &Cfg, range: Range) -> Value {
    json!({
        "id": id,
        "src": src,
        "cfg": cfg.to_json(),
        "range": match range { None => Value::Null, Some((s, e)) => json!([s, e]) },
    })
}

pub fn range_from_json(v: &Value) -> Range {
    match v {
        Value::Array(a) if a.len() == 2 => Some((
            a[0].as_u64().map(|x| x as usize),
            a[1].as_u64().map(|x| x as usize),
        )),
        _ => None,
    }
}

pub fn now_ms() -> u64 {
    std::time::SystemTime::now()
        .duration_since(std::time::UNIX_EPOCH)
        .map(|d| d.as_millis() as u64)
        .unwrap_or(0)
}

/// Open signatures of `prop` in the known-findings file named by SV_KNOWN (empty when unset).
fn load_listed(prop: &str) -> HashSet<String> {
    let mut out = HashSet::new();
    if let Ok(path) = std::env::var("SV_KNOWN") {
        if let Ok(text) = std::fs::read_to_string(path) {
            for line in text.lines() {
                if let Ok(v) = serde_json::from_str::<Value>(line) {
                    if v["property"].as_str() == Some(prop) && v["status"].as_str().unwrap_or("open") == "open" {
                        if let Some(sg) = v["signature"].as_str() {
                            out.insert(sg.to_string());
                        }
                    }
                }
            }
        }
    }
    out
}

impl Ctx {
    pub fn new(prop: &str, tier: Tier, seed: u64, progress_path: Option<&str>) -> Self {
        Ctx {
            prop: prop.to_string(),
            tier,
            seed,
            evals: 0,
            nontrivial: HashSet::new(),
            sites: BTreeMap::new(),
            counters: BTreeMap::new(),
            findings: Vec::new(),
            per_sig: BTreeMap::new(),
            listed: load_listed(prop),
            stored_new: 0,
            samples: Vec::new(),
            inconclusive: 0,
            inconclusive_notes: Vec::new(),
            progress: progress_path.and_then(|p| {
                std::fs::OpenOptions::new()
                    .create(true)
                    .write(true)
                    .truncate(true)
                    .open(p)
                    .ok()
            }),
            cur_item: 0,
            slowest: String::new(),
            case_clock: Default::default(),
        }
    }

    pub fn quick(&self) -> bool {
        self.tier == Tier::Quick
    }

    pub fn count(&mut self, key: &str) {
        *self.counters.entry(key.to_string()).or_insert(0) += 1;
    }
    pub fn count_n(&mut self, key: &str, n: u64) {
        *self.counters.entry(key.to_string()).or_insert(0) += n;
    }

    fn note_progress(&mut self, id: &str, src: &str, cfg: &Cfg, range: Range) {
        if let Some(f) = self.progress.as_mut() {
            let v = json!({"item": self.cur_item, "case": case_json(id, src, cfg, range)});
            let s = v.to_string();
            let _ = f.seek(SeekFrom::Start(0));
            let _ = f.write_all(s.as_bytes());
            let _ = f.set_len(s.len() as u64);
        }
    }

    /// One evaluation of the code under test. Records events (if asked) into the site table and
    /// classifies the evaluation as non-trivial when the formatter changed the text and took at
    /// least one logical step in an expression/block formatter.
    pub fn eval(&mut self, id: &str, src: &str, cfg: &Cfg, range: Range, events: bool) -> Outcome {
        self.note_progress(id, src, cfg, range);
        self.case_clock
            .store(now_ms(), std::sync::atomic::Ordering::SeqCst);
        let t0 = std::time::Instant::now();
        let out = fmt::run(src, cfg, range, events, false);
        let ms = t0.elapsed().as_millis() as u64;
        let e = self.counters.entry("max.eval_ms".to_string()).or_insert(0);
        if ms > *e {
            *e = ms;
            self.slowest = id.to_string();
        }
        *self.counters.entry("sum_eval_ms".to_string()).or_insert(0) += ms;
        self.case_clock.store(0, std::sync::atomic::Ordering::SeqCst);
        self.evals += 1;
        if let Ok(o) = &out.result {
            if o != src && out.ticks > 0 {
                let h = rng::mix(rng::hash_str(src) ^ rng::mix(rng::hash_str(&cfg.short())))
                    ^ match range {
                        None => 0,
                        Some((s, e)) => rng::mix(
                            (s.unwrap_or(usize::MAX) as u64) << 1 ^ e.unwrap_or(usize::MAX) as u64,
                        ),
                    };
                self.nontrivial.insert(h);
            }
        }
        for (site, a, b) in &out.events {
            *self
                .sites
                .entry(format!("{site}:{a}:{b}"))
                .or_insert(0) += 1;
        }
        out
    }

    /// One evaluation with `OutputVerification::Full` (the library's own AST re-check of its output).
    pub fn eval_verified(&mut self, id: &str, src: &str, cfg: &Cfg, range: Range) -> Outcome {
        self.note_progress(id, src, cfg, range);
        self.case_clock.store(now_ms(), std::sync::atomic::Ordering::SeqCst);
        let out = fmt::run(src, cfg, range, false, true);
        self.case_clock.store(0, std::sync::atomic::Ordering::SeqCst);
        self.evals += 1;
        *self.counters.entry("evaluations_with_full_verification".to_string()).or_insert(0) += 1;
        out
    }

    /// One evaluation on a 2 MiB stack (the stack a CLI pool worker really has).
    pub fn eval_small_stack(&mut self, id: &str, src: &str, cfg: &Cfg, range: Range) -> Outcome {
        self.note_progress(id, src, cfg, range);
        self.case_clock.store(now_ms(), std::sync::atomic::Ordering::SeqCst);
        let out = fmt::run_with_stack(src, cfg, range, 2 << 20);
        self.case_clock.store(0, std::sync::atomic::Ordering::SeqCst);
        self.evals += 1;
        *self.counters.entry("evaluations_on_2MiB_stack".to_string()).or_insert(0) += 1;
        out
    }

    pub fn sample(&mut self, v: Value) {
        if self.samples.len() < 3 {
            self.samples.push(v);
        }
    }

    /// Report a violation candidate. The parent (./check) decides KNOWN-FINDING vs VIOLATION.
    pub fn finding(&mut self, oracle: &str, signature: &str, detail: &str, case: Value) {
        let n = self.per_sig.entry(signature.to_string()).or_insert(0);
        *n += 1;
        if self.listed.contains(signature) {
            if *n == 1 {
                self.findings.push(json!({
                    "property": self.prop,
                    "oracle": oracle,
                    "signature": signature,
                    "detail": detail,
                    "case": {"id": case.get("id").cloned().unwrap_or(Value::Null), "listed": true},
                }));
            }
            return;
        }
        if *n <= 2 && self.stored_new < 400 {
            self.stored_new += 1;
            self.findings.push(json!({
                "property": self.prop,
                "oracle": oracle,
                "signature": signature,
                "detail": detail,
                "case": case,
            }));
        }
    }

    pub fn inconclusive(&mut self, note: &str) {
        self.inconclusive += 1;
        if self.inconclusive_notes.len() < 20 {
            self.inconclusive_notes.push(note.to_string());
        }
    }

    pub fn to_json(&self) -> Value {
        let mut hashes: Vec<String> = self.nontrivial.iter().map(|h| format!("{h:x}")).collect();
        hashes.sort();
        json!({
            "evaluations": self.evals,
            "nontrivial": hashes,
            "sites": self.sites,
            "counters": self.counters,
            "findings": self.findings,
            "per_signature": self.per_sig,
            "samples": self.samples,
            "inconclusive": self.inconclusive,
            "inconclusive_notes": self.inconclusive_notes,
            "slowest": self.slowest,
        })
    }
}
