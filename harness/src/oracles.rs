//! Shared oracles (checker side). Each returns None when the property held on this evaluation
//! and Some(detail) when it did not.
use crate::cfg::Cfg;
use crate::fmt;
use crate::lex::{self, Comment, TsItem};
use crate::nf;
use std::collections::BTreeMap;

pub fn ts_of(src: &str, cfg: &Cfg) -> Result<Vec<TsItem>, String> {
    match lex::lex(src) {
        Ok(lx) => Ok(lex::token_stream(&lx, cfg.int_subtype())),
        Err(e) => Err(format!("own lexer: {} at byte {}", e.what, e.at)),
    }
}

/// O-lex token-stream equality.
pub fn ts_diff(a: &[TsItem], b: &[TsItem]) -> Option<String> {
    let n = a.len().min(b.len());
    for i in 0..n {
        if a[i] != b[i] {
            let ctx = |x: &[TsItem]| -> String {
                x[i.saturating_sub(3)..(i + 4).min(x.len())]
                    .iter()
                    .map(|t| t.show())
                    .collect::<Vec<_>>()
                    .join(" ")
            };
            return Some(format!(
                "token #{i}: input `{}` vs output `{}` (input …{}… / output …{}…)",
                a[i].show(),
                b[i].show(),
                ctx(a),
                ctx(b)
            ));
        }
    }
    if a.len() != b.len() {
        let (longer, which) = if a.len() > b.len() { (a, "input") } else { (b, "output") };
        return Some(format!(
            "token count {} vs {}: {} has extra `{}`",
            a.len(),
            b.len(),
            which,
            longer[n].show()
        ));
    }
    None
}

/// O-lex comment census: multiset equality.
pub fn census_diff(a: &[Comment], b: &[Comment]) -> Option<String> {
    let mut m: BTreeMap<&Comment, i64> = BTreeMap::new();
    for c in a {
        *m.entry(c).or_insert(0) += 1;
    }
    for c in b {
        *m.entry(c).or_insert(0) -= 1;
    }
    let lost: Vec<_> = m.iter().filter(|(_, n)| **n > 0).collect();
    let extra: Vec<_> = m.iter().filter(|(_, n)| **n < 0).collect();
    if lost.is_empty() && extra.is_empty() {
        return None;
    }
    let show = |v: &Vec<(&&Comment, &i64)>| -> String {
        v.iter()
            .take(3)
            .map(|(c, n)| format!("{}x {}{}{:?}", n.abs(), c.kind, c.level, c.text.chars().take(40).collect::<String>()))
            .collect::<Vec<_>>()
            .join(", ")
    };
    Some(format!(
        "comments lost/altered: [{}]; created/duplicated: [{}]",
        show(&lost),
        show(&extra)
    ))
}

/// O-N equality on two texts (both must parse; None if either does not — that is O-parse's job).
pub fn nf_diff(src: &str, out: &str, cfg: &Cfg) -> Option<String> {
    let a = fmt::parse(src, cfg)?;
    let b = fmt::parse(out, cfg)?;
    let na = nf::normal_form(&a, cfg.int_subtype());
    let nb = nf::normal_form(&b, cfg.int_subtype());
    if na.whole == nb.whole {
        None
    } else {
        Some(nf::first_diff(&na.whole, &nb.whole))
    }
}

pub fn wclass(cfg: &Cfg) -> &'static str {
    if cfg.column_width < 40 {
        "narrow"
    } else {
        "normal"
    }
}

/// C10: whitespace rules on the output (no ignore directives / ranges in the case).
pub fn ws_diff(out: &str, cfg: &Cfg) -> Option<String> {
    let lx = match lex::lex(out) {
        Ok(l) => l,
        Err(_) => return None, // not this oracle's business
    };
    let smask = lex::string_mask(&lx);
    let bmask = lex::block_comment_mask(&lx);
    let b = out.as_bytes();
    let windows = cfg.line_endings == "Windows";
    // line endings
    for i in 0..b.len() {
        if smask[i] {
            continue;
        }
        if b[i] == b'\n' {
            let has_cr = i > 0 && b[i - 1] == b'\r';
            if windows && !has_cr {
                return Some(format!("bare LF at byte {i} under Windows line endings: {:?}", ctxt(out, i)));
            }
            if !windows && has_cr {
                return Some(format!("CRLF at byte {i} under Unix line endings: {:?}", ctxt(out, i)));
            }
        } else if b[i] == b'\r' && b.get(i + 1) != Some(&b'\n') {
            return Some(format!("bare CR at byte {i}: {:?}", ctxt(out, i)));
        } else if b[i] == b'\r' && !windows {
            return Some(format!("CR at byte {i} under Unix line endings: {:?}", ctxt(out, i)));
        }
    }
    // indentation
    let mut line_start = 0;
    while line_start < b.len() {
        let mut e = line_start;
        while e < b.len() && b[e] != b'\n' {
            e += 1;
        }
        // skip lines that begin inside a string literal or a block comment
        let inside = smask[line_start] && line_start > 0 && smask[line_start - 1]
            || bmask[line_start] && line_start > 0 && bmask[line_start - 1];
        if !inside {
            let mut k = line_start;
            while k < e && (b[k] == b' ' || b[k] == b'\t') {
                k += 1;
            }
            let lead = &out[line_start..k];
            let blank = k == e || (k + 1 == e && b[k] == b'\r');
            if blank {
                // a whitespace-only line has no indentation to judge
            } else if cfg.indent_type == "Tabs" {
                if lead.contains(' ') {
                    return Some(format!("space in indentation under Tabs at byte {line_start}: {:?}", ctxt(out, line_start)));
                }
            } else {
                if lead.contains('\t') {
                    return Some(format!("tab in indentation under Spaces at byte {line_start}: {:?}", ctxt(out, line_start)));
                }
                if cfg.indent_width > 0 && lead.len() % cfg.indent_width != 0 {
                    return Some(format!(
                        "indentation of {} spaces is not a multiple of {} at byte {line_start}: {:?}",
                        lead.len(), cfg.indent_width, ctxt(out, line_start)
                    ));
                }
            }
        }
        line_start = e + 1;
    }
    // end of file
    if !out.is_empty() {
        let le = if windows { "\r\n" } else { "\n" };
        if !out.ends_with(le) {
            return Some("output does not end with the configured line ending".to_string());
        }
        let body = &out[..out.len() - le.len()];
        if body.ends_with('\n') || body.ends_with('\r') {
            return Some("output ends with more than one line ending".to_string());
        }
    }
    None
}

fn ctxt(s: &str, i: usize) -> String {
    let mut a = i.saturating_sub(30);
    while !s.is_char_boundary(a) {
        a -= 1;
    }
    let mut b = (i + 30).min(s.len());
    while !s.is_char_boundary(b) {
        b += 1;
    }
    s[a..b].to_string()
}
