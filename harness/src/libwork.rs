//! The shared library-level workload (DESIGN §3): work items that expand into evaluations.
//! Pinned families are identical for every seed; seeded families derive an independent PRNG stream
//! per item from (seed, family, index).
use crate::cfg::{self, Cfg};
use crate::corpus::{self, CorpusFile};
use crate::ctx::{Ctx, Tier};
use crate::fmt::{self, Range};
use crate::gen;
use crate::mutate;
use crate::rng::Rng;

pub struct Work {
    pub corpus: Vec<CorpusFile>,
    pub rows: Vec<Cfg>,
}

#[derive(Clone, Debug)]
pub struct Eval {
    pub id: String,
    pub src: String,
    pub cfg: Cfg,
    pub range: Range,
    pub pinned: bool,
    /// precomputed comment-slot part of the signature (single-comment enumeration)
    pub presig: Option<String>,
}

pub const WIDTHS_QUICK: [usize; 3] = [120, 80, 40];
pub const WIDTHS_THOROUGH: [usize; 9] = [usize::MAX, 200, 120, 100, 80, 60, 40, 20, 1];

/// visual length of a line for StyLua's width arithmetic (a tab counts as indent_width)
pub fn visual_len(line: &str, indent_width: usize) -> usize {
    let mut n = 0;
    for c in line.chars() {
        if c == '\t' {
            n += indent_width;
        } else {
            n += 1;
        }
    }
    n
}

/// Critical widths of a text: for each distinct line length L (longest first) L-1, L, L+1.
pub fn critical_widths(text: &str, indent_width: usize, max_lines: usize) -> Vec<usize> {
    let mut ls: Vec<usize> = text
        .lines()
        .map(|l| visual_len(l.trim_end_matches('\r'), indent_width))
        .filter(|l| *l >= 8)
        .collect();
    ls.sort_unstable_by(|a, b| b.cmp(a));
    ls.dedup();
    let mut out = Vec::new();
    for l in ls.into_iter().take(max_lines) {
        for w in [l - 1, l, l + 1] {
            if !out.contains(&w) {
                out.push(w);
            }
        }
    }
    out
}

#[derive(Clone, Copy)]
pub struct Families {
    pub corpus_grid: bool,
    pub corpus_critical: bool,
    pub corpus_ranges: bool,
    pub corpus_sort: bool,
    pub gen: bool,
    pub mutants: bool,
    /// multiplies the number of seeded items
    pub seeded_scale: usize,
    /// smallest column width used in seeded evaluations
    pub seeded_min_width: usize,
    /// seeded generated programs use the tame profile
    pub tame: bool,
    /// seeded configurations never collapse simple statements
    pub no_collapse: bool,
    /// also evaluate seeded programs at critical widths of their infinite-width output
    pub seeded_critical: bool,
    /// pinned: one comment of each shape after every token of the small corpus files
    pub comment_enum: bool,
    /// seeded generated programs are also evaluated with a statement-aligned range
    pub seeded_ranges: bool,
    /// pinned: N hostile generated programs from a fixed seed (independent of VERIF_SEED)
    pub pinned_gen: usize,
    /// pinned: degenerate programs (empty, whitespace, comment-only, shebang-only, one token …)
    pub tiny: bool,
    /// pinned: every corpus file rewritten with CRLF and with mixed line endings
    pub crlf_corpus: bool,
    /// seeded: programs of the Luau type-language generator (gen_luau.rs)
    pub luau_rich: bool,
    /// pinned: collapsible-body templates (header x body statement x expression shape) under every
    /// collapse_simple_statement value and three widths
    pub collapse_templates: bool,
    /// seeded: require-heavy top levels (the C12 generator) with sort_requires on
    pub req_blocks: bool,
    /// the single-comment enumeration also feeds each case as CRLF text (Unix and Windows output)
    pub cenum_crlf: bool,
    /// the single-comment enumeration uses only the inline block comment shape
    pub cenum_block_only: bool,
    /// an empty line after token #k of the corpus files (same enumeration as `comment_enum`)
    pub blank_enum: bool,
    /// pinned: two comments around every token of the harness's own corpus files
    pub comment_pairs: bool,
    /// pinned: the canonical text of every small corpus file re-spaced (compact / doubled blanks
    /// inside lines) at the critical widths of its lines
    pub respace: bool,
}

pub const CT_HEADERS: [(&str, &str); 10] = [
    ("function f() ", " end"),
    ("local function f() ", " end"),
    ("local f = function() ", " end"),
    ("f(function() ", " end)"),
    ("return function() ", " end"),
    ("t.x = function(a, b) ", " end"),
    ("if x then ", " end"),
    ("if not x then ", " end"),
    ("if x then\n\t", "\nend"),
    ("for i = 1, 2 do ", " end"),
];
pub const CT_BODIES: [&str; 11] = [
    "return",
    "return @",
    "return @, @",
    "return (@)",
    "g(@)",
    "g(@, @)",
    "a = @",
    "local a = @",
    "a.b:c(@)",
    "a, b = @, @",
    "a += @",
];
pub const CT_EXPRS: [&str; 22] = [
    "1",
    "x",
    "\"s\"",
    "nil",
    "{}",
    "{ 1, 2 }",
    "{ k = v }",
    "function() end",
    "(function() end)",
    "function() return 1 end",
    "g()",
    "(g())",
    "a.b.c",
    "not x",
    "x and y",
    "(x and y)",
    "-x",
    "[[long]]",
    "if a then b else c",
    "x :: T",
    "some_long_function_name(with_an_argument, and_another_argument)",
    "`t{x}`",
];

impl Work {
    pub fn load() -> Self {
        Work {
            corpus: corpus::load(),
            rows: cfg::option_rows(),
        }
    }

    fn n_grid(&self) -> usize {
        self.corpus.len() * self.rows.len()
    }

    pub fn n_items(&self, fam: &Families, tier: Tier) -> usize {
        let only_seeded = std::env::var("SV_ONLY_SEEDED").is_ok();
        let fam = &Families {
            corpus_grid: fam.corpus_grid && !only_seeded,
            corpus_critical: fam.corpus_critical && !only_seeded,
            corpus_ranges: fam.corpus_ranges && !only_seeded,
            corpus_sort: fam.corpus_sort && !only_seeded,
            ..*fam
        };
        let mut n = 0;
        if fam.corpus_grid {
            n += self.n_grid();
        }
        if fam.corpus_critical {
            n += self.corpus.len();
        }
        if fam.corpus_ranges {
            n += self.corpus.len();
        }
        if fam.corpus_sort {
            n += self.corpus.len();
        }
        if fam.comment_enum && !only_seeded {
            n += self.corpus.len() * 3;
        }
        if fam.blank_enum && !only_seeded {
            n += self.corpus.len();
        }
        if fam.tiny && !only_seeded {
            n += 1;
        }
        if fam.crlf_corpus && !only_seeded {
            n += self.corpus.len();
        }
        if !only_seeded {
            n += fam.pinned_gen;
        }
        let seeded = match tier {
            Tier::Quick => 600,
            Tier::Thorough => 24000,
        } * fam.seeded_scale;
        if fam.gen {
            n += seeded;
        }
        if fam.mutants {
            n += seeded / 2;
        }
        if fam.luau_rich {
            n += seeded / 2;
        }
        if fam.req_blocks {
            n += seeded / 4;
        }
        if fam.collapse_templates && !only_seeded {
            n += CT_HEADERS.len() * CT_BODIES.len();
        }
        if fam.comment_pairs && !only_seeded {
            n += self.own_files().len() * PAIR_KINDS.len();
        }
        if fam.respace && !only_seeded {
            n += self.corpus.len();
        }
        n
    }

    /// Expand item `i` into evaluations and hand each to `f`.
    pub fn run_item(
        &self,
        fam: &Families,
        ctx: &mut Ctx,
        mut i: usize,
        f: &mut dyn FnMut(&mut Ctx, &Eval),
    ) {
        let only_seeded = std::env::var("SV_ONLY_SEEDED").is_ok();
        let fam = &Families {
            corpus_grid: fam.corpus_grid && !only_seeded,
            corpus_critical: fam.corpus_critical && !only_seeded,
            corpus_ranges: fam.corpus_ranges && !only_seeded,
            corpus_sort: fam.corpus_sort && !only_seeded,
            ..*fam
        };
        let quick = ctx.quick();
        if fam.corpus_grid {
            if i < self.n_grid() {
                let file = &self.corpus[i / self.rows.len()];
                let r = i % self.rows.len();
                let row = &self.rows[r];
                let widths: &[usize] = if quick { &WIDTHS_QUICK } else { &WIDTHS_THOROUGH };
                // quick: each (file,row) takes one width (rotating), so that the grid costs 1/3
                for (k, w) in widths.iter().enumerate() {
                    if quick && (i + k) % widths.len() != 0 {
                        continue;
                    }
                    let mut c = row.clone();
                    c.syntax = if !quick && r % 4 == 3 { "All" } else { file.syntax };
                    c.column_width = *w;
                    f(
                        ctx,
                        &Eval {
                            id: format!("grid:{}:row{}:w{}", file.name, r, w),
                            src: file.text.clone(),
                            cfg: c,
                            range: None,
                            pinned: true,
                            presig: None,
                        },
                    );
                }
                return;
            }
            i -= self.n_grid();
        }
        if fam.corpus_critical {
            if i < self.corpus.len() {
                let file = &self.corpus[i];
                let mut base = Cfg::with_syntax(file.syntax);
                base.column_width = usize::MAX;
                let first = fmt::run(&file.text, &base, None, false, false);
                if let Ok(text) = first.result {
                    let max_lines = if quick { 2 } else { 30 };
                    for w in critical_widths(&text, base.indent_width, max_lines) {
                        let mut c = base.clone();
                        c.column_width = w;
                        f(
                            ctx,
                            &Eval {
                                id: format!("crit:{}:w{}", file.name, w),
                                src: file.text.clone(),
                                cfg: c,
                                range: None,
                                pinned: true,
                            presig: None,
                            },
                        );
                    }
                }
                return;
            }
            i -= self.corpus.len();
        }
        if fam.corpus_ranges {
            if i < self.corpus.len() {
                let file = &self.corpus[i];
                let base = Cfg::with_syntax(file.syntax);
                let n = file.text.len();
                let ranges: Vec<Range> = vec![
                    Some((Some(n / 3), Some(2 * n / 3))),
                    Some((Some(n / 2), None)),
                    Some((None, Some(n / 2))),
                    Some((Some(n / 4), Some(n / 4 + 1))),
                ];
                for (k, r) in ranges.into_iter().enumerate() {
                    if quick && k != i % 4 {
                        continue;
                    }
                    f(
                        ctx,
                        &Eval {
                            id: format!("range:{}:{}", file.name, k),
                            src: file.text.clone(),
                            cfg: base.clone(),
                            range: r,
                            pinned: true,
                            presig: None,
                        },
                    );
                }
                return;
            }
            i -= self.corpus.len();
        }
        if fam.corpus_sort {
            if i < self.corpus.len() {
                let file = &self.corpus[i];
                let mut base = Cfg::with_syntax(file.syntax);
                base.sort_requires = true;
                for w in [120usize, 60] {
                    let mut c = base.clone();
                    c.column_width = w;
                    f(
                        ctx,
                        &Eval {
                            id: format!("sort:{}:w{}", file.name, w),
                            src: file.text.clone(),
                            cfg: c,
                            range: None,
                            pinned: true,
                            presig: None,
                        },
                    );
                }
                return;
            }
            i -= self.corpus.len();
        }
        if fam.comment_enum && !only_seeded {
            if i < self.corpus.len() * 3 {
                if !(fam.cenum_block_only && i % 3 != 1) {
                    self.comment_enum_item(ctx, i / 3, i % 3, fam.cenum_crlf, f);
                }
                return;
            }
            i -= self.corpus.len() * 3;
        }
        if fam.blank_enum && !only_seeded {
            if i < self.corpus.len() {
                self.comment_enum_item(ctx, i, 3, false, f);
                return;
            }
            i -= self.corpus.len();
        }
        if fam.tiny && !only_seeded {
            if i == 0 {
                self.tiny_item(ctx, f);
                return;
            }
            i -= 1;
        }
        if fam.crlf_corpus && !only_seeded {
            if i < self.corpus.len() {
                let file = &self.corpus[i];
                let lf = file.text.replace("\r\n", "\n");
                let crlf = lf.replace('\n', "\r\n");
                // mixed: every third line ending is CRLF
                let mut mixed = String::with_capacity(lf.len() + 16);
                for (k, line) in lf.split_inclusive('\n').enumerate() {
                    if k % 3 == 1 && line.ends_with('\n') {
                        mixed.push_str(&line[..line.len() - 1]);
                        mixed.push_str("\r\n");
                    } else {
                        mixed.push_str(line);
                    }
                }
                // lf: the text as stored, printed with Windows endings (a second pass then reads CRLF)
                for (name, text) in [("crlf", crlf), ("mixed", mixed), ("lf", lf.clone())] {
                    for le in ["Unix", "Windows"] {
                        if quick && ((i % 2 == 0) != (le == "Unix")) && name == "mixed" {
                            continue;
                        }
                        if name == "lf" && le == "Unix" {
                            continue;
                        }
                        let mut c = Cfg::with_syntax(file.syntax);
                        c.line_endings = le;
                        c.indent_type = if i % 2 == 0 { "Tabs" } else { "Spaces" };
                        f(
                            ctx,
                            &Eval {
                                id: format!("crlf:{}:{name}:{le}", file.name),
                                src: text.clone(),
                                cfg: c,
                                range: None,
                                pinned: true,
                                presig: None,
                            },
                        );
                    }
                }
                return;
            }
            i -= self.corpus.len();
        }
        if !only_seeded && fam.pinned_gen > 0 {
            if i < fam.pinned_gen {
                if quick && i % 3 != 0 {
                    return;
                }
                let mut rng = Rng::derive(0x0c06_5eed, 0x91, i as u64);
                let syntax = *rng.pick(&cfg::SYNTAXES);
                let prog = gen::program(&mut rng, syntax);
                let mut base = Cfg::random(&mut rng, syntax, 40);
                base.sort_requires = false;
                if fmt::parses(&prog, &base) {
                    for w in [120usize, 80] {
                        let mut c = base.clone();
                        c.column_width = w;
                        f(
                            ctx,
                            &Eval {
                                id: format!("pingen:{i}:w{w}"),
                                src: prog.clone(),
                                cfg: c,
                                range: None,
                                pinned: true,
                                presig: None,
                            },
                        );
                    }
                }
                return;
            }
            i -= fam.pinned_gen;
        }
        let seeded = match ctx.tier {
            Tier::Quick => 600,
            Tier::Thorough => 24000,
        } * fam.seeded_scale;
        if fam.gen {
            if i < seeded {
                let mut rng = Rng::derive(ctx.seed, 0x6e6, i as u64);
                let syntax = *rng.pick(&cfg::SYNTAXES);
                let prog = gen::program_profile(&mut rng, syntax, fam.tame);
                let mut base = Cfg::random(&mut rng, syntax, fam.seeded_min_width);
                if fam.no_collapse {
                    base.collapse_simple_statement = "Never";
                }
                if !fmt::parses(&prog, &base) {
                    ctx.count("gen.rejected_by_parser");
                    return;
                }
                ctx.count("gen.accepted");
                f(
                    ctx,
                    &Eval {
                        id: format!("gen:{}:{}", ctx.seed, i),
                        src: prog.clone(),
                        cfg: base.clone(),
                        range: None,
                        pinned: false,
                        presig: None,
                    },
                );
                // a statement-aligned range over the same program (range formatting takes the
                // block-only paths of the formatter)
                if fam.seeded_ranges && i % 3 == 0 {
                    if let Some(ast) = fmt::parse(&prog, &base) {
                        let infos = crate::stmts::collect(&ast);
                        if !infos.is_empty() {
                            let a = &infos[rng.below(infos.len())];
                            let b = &infos[rng.below(infos.len())];
                            let (s0, e0) = (a.start.min(b.start), a.end.max(b.end));
                            f(
                                ctx,
                                &Eval {
                                    id: format!("gen:{}:{}:r{}-{}", ctx.seed, i, s0, e0),
                                    src: prog.clone(),
                                    cfg: base.clone(),
                                    range: Some((Some(s0), Some(e0))),
                                    pinned: false,
                                    presig: None,
                                },
                            );
                        }
                    }
                }
                if !fam.seeded_critical {
                    return;
                }
                // two critical widths of the infinite-width output
                let mut wide = base.clone();
                wide.column_width = usize::MAX;
                if let Ok(text) = fmt::run(&prog, &wide, None, false, false).result {
                    let ws: Vec<usize> = critical_widths(&text, base.indent_width, 6)
                        .into_iter()
                        .filter(|w| *w >= fam.seeded_min_width)
                        .collect();
                    for _ in 0..2 {
                        if ws.is_empty() {
                            break;
                        }
                        let mut c = base.clone();
                        c.column_width = *rng.pick(&ws);
                        f(
                            ctx,
                            &Eval {
                                id: format!("gen:{}:{}:w{}", ctx.seed, i, c.column_width),
                                src: prog.clone(),
                                cfg: c,
                                range: None,
                                pinned: false,
                        presig: None,
                            },
                        );
                    }
                }
                return;
            }
            i -= seeded;
        }
        if fam.mutants {
            if i < seeded / 2 {
                let mut rng = Rng::derive(ctx.seed, 0x3a7, i as u64);
                let file = &self.corpus[rng.below(self.corpus.len())];
                let base0 = Cfg::with_syntax(file.syntax);
                let n_mut = rng.range(1, 3);
                // inline comment positions are exercised by the pinned families only (DESIGN §6.3):
                // seeded mutants start from the file with its comments removed
                let mut text = {
                    let cs = crate::sig::comments(&file.text);
                    let rm: Vec<bool> = cs.iter().map(|c| !c.directive && c.shape != "shebang").collect();
                    crate::sig::without(&file.text, &cs, &rm)
                };
                let stripped = text.clone();
                for _ in 0..n_mut {
                    if let Some(t) = mutate::mutate(&mut rng, &text, &base0) {
                        text = t;
                    }
                }
                if text == stripped || !fmt::parses(&text, &base0) {
                    ctx.count("mut.rejected");
                    return;
                }
                ctx.count("mut.accepted");
                let c = Cfg::random(&mut rng, file.syntax, fam.seeded_min_width);
                f(
                    ctx,
                    &Eval {
                        id: format!("mut:{}:{}:{}", ctx.seed, i, file.name),
                        src: text,
                        cfg: c,
                        range: None,
                        pinned: false,
                        presig: None,
                    },
                );
                return;
            }
            i -= seeded / 2;
        }
        if fam.luau_rich {
            if i < seeded / 2 {
                self.luau_rich_item(fam, ctx, i, f);
                return;
            }
            i -= seeded / 2;
        }
        if fam.req_blocks {
            if i < seeded / 4 {
                let mut rng = Rng::derive(ctx.seed, 0x4e9, i as u64);
                let luau = rng.chance(1, 3);
                let prog = crate::props::c12::program(&mut rng, luau);
                // an inline comment in front of a member is printed on its own line, and a line of its
                // own between two members separates groups on the next pass, which can order them
                // differently (outside the region where idempotence holds, like the comment slots of
                // DESIGN 11.2): this seeded family leaves those comments out
                let prog: String = prog
                    .split_inclusive('\n')
                    .map(|l| match (l.starts_with("--[[ about "), l.find("]] local")) {
                        (true, Some(p)) => l[p + 3..].to_string(),
                        _ => l.to_string(),
                    })
                    .collect();
                let syntax: &'static str = if luau { "Luau" } else { rng.pick_s(&["Lua51", "All", "Lua54"]) };
                let mut c = Cfg::random(&mut rng, syntax, fam.seeded_min_width);
                c.sort_requires = true;
                if fam.no_collapse {
                    c.collapse_simple_statement = "Never";
                }
                if !fmt::parses(&prog, &c) {
                    ctx.count("req.rejected_by_parser");
                    return;
                }
                ctx.count("req.accepted");
                f(
                    ctx,
                    &Eval {
                        id: format!("req:{}:{}", ctx.seed, i),
                        src: prog,
                        cfg: c,
                        range: None,
                        pinned: false,
                        presig: None,
                    },
                );
                return;
            }
            i -= seeded / 4;
        }
        if !only_seeded && (!fam.collapse_templates || i >= CT_HEADERS.len() * CT_BODIES.len()) {
            if fam.collapse_templates {
                i -= CT_HEADERS.len() * CT_BODIES.len();
            }
            if fam.comment_pairs {
                let own = self.own_files();
                if i < own.len() * PAIR_KINDS.len() {
                    self.comment_pair_item(ctx, own[i / PAIR_KINDS.len()], i % PAIR_KINDS.len(), fam.cenum_crlf, f);
                    return;
                }
                i -= own.len() * PAIR_KINDS.len();
            }
            if fam.respace && i < self.corpus.len() {
                self.respace_item(ctx, i, f);
            }
            return;
        }
        if fam.collapse_templates && !only_seeded && i < CT_HEADERS.len() * CT_BODIES.len() {
            let (h0, h1) = CT_HEADERS[i / CT_BODIES.len()];
            let body = CT_BODIES[i % CT_BODIES.len()];
            let quick = ctx.quick();
            for (xi, x) in CT_EXPRS.iter().enumerate() {
              // the body alone, with a comment line between the body and the closing keyword, and with a
              // comment behind the body statement: a comment must stop a collapse on both passes alike
              for (vi, variant) in ["", "\n-- c9\n", " -- t9\n"].iter().enumerate() {
                if vi > 0 && (xi % 3 != i % 3) {
                    continue;
                }
                let b = body.replace('@', x);
                let src = if vi == 0 { format!("{h0}{b}{h1}\n") } else { format!("{h0}{b}{variant}{}\n", h1.trim_start()) };
                for syntax in ["Lua51", "Luau"] {
                    for (ci, collapse) in ["Never", "FunctionOnly", "ConditionalOnly", "Always"].iter().enumerate() {
                        for (wi, w) in [120usize, 40, 24].iter().enumerate() {
                            if quick && (i + xi + ci + wi) % 4 != 0 {
                                continue;
                            }
                            let mut c = Cfg::with_syntax(syntax);
                            c.collapse_simple_statement = collapse;
                            c.column_width = *w;
                            if !fmt::parses(&src, &c) {
                                continue;
                            }
                            f(
                                ctx,
                                &Eval {
                                    id: format!("ct:{i}:{xi}{}:{syntax}:{collapse}:w{w}", ["", ":own-line-comment", ":trailing-comment"][vi]),
                                    src: src.clone(),
                                    cfg: c,
                                    range: None,
                                    pinned: true,
                                    presig: None,
                                },
                            );
                        }
                    }
                }
              }
            }
        }
    }

    fn luau_rich_item(&self, fam: &Families, ctx: &mut Ctx, i: usize, f: &mut dyn FnMut(&mut Ctx, &Eval)) {
        {
            let mut rng = Rng::derive(ctx.seed, 0x17ae, i as u64);
            let prog = crate::gen_luau::program(&mut rng, fam.tame);
            let mut base = Cfg::random(&mut rng, "Luau", fam.seeded_min_width);
            if fam.no_collapse {
                base.collapse_simple_statement = "Never";
            }
            if !fmt::parses(&prog, &base) {
                ctx.count("luau_rich.rejected_by_parser");
                return;
            }
            ctx.count("luau_rich.accepted");
            f(
                ctx,
                &Eval {
                    id: format!("lrich:{}:{}", ctx.seed, i),
                    src: prog.clone(),
                    cfg: base.clone(),
                    range: None,
                    pinned: false,
                    presig: None,
                },
            );
            // the same program at one critical width of its infinite-width output
            if fam.seeded_critical {
                let mut wide = base.clone();
                wide.column_width = usize::MAX;
                if let Ok(text) = fmt::run(&prog, &wide, None, false, false).result {
                    let ws: Vec<usize> = critical_widths(&text, base.indent_width, 6)
                        .into_iter()
                        .filter(|w| *w >= fam.seeded_min_width)
                        .collect();
                    if !ws.is_empty() {
                        let mut c = base.clone();
                        c.column_width = *rng.pick(&ws);
                        f(
                            ctx,
                            &Eval {
                                id: format!("lrich:{}:{}:w{}", ctx.seed, i, c.column_width),
                                src: prog,
                                cfg: c,
                                range: None,
                                pinned: false,
                                presig: None,
                            },
                        );
                    }
                }
            }
        }
    }
}

/// (first comment after token k, second comment after token k or k+1)
pub const PAIR_KINDS: [(&str, &str, bool, &str); 7] = [
    ("block+multiline-adjacent", " --[[c8]]", false, "--[[ c9\n     c9 ]] "),
    ("line-own+block-adjacent", "\n-- c8\n--[[c9]]", false, "--[[ c7\n c7 ]]\n"),
    ("block+line", " --[[c8]] ", true, " -- c9\n"),
    ("block+block", " --[[c8]] ", true, " --[[c9]] "),
    ("line+line", " -- c8\n", true, " -- c9\n"),
    ("own-line+multiline", "\n-- c8\n", false, "--[[ c9\n     c9 ]]\n"),
    ("block+own-line", " --[[c8]] ", false, "\n-- c9\n"),
];

impl Work {
    fn own_files(&self) -> Vec<usize> {
        self.corpus.iter().enumerate().filter(|(_, f)| f.name.starts_with("own/")).map(|(i, _)| i).collect()
    }

    /// W-respace: the canonical (already formatted) text of a small corpus file with the blanks
    /// inside its lines removed where the tokens allow it, or doubled; line structure untouched.
    /// Evaluated at the critical widths of the canonical text: a layout decision taken on the
    /// text as written instead of the text as it will be printed shows up as a second pass that
    /// differs from the first.
    fn respace_item(&self, ctx: &mut Ctx, fi: usize, f: &mut dyn FnMut(&mut Ctx, &Eval)) {
        use crate::lex;
        let file = &self.corpus[fi];
        if file.text.len() > 6000 {
            return;
        }
        let base = Cfg::with_syntax(file.syntax);
        let first = fmt::run(&file.text, &base, None, false, false);
        if first.ticks > 4000 {
            return;
        }
        let canon = match first.result {
            Ok(t) => t,
            Err(_) => return,
        };
        let lx = match lex::lex(&canon) {
            Ok(l) => l,
            Err(_) => return,
        };
        let ts0 = lex::token_stream(&lx, base.int_subtype());
        let mut variants: Vec<(&str, String)> = Vec::new();
        for mode in ["compact", "wide"] {
            let mut out = String::with_capacity(canon.len() * 2);
            let mut prev_tok: Option<&str> = None;
            let n = lx.items.len();
            for (k, it) in lx.items.iter().enumerate() {
                match it {
                    lex::Item::T(t) => {
                        let s = &canon[t.start..t.end];
                        out.push_str(s);
                        prev_tok = Some(s);
                    }
                    lex::Item::V(tr) => {
                        let s = &canon[tr.start..tr.end];
                        let next_is_tok = matches!(lx.items.get(k + 1), Some(lex::Item::T(_)));
                        if tr.kind == lex::TrivKind::Ws && !s.contains('\n') && prev_tok.is_some() && next_is_tok && k + 1 < n {
                            let next = match &lx.items[k + 1] {
                                lex::Item::T(t2) => &canon[t2.start..t2.end],
                                _ => "",
                            };
                            if mode == "compact" {
                                if crate::gen::needs_sep(prev_tok.unwrap_or(""), next) {
                                    out.push(' ');
                                }
                            } else {
                                out.push_str("   ");
                            }
                        } else {
                            out.push_str(s);
                            if tr.kind != lex::TrivKind::Ws {
                                prev_tok = None;
                            }
                            if s.contains('\n') {
                                prev_tok = None;
                            }
                        }
                    }
                }
            }
            // the re-spaced text must be the same program
            match lex::lex(&out) {
                Ok(l2) if lex::token_stream(&l2, base.int_subtype()) == ts0 && fmt::parses(&out, &base) => variants.push((mode, out)),
                _ => ctx.count("respace.rejected"),
            }
        }
        let quick = ctx.quick();
        // every line of the harness's own files and (thorough) of every small file; else the longest three
        let own = file.name.starts_with("own/");
        let mut widths = critical_widths(&canon, base.indent_width, if own || !quick { 400 } else { 3 });
        widths.push(120);
        for (mode, text) in variants {
            for w in &widths {
                if *w < 12 {
                    continue;
                }
                let mut c = base.clone();
                c.column_width = *w;
                ctx.count("respace.cases");
                f(
                    ctx,
                    &Eval {
                        id: format!("respace:{}:{mode}:w{w}", file.name),
                        src: text.clone(),
                        cfg: c,
                        range: None,
                        pinned: true,
                        presig: None,
                    },
                );
            }
        }
    }

    /// W-pairs: two comments around every token of one of the harness's own corpus files: the
    /// first after token k, the second after token k+1 (`next_token`) or directly behind the first.
    /// Defects that need two comments (one moved in front of a separator, one behind it) are out of
    /// reach of the single-comment enumeration.
    fn comment_pair_item(&self, ctx: &mut Ctx, fi: usize, kind: usize, windows_too: bool, f: &mut dyn FnMut(&mut Ctx, &Eval)) {
        use crate::lex;
        use crate::sig;
        use crate::stmts;
        let file = &self.corpus[fi];
        let base = Cfg::with_syntax(file.syntax);
        let cs = sig::comments(&file.text);
        let rm: Vec<bool> = cs.iter().map(|c| !c.directive && c.shape != "shebang").collect();
        let text = sig::without(&file.text, &cs, &rm);
        let ast = match fmt::parse(&text, &base) {
            Some(a) => a,
            None => return,
        };
        let infos = stmts::collect(&ast);
        let lx = match lex::lex(&text) {
            Ok(l) => l,
            Err(_) => return,
        };
        let ts0 = lex::token_stream(&lx, base.int_subtype());
        let toks: Vec<lex::Tok> = lx.toks().cloned().collect();
        let class = |t: &lex::Tok| -> String {
            let s = &text[t.start..t.end];
            match t.kind {
                lex::TokKind::Name => if lex::is_keyword(s) { s.to_string() } else { "ID".to_string() },
                lex::TokKind::Number => "NUM".to_string(),
                lex::TokKind::Str => "STR".to_string(),
                lex::TokKind::InterpSeg => "ISTR".to_string(),
                lex::TokKind::Sym => s.to_string(),
            }
        };
        let (kname, first, next_token, second) = PAIR_KINDS[kind];
        let quick = ctx.quick();
        for k in 0..toks.len() {
            if quick && (k + fi + kind) % 5 != 0 {
                continue;
            }
            let p1 = toks[k].end;
            let modified = if next_token {
                let Some(t2) = toks.get(k + 1) else { continue };
                let p2 = t2.end;
                format!("{}{}{}{}{}", &text[..p1], first, &text[p1..p2], second, &text[p2..])
            } else {
                format!("{}{}{}{}", &text[..p1], first, second, &text[p1..])
            };
            if !fmt::parses(&modified, &base) {
                ctx.count("pairs.rejected_by_parser");
                continue;
            }
            match lex::lex(&modified) {
                Ok(l2) if lex::token_stream(&l2, base.int_subtype()) == ts0 => {}
                _ => {
                    ctx.count("pairs.changes_tokens");
                    continue;
                }
            }
            let stmt_kind = infos
                .iter()
                .filter(|s| s.start < p1 && p1 < s.end)
                .max_by_key(|s| s.depth)
                .map(|s| s.kind)
                .unwrap_or("Block");
            let n1 = toks.get(k + 1).map(|n| class(n)).unwrap_or_else(|| "EOF".to_string());
            let n2 = toks.get(k + 2).map(|n| class(n)).unwrap_or_else(|| "EOF".to_string());
            let presig = format!("pair:{kname}:{stmt_kind}:{}|{n1}|{n2}", class(&toks[k]));
            ctx.count("pairs.cases");
            let mut cfgs: Vec<(String, Cfg)> = Vec::new();
            for w in [120usize, 40] {
                let mut c = base.clone();
                c.column_width = w;
                cfgs.push((format!("w{w}"), c));
            }
            if windows_too {
                let mut c = base.clone();
                c.line_endings = "Windows";
                cfgs.push(("windows".to_string(), c));
            }
            for (tag, c) in cfgs {
                let ps = if tag == "windows" { format!("{presig}:windows") } else { presig.clone() };
                f(
                    ctx,
                    &Eval {
                        id: format!("pairs:{}:{kname}:tok{k}:{tag}", file.name),
                        src: modified.clone(),
                        cfg: c,
                        range: None,
                        pinned: true,
                        presig: Some(ps),
                    },
                );
            }
        }
    }

    /// W-enum: one comment of shape `shape` after every significant token of corpus file `fi`
    /// (comments of the file removed first, so the inserted comment is the only one).
    fn comment_enum_item(&self, ctx: &mut Ctx, fi: usize, shape: usize, crlf: bool, f: &mut dyn FnMut(&mut Ctx, &Eval)) {
        use crate::lex;
        use crate::sig;
        use crate::stmts;
        let file = &self.corpus[fi];
        if file.text.lines().count() > 200 || file.text.len() > 6000 {
            return;
        }
        let base = Cfg::with_syntax(file.syntax);
        // files that are expensive to format (measured in logical steps, deterministic) are left to
        // the other families: the enumeration multiplies the cost by the number of tokens
        if fmt::run(&file.text, &base, None, false, false).ticks > 4000 {
            ctx.count("cenum.skipped_expensive_file");
            return;
        }
        let cs = sig::comments(&file.text);
        let rm: Vec<bool> = cs.iter().map(|c| !c.directive && c.shape != "shebang").collect();
        let text = sig::without(&file.text, &cs, &rm);
        let ast = match fmt::parse(&text, &base) {
            Some(a) => a,
            None => return,
        };
        let infos = stmts::collect(&ast);
        let lx = match lex::lex(&text) {
            Ok(l) => l,
            Err(_) => return,
        };
        let ts0 = lex::token_stream(&lx, base.int_subtype());
        let toks: Vec<lex::Tok> = lx.toks().cloned().collect();
        let class = |t: &lex::Tok| -> String {
            let s = &text[t.start..t.end];
            match t.kind {
                lex::TokKind::Name => if lex::is_keyword(s) { s.to_string() } else { "ID".to_string() },
                lex::TokKind::Number => "NUM".to_string(),
                lex::TokKind::Str => "STR".to_string(),
                lex::TokKind::InterpSeg => "ISTR".to_string(),
                lex::TokKind::Sym => s.to_string(),
            }
        };
        let (shape_name, ins) = match shape {
            0 => ("line-trailing", " -- c9\n"),
            1 => ("block-inline", " --[[c9]] "),
            3 => ("blank-line", "\n\n"),
            _ => ("line-own", "\n-- c9\n"),
        };
        let quick = ctx.quick();
        let widths: &[usize] = if quick { &[120, 40] } else { &[120, 40, 20] };
        for (k, t) in toks.iter().enumerate() {
            if quick && (k + fi) % 11 != 0 {
                continue;
            }
            let pos = t.end;
            let modified = format!("{}{}{}", &text[..pos], ins, &text[pos..]);
            if !fmt::parses(&modified, &base) {
                ctx.count("cenum.rejected_by_parser");
                continue;
            }
            match lex::lex(&modified) {
                Ok(l2) if lex::token_stream(&l2, base.int_subtype()) == ts0 => {}
                _ => {
                    ctx.count("cenum.changes_tokens");
                    continue;
                }
            }
            // innermost statement containing the insertion point
            let kind = infos
                .iter()
                .filter(|s| s.start < pos && pos < s.end)
                .max_by_key(|s| s.depth)
                .map(|s| s.kind)
                .unwrap_or("Block");
            let next = toks.get(k + 1).map(|n| class(n)).unwrap_or_else(|| "EOF".to_string());
            let presig = format!("{shape_name}:{kind}:{}|{next}", class(t));
            ctx.count("cenum.cases");
            // configurations: default options at each width, plus one row with the non-default
            // layout options (collapse, call sugar, spaces) at width 120
            let mut cfgs: Vec<(String, Cfg)> = Vec::new();
            for w in widths {
                let mut c = base.clone();
                c.column_width = *w;
                cfgs.push((format!("w{w}"), c));
            }
            {
                let mut c = base.clone();
                c.collapse_simple_statement = "Always";
                c.call_parentheses = "None";
                c.indent_type = "Spaces";
                c.indent_width = 2;
                c.quote_style = "AutoPreferSingle";
                cfgs.push(("alt".to_string(), c));
            }
            for (wname, c) in cfgs {
                let w = &wname;
                f(
                    ctx,
                    &Eval {
                        id: format!("cenum:{}:{shape_name}:tok{k}:{w}", file.name),
                        src: modified.clone(),
                        cfg: c,
                        range: None,
                        pinned: true,
                        presig: Some(presig.clone()),
                    },
                );
            }
            if crlf && shape == 2 {
                // a multi-line block comment on its own lines: its inner line endings are rewritten
                // by the token formatter only (LF text -> Windows output, CRLF text -> Unix output)
                let ml = format!("{}\n--[[ c9\n     c9 ]]\n{}", &text[..pos], &text[pos..]);
                if fmt::parses(&ml, &base) {
                    for (tag, src_ml, le) in [("lf-Windows", ml.clone(), "Windows"), ("crlf-Unix", ml.replace('\n', "\r\n"), "Unix")] {
                        let mut c = base.clone();
                        c.line_endings = le;
                        f(
                            ctx,
                            &Eval {
                                id: format!("cenum:{}:block-multiline:tok{k}:{tag}", file.name),
                                src: src_ml,
                                cfg: c,
                                range: None,
                                pinned: true,
                                presig: Some(format!("block-multiline:{kind}:{}|{next}:{tag}", class(t))),
                            },
                        );
                    }
                }
            }
            if crlf {
                // the same case as CRLF text: comments that bypass the token formatter keep their `\r`
                let src_crlf = modified.replace("\r\n", "\n").replace('\n', "\r\n");
                for le in ["Unix", "Windows"] {
                    let mut c = base.clone();
                    c.line_endings = le;
                    f(
                        ctx,
                        &Eval {
                            id: format!("cenum:{}:{shape_name}:tok{k}:crlf-{le}", file.name),
                            src: src_crlf.clone(),
                            cfg: c,
                            range: None,
                            pinned: true,
                            presig: Some(format!("{presig}:crlf-input")),
                        },
                    );
                }
            }
        }
    }
}

impl Work {
    /// Degenerate inputs: the shapes ordinary corpora do not contain.
    fn tiny_item(&self, ctx: &mut Ctx, f: &mut dyn FnMut(&mut Ctx, &Eval)) {
        let progs: [&str; 36] = [
            "",
            "\n",
            "\n\n\n",
            "   \t  ",
            "  \n\t\n",
            "-- only a comment",
            "-- only a comment\n",
            "--[[ only a block comment ]]",
            "--[[ multi\nline\ncomment ]]\n\n",
            "#!/usr/bin/env lua",
            "#!/usr/bin/env lua\n",
            "#!/usr/bin/env lua\n\n\n",
            "#!/usr/bin/env lua   \n-- comment\n",
            "#!/usr/bin/env lua\nreturn 1",
            "#!/usr/bin/env lua\r\nprint(1)\r\n",
            ";",
            "return",
            "return;",
            "return -- c",
            "break",
            "x=1",
            "x=1;",
            "f()",
            "do end",
            "-- a\n\n-- b\n\n\n-- c",
            "\r\n\r\n-- c\r\n\r\n",
            "type A<T... = (string)> = () -> T...",
            "type B<U = (string), T... = (string, number)> = nil",
            "type D<T... = ()> = nil",
            "type E<T... = ...number> = nil",
            "type F<T...> = (T...) -> ...any",
            // an asserted type in parentheses before `<` (fix 768aaf5)
            "local a = x :: (T) < y",
            "local g = a + -b :: (M.T) < c",
            "return f(x :: (<G>() -> G) < y, z :: (A | B) < w)",
            "return x :: (T) --[[c]] < y",
            "local k = aaaaaaaaaaaaaaaaaaaaaaaaaaaaaaaaaaaaaaaaaaaaaaaaaaaaaaaaaaaaaaaaaaaaaaaaaaaaaaaaaaaaaaaaaaaaaaaaaaaaaaaaaaaaaaaaaaaaaa :: (T) < bbbbbbbbbbbbbbbbbbbbbbbbbbbbbbbbbb",
        ];
        // small programs under require sorting
        let sorted_progs: [&str; 4] = [
            "local z = require('z')\n--[[ about b ]] local b = require('b')\nlocal a = require('a')\n",
            "--[[ lead ]] local b = require('b')\nlocal a = require('a')\n",
            "local b = require('b') -- tb\nlocal a = require('a') --[[ ta ]]\n",
            "local b = require('b');\nlocal a = require('a');\n",
        ];
        for (k, p) in sorted_progs.iter().enumerate() {
            let mut c = Cfg::with_syntax("Lua51");
            c.sort_requires = true;
            f(
                ctx,
                &Eval {
                    id: format!("tiny:sorted:{k}"),
                    src: p.to_string(),
                    cfg: c,
                    range: None,
                    pinned: true,
                    presig: None,
                },
            );
        }
        // programs that took two passes to settle (side observations of round 6), under the call styles
        let settle: [&str; 12] = [
            "if ((a and b)) then\n  f()\nend\n",
            "while (((a and b))) do\n  f()\nend\n",
            "repeat f() until ((a and b))\n",
            "if ((a)) -- c\n then f() end\n",
            "local x = (y) -- c   \n",
            "local x =\n--[[c]]\nvalue\n",
            "print \"aaaaaaaaaaaaaaaaaaaaaaaaaaaaaaaaaaaaaaaaaaaaaaaaaaaaaaaaaaaaaaaaaaaaaaaaaaaaaaaaaaaaaaaaaaaaaaaaaaaaaaaaaaaaaaaaaaaaaaaaaaaaaaaaaaa\"\n",
            "foo((\"bar\"))\n",
            "foo(({1}))\n",
            "for k in pairs(({ aaaaaaaaaaaaaaaaaaaaaaaaaaaaaaaaaaaaaaaaaaaaaaaaaaaaaaaaaaaaaa, bbbbbbbbbbbbbbbbbbbbbbbbbbbbbbbbbbbbbbbbbbbbbbbbbbbbbbbbbbbbbbbbbbbbbbbbbbb })) do end\n",
            "return ((f()))\n",
            "x = ((a))\n",
        ];
        for (k, p) in settle.iter().enumerate() {
            for cp in ["Always", "None", "NoSingleString", "NoSingleTable", "Input"] {
                let mut c = Cfg::with_syntax("Lua51");
                c.call_parentheses = cp;
                f(
                    ctx,
                    &Eval {
                        id: format!("tiny:settle:{k}:{cp}"),
                        src: p.to_string(),
                        cfg: c,
                        range: None,
                        pinned: true,
                        presig: None,
                    },
                );
            }
        }
        for (k, p) in progs.iter().enumerate() {
            for syntax in ["Lua51", "Luau", "All"] {
                for le in ["Unix", "Windows"] {
                    let mut c = Cfg::with_syntax(syntax);
                    c.line_endings = le;
                    if !fmt::parses(p, &c) {
                        continue;
                    }
                    f(
                        ctx,
                        &Eval {
                            id: format!("tiny:{k}:{syntax}:{le}"),
                            src: p.to_string(),
                            cfg: c,
                            range: None,
                            pinned: true,
                            presig: None,
                        },
                    );
                }
            }
        }
    }
}
