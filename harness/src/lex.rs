//! The checker's OWN Lua/Luau lexer and literal decoders. Deliberately shares no code with
//! full_moon or StyLua: written from the Lua 5.1–5.4 reference manuals, the Luau grammar and the
//! LuaJIT number extensions. It is permissive about dialects (the input is required to parse with
//! full_moon under the chosen syntax first); what it must get right is where comments, strings and
//! code begin and end, because that is what its oracles (token stream, comment census, masks) use.

#[derive(Clone, Copy, PartialEq, Eq, Debug)]
pub enum TokKind {
    Name,
    Number,
    Str,
    Sym,
    /// a literal piece of an interpolated string, delimiters included: `` `abc{ `` / `}def{` / `` }x` ``
    InterpSeg,
}

#[derive(Clone, Copy, Debug)]
pub struct Tok {
    pub kind: TokKind,
    pub start: usize,
    pub end: usize,
}

#[derive(Clone, Copy, PartialEq, Eq, Debug)]
pub enum TrivKind {
    Ws,
    LineComment,
    BlockComment(usize),
    Shebang,
}

#[derive(Clone, Copy, Debug)]
pub struct Triv {
    pub kind: TrivKind,
    pub start: usize,
    pub end: usize,
}

/// Everything in source order: tokens and trivia interleaved.
#[derive(Clone, Copy, Debug)]
pub enum Item {
    T(Tok),
    V(Triv),
}

#[derive(Debug)]
pub struct Lexed<'a> {
    pub src: &'a str,
    pub items: Vec<Item>,
}

#[derive(Debug, Clone)]
pub struct LexError {
    pub at: usize,
    pub what: &'static str,
}

impl<'a> Lexed<'a> {
    pub fn toks(&self) -> impl Iterator<Item = &Tok> {
        self.items.iter().filter_map(|i| match i {
            Item::T(t) => Some(t),
            _ => None,
        })
    }
    pub fn trivia(&self) -> impl Iterator<Item = &Triv> {
        self.items.iter().filter_map(|i| match i {
            Item::V(t) => Some(t),
            _ => None,
        })
    }
    pub fn text(&self, t: &Tok) -> &'a str {
        &self.src[t.start..t.end]
    }
}

fn is_ws(b: u8) -> bool {
    matches!(b, b' ' | b'\t' | b'\n' | b'\r' | 0x0b | 0x0c)
}
fn is_name_start(b: u8) -> bool {
    b.is_ascii_alphabetic() || b == b'_' || b >= 0x80
}
fn is_name_char(b: u8) -> bool {
    b.is_ascii_alphanumeric() || b == b'_' || b >= 0x80
}

/// If `s[i..]` starts a long bracket `[` `=`* `[`, return its level.
fn long_bracket_level(s: &[u8], i: usize) -> Option<usize> {
    if s.get(i) != Some(&b'[') {
        return None;
    }
    let mut j = i + 1;
    while s.get(j) == Some(&b'=') {
        j += 1;
    }
    if s.get(j) == Some(&b'[') {
        Some(j - i - 1)
    } else {
        None
    }
}

/// `i` is at the opening `[`. Returns the index just past the closing bracket.
fn skip_long_bracket(s: &[u8], i: usize, level: usize) -> Option<usize> {
    let mut j = i + level + 2;
    while j < s.len() {
        if s[j] == b']' {
            let mut k = j + 1;
            let mut n = 0;
            while n < level && s.get(k) == Some(&b'=') {
                k += 1;
                n += 1;
            }
            if n == level && s.get(k) == Some(&b']') {
                return Some(k + 1);
            }
        }
        j += 1;
    }
    None
}

const SYMS3: [&str; 3] = ["...", "..=", "//="];
const SYMS2: [&str; 17] = [
    "..", "::", "->", "==", "~=", "<=", ">=", "<<", ">>", "//", "+=", "-=", "*=", "/=", "%=", "^=",
    "=>",
];

pub fn lex(src: &str) -> Result<Lexed<'_>, LexError> {
    let s = src.as_bytes();
    let mut items: Vec<Item> = Vec::new();
    let mut i = 0usize;
    // stack of brace depths for interpolated-string expression parts
    let mut interp: Vec<usize> = Vec::new();

    if s.starts_with(b"#!") {
        let mut j = 0;
        while j < s.len() && s[j] != b'\n' {
            j += 1;
        }
        items.push(Item::V(Triv {
            kind: TrivKind::Shebang,
            start: 0,
            end: j,
        }));
        i = j;
    }

    while i < s.len() {
        let b = s[i];
        if is_ws(b) {
            let st = i;
            while i < s.len() && is_ws(s[i]) {
                i += 1;
            }
            items.push(Item::V(Triv {
                kind: TrivKind::Ws,
                start: st,
                end: i,
            }));
            continue;
        }
        if b == b'-' && s.get(i + 1) == Some(&b'-') {
            let st = i;
            if let Some(level) = long_bracket_level(s, i + 2) {
                match skip_long_bracket(s, i + 2, level) {
                    Some(e) => {
                        items.push(Item::V(Triv {
                            kind: TrivKind::BlockComment(level),
                            start: st,
                            end: e,
                        }));
                        i = e;
                        continue;
                    }
                    None => {
                        return Err(LexError {
                            at: st,
                            what: "unclosed block comment",
                        })
                    }
                }
            }
            while i < s.len() && s[i] != b'\n' {
                i += 1;
            }
            items.push(Item::V(Triv {
                kind: TrivKind::LineComment,
                start: st,
                end: i,
            }));
            continue;
        }
        if is_name_start(b) {
            let st = i;
            while i < s.len() && is_name_char(s[i]) {
                i += 1;
            }
            items.push(Item::T(Tok {
                kind: TokKind::Name,
                start: st,
                end: i,
            }));
            continue;
        }
        if b.is_ascii_digit() || (b == b'.' && s.get(i + 1).is_some_and(|c| c.is_ascii_digit())) {
            let st = i;
            i = scan_number(s, i);
            items.push(Item::T(Tok {
                kind: TokKind::Number,
                start: st,
                end: i,
            }));
            continue;
        }
        if b == b'"' || b == b'\'' {
            let st = i;
            i = scan_quoted(s, i).ok_or(LexError {
                at: st,
                what: "unclosed string",
            })?;
            items.push(Item::T(Tok {
                kind: TokKind::Str,
                start: st,
                end: i,
            }));
            continue;
        }
        if b == b'[' {
            if let Some(level) = long_bracket_level(s, i) {
                let st = i;
                i = skip_long_bracket(s, i, level).ok_or(LexError {
                    at: st,
                    what: "unclosed long string",
                })?;
                items.push(Item::T(Tok {
                    kind: TokKind::Str,
                    start: st,
                    end: i,
                }));
                continue;
            }
        }
        if b == b'`' {
            // start of an interpolated string
            let st = i;
            let (e, opened) = scan_interp_segment(s, i + 1).ok_or(LexError {
                at: st,
                what: "unclosed interpolated string",
            })?;
            items.push(Item::T(Tok {
                kind: TokKind::InterpSeg,
                start: st,
                end: e,
            }));
            i = e;
            if opened {
                interp.push(0);
            }
            continue;
        }
        if !interp.is_empty() {
            if b == b'{' {
                *interp.last_mut().unwrap() += 1;
            } else if b == b'}' {
                if *interp.last().unwrap() == 0 {
                    // back to the literal part
                    let st = i;
                    let (e, opened) = scan_interp_segment(s, i + 1).ok_or(LexError {
                        at: st,
                        what: "unclosed interpolated string",
                    })?;
                    items.push(Item::T(Tok {
                        kind: TokKind::InterpSeg,
                        start: st,
                        end: e,
                    }));
                    i = e;
                    if !opened {
                        interp.pop();
                    }
                    continue;
                } else {
                    *interp.last_mut().unwrap() -= 1;
                }
            }
        }
        // symbols
        let rest = &src[i..];
        let mut len = 0;
        for sy in SYMS3 {
            if rest.starts_with(sy) {
                len = 3;
                break;
            }
        }
        if len == 0 {
            for sy in SYMS2 {
                if rest.starts_with(sy) {
                    len = 2;
                    break;
                }
            }
        }
        if len == 0 {
            if b"+-*/%^#&~|<>=(){}[];:,.?@".contains(&b) {
                len = 1;
            } else {
                return Err(LexError {
                    at: i,
                    what: "unexpected character",
                });
            }
        }
        items.push(Item::T(Tok {
            kind: TokKind::Sym,
            start: i,
            end: i + len,
        }));
        i += len;
    }
    if !interp.is_empty() {
        return Err(LexError {
            at: s.len(),
            what: "unclosed interpolated string expression",
        });
    }
    Ok(Lexed { src, items })
}

fn scan_number(s: &[u8], mut i: usize) -> usize {
    let hex = s[i] == b'0' && matches!(s.get(i + 1), Some(b'x') | Some(b'X'));
    let bin = s[i] == b'0' && matches!(s.get(i + 1), Some(b'b') | Some(b'B'));
    if hex || bin {
        i += 2;
    }
    loop {
        match s.get(i) {
            Some(c) if c.is_ascii_alphanumeric() || *c == b'_' => {
                let c = *c;
                i += 1;
                let exp = if hex {
                    c == b'p' || c == b'P'
                } else {
                    !bin && (c == b'e' || c == b'E')
                };
                if exp && matches!(s.get(i), Some(b'+') | Some(b'-')) {
                    i += 1;
                }
            }
            Some(b'.') => {
                // `1..2` is a number followed by the concat operator
                if s.get(i + 1) == Some(&b'.') {
                    return i;
                }
                i += 1;
            }
            _ => return i,
        }
    }
}

/// `i` at the opening quote; returns index past the closing quote.
fn scan_quoted(s: &[u8], i: usize) -> Option<usize> {
    let q = s[i];
    let mut j = i + 1;
    while j < s.len() {
        let c = s[j];
        if c == b'\\' {
            // skip the escaped byte; `\` CR LF is one escape
            if s.get(j + 1) == Some(&b'\r') && s.get(j + 2) == Some(&b'\n') {
                j += 3;
            } else if s.get(j + 1) == Some(&b'z') {
                j += 2;
                while j < s.len() && is_ws(s[j]) {
                    j += 1;
                }
            } else {
                j += 2;
            }
            continue;
        }
        if c == q {
            return Some(j + 1);
        }
        if c == b'\n' {
            return None;
        }
        j += 1;
    }
    None
}

/// Scan the literal part of an interpolated string starting at `i` (just after a backtick or a
/// closing brace). Returns (index past the terminator, whether the terminator was `{`).
fn scan_interp_segment(s: &[u8], mut i: usize) -> Option<(usize, bool)> {
    while i < s.len() {
        match s[i] {
            b'\\' => {
                if s.get(i + 1) == Some(&b'z') {
                    i += 2;
                    while i < s.len() && is_ws(s[i]) {
                        i += 1;
                    }
                } else if s.get(i + 1) == Some(&b'\r') && s.get(i + 2) == Some(&b'\n') {
                    i += 3;
                } else {
                    i += 2;
                }
            }
            b'`' => return Some((i + 1, false)),
            b'{' => return Some((i + 1, true)),
            b'\n' => return None,
            _ => i += 1,
        }
    }
    None
}

// ------------------------------------------------------------------------------------------------
// Literal decoders
// ------------------------------------------------------------------------------------------------

fn push_utf8_ext(out: &mut Vec<u8>, mut x: u32) {
    // Lua 5.4's extended UTF-8 (up to 2^31)
    if x < 0x80 {
        out.push(x as u8);
        return;
    }
    let mut buf = [0u8; 8];
    let mut n = 0;
    let mut mfb: u32 = 0x3f;
    loop {
        buf[n] = (0x80 | (x & 0x3f)) as u8;
        n += 1;
        x >>= 6;
        mfb >>= 1;
        if x <= mfb {
            break;
        }
    }
    buf[n] = (((!mfb) << 1) | x) as u8;
    n += 1;
    for k in (0..n).rev() {
        out.push(buf[k]);
    }
}

/// Decode the bytes a string token denotes. `raw` is the whole token, delimiters included.
/// Returns None for something that is not a well-formed literal by the union of the dialects.
pub fn decode_string(raw: &str) -> Option<Vec<u8>> {
    let s = raw.as_bytes();
    if s.is_empty() {
        return None;
    }
    if s[0] == b'[' {
        let level = long_bracket_level(s, 0)?;
        let end = skip_long_bracket(s, 0, level)?;
        if end != s.len() {
            return None;
        }
        let body = &s[level + 2..s.len() - level - 2];
        let mut out = Vec::with_capacity(body.len());
        let mut i = 0;
        // first newline dropped
        if body.first() == Some(&b'\r') {
            i = if body.get(1) == Some(&b'\n') { 2 } else { 1 };
        } else if body.first() == Some(&b'\n') {
            i = if body.get(1) == Some(&b'\r') { 2 } else { 1 };
        }
        while i < body.len() {
            match body[i] {
                b'\r' => {
                    out.push(b'\n');
                    i += if body.get(i + 1) == Some(&b'\n') { 2 } else { 1 };
                }
                b'\n' => {
                    out.push(b'\n');
                    i += if body.get(i + 1) == Some(&b'\r') { 2 } else { 1 };
                }
                c => {
                    out.push(c);
                    i += 1;
                }
            }
        }
        return Some(out);
    }
    let q = s[0];
    if (q != b'"' && q != b'\'') || s.len() < 2 || s[s.len() - 1] != q {
        return None;
    }
    decode_escapes(&s[1..s.len() - 1])
}

pub fn decode_escapes(body: &[u8]) -> Option<Vec<u8>> {
    let mut out = Vec::with_capacity(body.len());
    let mut i = 0;
    while i < body.len() {
        let c = body[i];
        if c != b'\\' {
            out.push(c);
            i += 1;
            continue;
        }
        i += 1;
        let e = *body.get(i)?;
        match e {
            b'a' => out.push(7),
            b'b' => out.push(8),
            b'f' => out.push(12),
            b'n' => out.push(b'\n'),
            b'r' => out.push(b'\r'),
            b't' => out.push(b'\t'),
            b'v' => out.push(11),
            b'\n' => {
                out.push(b'\n');
                if body.get(i + 1) == Some(&b'\r') {
                    i += 1;
                }
            }
            b'\r' => {
                out.push(b'\n');
                if body.get(i + 1) == Some(&b'\n') {
                    i += 1;
                }
            }
            b'z' => {
                while body.get(i + 1).is_some_and(|c| is_ws(*c)) {
                    i += 1;
                }
            }
            b'x' => {
                let h1 = (*body.get(i + 1)? as char).to_digit(16)?;
                let h2 = (*body.get(i + 2)? as char).to_digit(16)?;
                out.push((h1 * 16 + h2) as u8);
                i += 2;
            }
            b'u' => {
                if body.get(i + 1) != Some(&b'{') {
                    return None;
                }
                let mut j = i + 2;
                let mut v: u64 = 0;
                let mut n = 0;
                while let Some(d) = body.get(j).and_then(|c| (*c as char).to_digit(16)) {
                    v = v * 16 + d as u64;
                    if v > 0x7fff_ffff {
                        return None;
                    }
                    n += 1;
                    j += 1;
                }
                if n == 0 || body.get(j) != Some(&b'}') {
                    return None;
                }
                push_utf8_ext(&mut out, v as u32);
                i = j;
            }
            d if d.is_ascii_digit() => {
                let mut v: u32 = 0;
                let mut n = 0;
                while n < 3 {
                    match body.get(i + n) {
                        Some(c) if c.is_ascii_digit() => {
                            v = v * 10 + (*c - b'0') as u32;
                            n += 1;
                        }
                        _ => break,
                    }
                }
                if v > 255 {
                    return None;
                }
                out.push(v as u8);
                i += n - 1;
            }
            // `\"`, `\'`, `\\` and (Lua 5.1 / Luau) any other character stand for themselves
            other => out.push(other),
        }
        i += 1;
    }
    Some(out)
}

#[derive(Clone, Debug, PartialEq)]
pub enum NumVal {
    /// an integer-typed literal (value modulo 2^64 for hexadecimal ones)
    Int(u64),
    /// a float-typed literal, by bit pattern
    Float(u64),
    /// LuaJIT 64-bit integers
    I64(u64),
    U64(u64),
    /// LuaJIT imaginary literal
    Imag(u64),
    /// not understood by the decoder: compared textually
    Raw(String),
}

fn hex_float(t: &str) -> Option<f64> {
    // t is without the 0x prefix
    let (mant, exp) = match t.find(['p', 'P']) {
        Some(k) => (&t[..k], t[k + 1..].parse::<i32>().ok()?),
        None => (t, 0),
    };
    let (ip, fp) = match mant.find('.') {
        Some(k) => (&mant[..k], &mant[k + 1..]),
        None => (mant, ""),
    };
    if ip.is_empty() && fp.is_empty() {
        return None;
    }
    let mut v: f64 = 0.0;
    for c in ip.chars() {
        v = v * 16.0 + c.to_digit(16)? as f64;
    }
    let mut scale = 1.0 / 16.0;
    for c in fp.chars() {
        v += c.to_digit(16)? as f64 * scale;
        scale /= 16.0;
    }
    Some(v * (2.0f64).powi(exp))
}

/// Decode a numeric literal. `int_subtype`: whether the dialect distinguishes integers from floats
/// (Lua 5.3, 5.4 and the permissive `All`).
pub fn decode_number(text: &str, int_subtype: bool) -> NumVal {
    let lower = text.to_ascii_lowercase().replace('_', "");
    let t = lower.as_str();
    // LuaJIT suffixes
    if let Some(body) = t.strip_suffix("ull") {
        if let Some(v) = int_body(body) {
            return NumVal::U64(v);
        }
        return NumVal::Raw(lower.clone());
    }
    if let Some(body) = t.strip_suffix("ll") {
        if let Some(v) = int_body(body) {
            return NumVal::I64(v);
        }
        return NumVal::Raw(lower.clone());
    }
    if !t.starts_with("0x") {
        if let Some(body) = t.strip_suffix('i') {
            if let Ok(f) = body.parse::<f64>() {
                return NumVal::Imag(f.to_bits());
            }
            return NumVal::Raw(lower.clone());
        }
    }
    if let Some(h) = t.strip_prefix("0x") {
        if h.contains('.') || h.contains('p') {
            return match hex_float(h) {
                Some(f) => NumVal::Float(f.to_bits()),
                None => NumVal::Raw(lower.clone()),
            };
        }
        if h.is_empty() || !h.bytes().all(|c| c.is_ascii_hexdigit()) {
            return NumVal::Raw(lower.clone());
        }
        if int_subtype {
            let mut v: u64 = 0;
            for c in h.chars() {
                v = v.wrapping_mul(16).wrapping_add(c.to_digit(16).unwrap() as u64);
            }
            return NumVal::Int(v);
        }
        let mut f: f64 = 0.0;
        for c in h.chars() {
            f = f * 16.0 + c.to_digit(16).unwrap() as f64;
        }
        return NumVal::Float(f.to_bits());
    }
    if let Some(b) = t.strip_prefix("0b") {
        if b.is_empty() || !b.bytes().all(|c| c == b'0' || c == b'1') {
            return NumVal::Raw(lower.clone());
        }
        let mut f: f64 = 0.0;
        for c in b.bytes() {
            f = f * 2.0 + (c - b'0') as f64;
        }
        return NumVal::Float(f.to_bits());
    }
    let is_int = t.bytes().all(|c| c.is_ascii_digit());
    if is_int && int_subtype {
        if let Ok(v) = t.parse::<i64>() {
            return NumVal::Int(v as u64);
        }
    }
    match t.parse::<f64>() {
        Ok(f) => NumVal::Float(f.to_bits()),
        Err(_) => NumVal::Raw(lower.clone()),
    }
}

fn int_body(body: &str) -> Option<u64> {
    if let Some(h) = body.strip_prefix("0x") {
        if h.is_empty() {
            return None;
        }
        let mut v: u64 = 0;
        for c in h.chars() {
            v = v.wrapping_mul(16).wrapping_add(c.to_digit(16)? as u64);
        }
        Some(v)
    } else {
        if body.is_empty() {
            return None;
        }
        let mut v: u64 = 0;
        for c in body.chars() {
            v = v.wrapping_mul(10).wrapping_add(c.to_digit(10)? as u64);
        }
        Some(v)
    }
}

// ------------------------------------------------------------------------------------------------
// Token stream TS(text) and comment census CC(text)
// ------------------------------------------------------------------------------------------------

#[derive(Clone, Debug, PartialEq)]
pub enum TsItem {
    Name(String),
    Num(NumVal),
    Str(Vec<u8>),
    /// a maximal run of adjacent symbol tokens with `( ) ; ,` removed, concatenated
    Sym(String),
    Interp(String),
}

impl TsItem {
    pub fn show(&self) -> String {
        match self {
            TsItem::Name(s) => s.clone(),
            TsItem::Num(n) => format!("{n:?}"),
            TsItem::Str(b) => format!("{:?}", String::from_utf8_lossy(b)),
            TsItem::Sym(s) => s.clone(),
            TsItem::Interp(s) => s.clone(),
        }
    }
}

const KEYWORDS: [&str; 22] = [
    "and", "break", "do", "else", "elseif", "end", "false", "for", "function", "goto", "if", "in",
    "local", "nil", "not", "or", "repeat", "return", "then", "true", "until", "while",
];

pub fn is_keyword(s: &str) -> bool {
    KEYWORDS.contains(&s)
}

/// TS(text): significant tokens with `( ) ; ,` removed, literals replaced by decoded values, a
/// leading `|`/`&` of a Luau union/intersection dropped, adjacent symbols merged.
pub fn token_stream(lx: &Lexed, int_subtype: bool) -> Vec<TsItem> {
    let mut out: Vec<TsItem> = Vec::new();
    let mut prev_sig: Option<(TokKind, &str)> = None; // previous token before any removal
    let mut last_was_sym_adjacent = false;
    for t in lx.toks() {
        let text = lx.text(t);
        let this = (t.kind, text);
        match t.kind {
            TokKind::Sym => {
                let drop = matches!(text, "(" | ")" | ";" | ",") || {
                    // leading `|` / `&` of a type: the previous token cannot end a type or an
                    // expression
                    (text == "|" || text == "&")
                        && match prev_sig {
                            None => true,
                            Some((TokKind::Sym, p)) => {
                                // `>>` may be two closing generics brackets
                                !(p == "..." || p.ends_with([')', ']', '}', '>', '?']))
                            }
                            Some((TokKind::Name, p)) => {
                                is_keyword(p) && !matches!(p, "end" | "nil" | "true" | "false")
                            }
                            _ => false,
                        }
                };
                if !drop {
                    if last_was_sym_adjacent {
                        if let Some(TsItem::Sym(s)) = out.last_mut() {
                            s.push_str(text);
                        }
                    } else {
                        out.push(TsItem::Sym(text.to_string()));
                    }
                    last_was_sym_adjacent = true;
                }
            }
            TokKind::Name => {
                out.push(TsItem::Name(text.to_string()));
                last_was_sym_adjacent = false;
            }
            TokKind::Number => {
                out.push(TsItem::Num(decode_number(text, int_subtype)));
                last_was_sym_adjacent = false;
            }
            TokKind::Str => {
                out.push(match decode_string(text) {
                    Some(b) => TsItem::Str(b),
                    None => TsItem::Interp(format!("<undecodable {text}>")),
                });
                last_was_sym_adjacent = false;
            }
            TokKind::InterpSeg => {
                out.push(TsItem::Interp(text.to_string()));
                last_was_sym_adjacent = false;
            }
        }
        prev_sig = Some(this);
    }
    out
}

#[derive(Clone, Debug, PartialEq, Eq, PartialOrd, Ord, Hash)]
pub struct Comment {
    /// 'l' line, 'b' block, 's' shebang
    pub kind: char,
    pub level: usize,
    pub text: String,
}

/// CC(text): all comments in source order, under the two permitted normalisations.
pub fn comment_census(lx: &Lexed) -> Vec<Comment> {
    let mut out = Vec::new();
    for v in lx.trivia() {
        let raw = &lx.src[v.start..v.end];
        match v.kind {
            TrivKind::Ws => {}
            TrivKind::LineComment => out.push(Comment {
                kind: 'l',
                level: 0,
                text: raw[2..].trim_end().to_string(),
            }),
            TrivKind::BlockComment(level) => out.push(Comment {
                kind: 'b',
                level,
                text: raw[2 + level + 2..raw.len() - level - 2].replace("\r\n", "\n"),
            }),
            TrivKind::Shebang => out.push(Comment {
                kind: 's',
                level: 0,
                text: raw.trim_end().to_string(),
            }),
        }
    }
    out
}

/// Byte mask: true for bytes that are *contents* of string literals (quoted, long, interpolated
/// literal parts) — including the delimiters.
pub fn string_mask(lx: &Lexed) -> Vec<bool> {
    let mut m = vec![false; lx.src.len()];
    for t in lx.toks() {
        if matches!(t.kind, TokKind::Str | TokKind::InterpSeg) {
            for b in &mut m[t.start..t.end] {
                *b = true;
            }
        }
    }
    m
}

/// Byte mask: true for bytes inside block comments (delimiters included).
pub fn block_comment_mask(lx: &Lexed) -> Vec<bool> {
    let mut m = vec![false; lx.src.len()];
    for v in lx.trivia() {
        if let TrivKind::BlockComment(_) = v.kind {
            for b in &mut m[v.start..v.end] {
                *b = true;
            }
        }
    }
    m
}
