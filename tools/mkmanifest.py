#!/usr/bin/env python3
"""Regenerates MANIFEST.json from the table below (developer tool)."""
import json, os, subprocess
root = os.path.dirname(os.path.dirname(os.path.abspath(__file__)))
hooks = subprocess.run(["git", "-C", "/repo", "log", "--format=%H %s"], capture_output=True, text=True).stdout.splitlines()
hook_commits = [l.split()[0] for l in hooks if " verif hooks" in l]

CHECKS = {
 "C01": ("exploration", "7 C01", "own full_moon re-parse + own lexer over corpus x configuration grid x critical widths, generated programs and corpus mutants",
         "Every observed execution of format_code on the pinned corpus grid (370 files x 12 option rows x up to 9 widths, critical widths, ranges, sort_requires) and on seeded generated/mutated programs was re-parsed under the same syntax; a run reports how many distinct non-trivial (program, configuration) pairs it judged. This is the right level because the property is a universally quantified statement over programs x configurations that only an oracle running over many executions can probe; nothing here is a proof."),
 "C02": ("exploration", "7 C02", "semantic normal form N(parse(in)) = N(parse(out)) plus own-lexer token-stream equality over the shared library workload",
         "Input and output of every evaluation are compared by a checker-side normal form that erases only the differences the property allows (trivia, redundant parentheses outside multi-value positions, separators, quote/escape/number spelling, call sugar) and by an independent token stream; held on the executions produced."),
 "C03": ("exploration", "7 C03", "own-lexer comment census (multiset of kind, level, text) and token stream, input vs output",
         "Every comment of every evaluated program is accounted for in the output under the two permitted normalisations; known comment-slot defects of the unchanged tree are listed by slot signature in known_findings.jsonl."),
 "C04": ("exploration", "7 C04", "exhaustive enumeration of string-literal bodies / numeric spellings; own literal decoders on input vs output literal, paired by position",
         "The escape-relevant body space is enumerated completely up to the stated length bound (and numerals from a per-dialect grammar), every literal is pushed through the real formatter in 4 positions x 4 quote styles x 2 line endings and decoded on both sides by the checker's own decoder; complete within the bound, silent beyond it."),
 "C05": ("exploration", "7 C05", "exhaustive small-scope enumeration of operator pairs x parenthesis positions x contexts x width classes; normal-form (tree shape) and re-parse oracle; H1 trace measures paths",
         "Every operator pair (all precedence levels, both associativities), every parenthesis position of the templates, 15 contexts, short/long operands and 4 width classes are enumerated completely at depth 2 (depth 3 over precedence-class representatives in the thorough tier); the hook trace shows that both the single-line and the hanging parenthesis rule were evaluated."),
 "C06": ("exploration", "7 C06", "byte comparison of format(format(p)) with format(p) over corpus grid + critical widths (pinned) and tame generated programs (seeded)",
         "Second-pass equality checked on every evaluation; the unchanged tree is not idempotent at many narrow/critical widths (known findings keyed by statement hash), so the seeded part is restricted to the region where idempotence holds today (ordinary code, width >= 120) and the pinned part carries the regression power."),
 "C07": ("exploration", "7 C07", "catch_unwind + subprocess abort attribution + logical step (tick) budget + parser agreement over valid, extreme and destroyed inputs",
         "Panics, aborts, step-budget overruns and accept/reject disagreement with the checker's parser are observed per evaluation; wall-clock is never a verdict."),
 "C10": ("exploration", "7 C10", "byte-level line-ending / indentation / end-of-file monitor on outputs, masked by own-lexer string spans",
         "Every output byte outside string contents is checked against the configured line ending and indent settings for LF/CRLF/mixed inputs."),
}
NOT_YET = {}
checks = []
for pid, (cat, ref, tech, text) in sorted(CHECKS.items()):
    checks.append({
        "property_id": pid,
        "quick_cmd": f"./check {pid} quick",
        "thorough_cmd": f"./check {pid} thorough",
        "evidence_file": f"/verif/evidence/{pid}.json",
        "replay_cmd_template": "./check replay {path}",
        "engine": "sv",
        "level_claimed": {"category": cat, "text": text, "design_ref": f"DESIGN.md §{ref}"},
        "level_note": "Trusted base: full_moon 1.2.0 as syntax oracle (guarded by the checker's own lexer), the harness's generators and oracles (validated by self-test mutants, DESIGN §10), rustc. Held = held on the executions of this run only.",
        "technique": tech,
    })
props = [json.loads(l)["id"] for l in open(os.path.join(root, "properties.jsonl"))]
na = [{"property_id": p, "reason": NOT_YET.get(p, "check under construction in this session; not claimed until its monitor has been validated on the unchanged tree")} for p in props if p not in CHECKS]
m = {
 "version": 1,
 "setup_cmd": "./check build",
 "hooks": {
   "guard": "cargo feature `verif` (cfg(feature = \"verif\"))",
   "enable": "--features verif (the harness crate depends on stylua with features [verif, luau, lua54, luajit, editorconfig]; the hooked CLI is built with --features verif,luau,lua54,luajit into /verif/target/cli)",
   "baseline_off_cmd": "cd /repo && cargo test --workspace --no-fail-fast --offline",
   "source_commits": hook_commits,
   "add_only": True,
 },
 "engines": [
   {"name": "sv", "path": "/verif/harness", "serves_properties": sorted(CHECKS), "kind_free_text": "Rust harness linked against stylua_lib built from /repo's working tree with the verif hooks: workload generators, own lexer / normal form / census oracles, per-property runtime monitors, 16 worker subprocesses"},
 ],
 "checks": checks,
 "not_applicable": na,
 "notes": "Technique family: runtime monitoring. ./check <ID> quick|thorough rebuilds the harness from /repo's working tree, runs the workload in worker subprocesses, adjudicates findings against /verif/known_findings.jsonl (open entries => KNOWN-FINDING lines, anything else => VIOLATION + replay file under /verif/replays) and rewrites /verif/evidence/<ID>.json. Exit 3 = harness error or nothing observed (never a verdict).",
}
json.dump(m, open(os.path.join(root, "MANIFEST.json"), "w"), indent=1)
print("wrote MANIFEST.json with", len(checks), "checks;", len(na), "not claimed")
