#!/usr/bin/env python3
"""Regenerates MANIFEST.json from the table below (developer tool)."""
import json, os, subprocess
root = os.path.dirname(os.path.dirname(os.path.abspath(__file__)))
hooks = subprocess.run(["git", "-C", "/repo", "log", "--format=%H %s"], capture_output=True, text=True).stdout.splitlines()
hook_commits = [l.split()[0] for l in hooks if " verif hooks" in l]

CHECKS = {
 "C01": ("exploration", "7 C01", "own full_moon re-parse + own lexer over corpus x configuration grid x critical widths, generated programs and corpus mutants",
         "Every observed execution of format_code on the pinned corpus grid (370 files x 12 option rows x up to 9 widths, critical widths, ranges, sort_requires) and on seeded generated/mutated programs was re-parsed under the same syntax; a run reports how many distinct non-trivial (program, configuration) pairs it judged. This is the right level because the property is a universally quantified statement over programs x configurations that only an oracle running over many executions can probe; nothing here is a proof."),
 "C02": ("exploration", "7 C02", "semantic normal form N(parse(in)) = N(parse(out)) plus own-lexer token-stream equality over the shared library workload",
         "Input and output of every evaluation are compared by a checker-side normal form that erases only the differences the property allows (trivia, redundant parentheses outside multi-value positions, separators, quote/escape/number spelling, call sugar) and by an independent token stream; held on the executions produced."),
 "C03": ("exploration", "7 C03", "own-lexer comment census (multiset of kind, level, text) and token stream, input vs output",
         "Every comment of every evaluated program is accounted for in the output under the two permitted normalisations; known comment-slot defects of the unchanged tree are listed by slot signature in known_findings.jsonl."),
 "C04": ("exploration", "7 C04", "exhaustive enumeration of string-literal bodies / numeric spellings; own literal decoders on input vs output literal, paired by position",
         "The escape-relevant body space is enumerated completely up to the stated length bound (and numerals from a per-dialect grammar), every literal is pushed through the real formatter in 4 positions x 4 quote styles x 2 line endings and decoded on both sides by the checker's own decoder; complete within the bound, silent beyond it."),
 "C05": ("exploration", "7 C05", "exhaustive small-scope enumeration of operator pairs x parenthesis positions x contexts x width classes; normal-form (tree shape) and re-parse oracle; H1 trace measures paths",
         "Every operator pair (all precedence levels, both associativities), every parenthesis position of the templates, 15 contexts, short/long operands and 4 width classes are enumerated completely at depth 2 (depth 3 over precedence-class representatives in the thorough tier); the hook trace shows that both the single-line and the hanging parenthesis rule were evaluated."),
 "C06": ("exploration", "7 C06", "byte comparison of format(format(p)) with format(p) over corpus grid + critical widths, re-spaced canonical text, block-comment and empty-line enumerations, CRLF corpus, collapse templates (pinned) and tame generated programs (seeded)",
         "Second-pass equality checked on every evaluation; the unchanged tree is not idempotent at many narrow/critical widths (known findings keyed by statement hash), so the seeded part is restricted to the region where idempotence holds today (ordinary code, width >= 120) and the pinned part carries the regression power."),
 "C07": ("exploration", "7 C07", "catch_unwind + subprocess abort attribution + logical step (tick) budget and growth law over nesting-depth ramps + parser agreement over valid, extreme and destroyed inputs; every third evaluation repeated with OutputVerification::Full; Miri leg (thorough); release + debug-assertions profile",
         "Panics, aborts, step-budget overruns and accept/reject disagreement with the checker's parser are observed per evaluation; wall-clock is never a verdict."),
 "C08": ("exploration", "7 C08", "own model of the ignore directives (per block state) over statement inventories; ordered verbatim-slice search + differential run with defused directives",
         "Every model-ignored statement of pinned templates (14 statement kinds x directive forms x tails x neighbours x depth), of the repository's ignore inputs and of generated programs with inserted directives must reappear byte for byte, and unrelated statements must be formatted as without the directives."),
 "C09": ("exploration", "7 C09", "segment/region matching of range output against input (outside the range) and against the whole-file output (inside), by pre-order statement inventory",
         "For statement-aligned, mid-token, nested, open-ended, empty and out-of-bounds ranges on the corpus, on templates (every statement pair) and on generated programs: text outside the affected statements is compared byte for byte, affected regions are compared with the whole-file run."),
 "C11": ("exploration", "7 C11", "per-token / per-call-site / per-function-header rule monitor over the re-lexed and re-parsed output for all 80 combinations of the three options",
         "Every quoted string, call site (with its suffix context) and function header of every output is judged against the rule of the configured value on the corpus, 12 templates x 80 combinations x 3 widths, generated programs and mutants."),
 "C12": ("exploration", "7 C12", "independent model of require grouping / freezing / stable sort vs the per-statement normal-form sequence of the output; comment census",
         "For pinned programs, every corpus file and seeded require-heavy top levels (with ignore directives, regions and ranges) the output's top-level statement sequence must be exactly the permutation the model computes; with the option off the order must not change."),
 "C10": ("exploration", "7 C10", "byte-level line-ending / indentation / end-of-file monitor on outputs, masked by own-lexer string spans",
         "Every output byte outside string contents is checked against the configured line ending and indent settings for LF/CRLF/mixed inputs."),
}
CLI = {
 "C13": ("exploration", "7 C13", "external observation of the real binary on generated trees: strace event log (no write-intent syscall in the tree), before/after snapshots (bytes, mtime, inode, mode), exit-status and diff-set model",
         "Each execution of `stylua --check` on pinned class combinations (9 outcome classes x 4 output formats x argv orders) and seeded random trees is judged by a syscall log, a full snapshot comparison, a three-valued exit-status model built from the library reference and the set of files for which a diff was printed."),
 "C14": ("fault_enumeration", "7 C14", "fault enumeration over file outcome classes (unparseable, invalid UTF-8, verify-fail, injected crash, strace-injected EACCES on read and on write) in every order; snapshots + strace write-set + library reference",
         "Every sequence of outcome classes up to length 2 (3-4 thorough) on argv and inside directories is executed in write mode; failing files must keep their bytes, all others must equal the library output, already formatted files must not be opened for writing, exit status 2 iff a failure."),
 "C15": ("exploration", "7 C15", "documentation-derived configuration-search model vs the file contents the real binary produces; each config file carries a distinct indent_width so the applied configuration is readable off the output; library reference under the model's Config",
         "Every placement subset of stylua.toml/.stylua.toml/.editorconfig below, at and above the working directory, XDG/HOME locations, --config-path spellings, override subsets, target shapes (files, directories, stdin, absolute, `..`) in a pinned grid plus seeded random trees is executed and compared byte for byte with the library's output under the configuration the documented search finds."),
 "C16": ("exploration", "7 C16", "documentation-derived selection model (gitignore subset, globs, hidden, explicit paths) vs observed processing: strace read-opens per canonical path (exactly once) and content changes; undocumented combinations generated but not judged",
         "A fixed tree x 27 argument lists x ignore/hidden/glob option combinations (pinned) and seeded random trees and ignore files; a file is judged only when every reading of the documentation agrees."),
 "C20": ("exploration", "7 C20", "exhaustive option x value x carrier enumeration (stylua.toml, .stylua.toml, flag in three casings, .editorconfig spellings) compared pairwise and with the library reference; malformed-configuration enumeration judged by exit status, snapshot and strace",
         "All 10 options x 48 documented values x every carrier are enumerated completely (423 executions, sensitivity of the probe file measured per option), 94 malformed configuration texts x 6 target shapes must exit 2 without touching a file; seeded multi-option configurations add reach."),
 "C17": ("exploration", "7 C17", "stdin-mode executions of the real binary compared byte for byte with the library reference under the resolved configuration; exit-status model; strace write-intent log and snapshots",
         "Valid / invalid / empty / CRLF / no-final-newline / multi-megabyte / chunk-fed inputs x option combinations x configuration placements for --stdin-filepath x ignore cases: stdout must equal the library output (or the input when ignored, or nothing on error), no write-intent syscall anywhere."),
 "C18": ("exploration", "7 C18", "own unified-diff and JSON appliers applied to the printed output must reproduce the library's formatted text; summary/standard formats compared as file sets",
         "All corpus files x widths, ~20 derived line-level edits per file (no final newline, CRLF, first/last line, many hunks, multi-line insertions/deletions), multi-file runs and seeded edit chains, in all four output formats."),
 "C19": ("exploration", "7 C19", "stateless exploration of all feasible schedules of the exit-status operations and worker completion orders through the H3 schedule controller; thread-count x jitter sweep; ThreadSanitizer build (thorough)",
         "For every scenario (missing path position x unparseable / unformatted / crash-injected / formatted files x check/write mode) every feasible interleaving of the main thread's and the output thread's exit-status operations with every worker completion order is executed on the real binary (complete at the granularity of the instrumented atomic; diverged schedules are inconclusive); final status and file contents must equal the model and the single-thread run. A sweep over --num-threads 1..16 with seeded jitter and a ThreadSanitizer build add reach; other shared state is only swept."),
}
NOT_YET = {}
checks = []
for pid, (cat, ref, tech, text) in sorted(CHECKS.items()):
    checks.append({
        "property_id": pid,
        "quick_cmd": f"./check {pid} quick",
        "thorough_cmd": f"./check {pid} thorough",
        "evidence_file": f"/verif/evidence/{pid}.json",
        "replay_cmd_template": "./check replay {path}",
        "engine": "sv",
        "level_claimed": {"category": cat, "text": text, "design_ref": f"DESIGN.md §{ref}"},
        "level_note": "Trusted base: full_moon 1.2.0 as syntax oracle (guarded by the checker's own lexer), the harness's generators and oracles (validated by self-test mutants, DESIGN §10), rustc. Held = held on the executions of this run only.",
        "technique": tech,
    })
for pid, (cat, ref, tech, text) in sorted(CLI.items()):
    checks.append({
        "property_id": pid,
        "quick_cmd": f"./check {pid} quick",
        "thorough_cmd": f"./check {pid} thorough",
        "evidence_file": f"/verif/evidence/{pid}.json",
        "replay_cmd_template": "./check replay {path}",
        "engine": "cli-monitors",
        "level_claimed": {"category": cat, "text": text, "design_ref": f"DESIGN.md §{ref}"},
        "level_note": "Trusted base: strace's syscall log, the file system, the library reference `sv libfmt` (stylua_lib built from the same tree, Config constructed from Rust enum variants), the Python models written from the documentation. Held = held on the executions of this run only.",
        "technique": tech,
    })
CHECKS.update(CLI)
checks.sort(key=lambda c: c["property_id"])
props = [json.loads(l)["id"] for l in open(os.path.join(root, "properties.jsonl"))]
na = [{"property_id": p, "reason": NOT_YET.get(p, "check under construction in this session; not claimed until its monitor has been validated on the unchanged tree")} for p in props if p not in CHECKS]
m = {
 "version": 1,
 "setup_cmd": "./check build",
 "hooks": {
   "guard": "cargo feature `verif` (cfg(feature = \"verif\"))",
   "enable": "--features verif (the harness crate depends on stylua with features [verif, luau, lua54, luajit, editorconfig]; the hooked CLI is built with --features verif,luau,lua54,luajit into /verif/target/cli)",
   "baseline_off_cmd": "cd /repo && cargo test --workspace --no-fail-fast --offline",
   "source_commits": hook_commits,
   "add_only": True,
 },
 "engines": [
   {"name": "cli-monitors", "path": "/verif/cli", "serves_properties": sorted(CLI), "kind_free_text": "Python 3 (stdlib) monitors observing the hooked stylua binary from outside: scratch trees in /dev/shm, strace event logs and fault injection, snapshots, documentation-derived models, schedule controller driver"},
   {"name": "sv", "path": "/verif/harness", "serves_properties": sorted(k for k in CHECKS if k not in CLI), "kind_free_text": "Rust harness linked against stylua_lib built from /repo's working tree with the verif hooks: workload generators, own lexer / normal form / census oracles, per-property runtime monitors, 16 worker subprocesses"},
 ],
 "checks": checks,
 "not_applicable": na,
 "notes": "Technique family: runtime monitoring. ./check <ID> quick|thorough rebuilds the harness from /repo's working tree, runs the workload in worker subprocesses, adjudicates findings against /verif/known_findings.jsonl (open entries => KNOWN-FINDING lines, anything else => VIOLATION + replay file under /verif/replays) and rewrites /verif/evidence/<ID>.json. Exit 3 = harness error or nothing observed (never a verdict).",
}
json.dump(m, open(os.path.join(root, "MANIFEST.json"), "w"), indent=1)
print("wrote MANIFEST.json with", len(checks), "checks;", len(na), "not claimed")
