#!/bin/bash
# background saturation: seeded parts of the library checks over many seeds (developer tool)
cd "$(dirname "$0")/.."
./check build >/dev/null 2>&1
for p in C01 C02 C03 C06 C08 C09 C10 C11 C12 C04 C07; do
  for s in $(seq ${1:-100} ${2:-130}); do
    out=$(SV_ONLY_SEEDED=1 SV_NO_MIRI=1 VERIF_SEED=$s ./check $p thorough 2>&1)
    echo "$out" | grep -E "^(VIOLATION|  signature|HARNESS)" | cut -c1-260 | sed "s/^/$p seed=$s: /"
    echo "$out" | tail -1
  done
done
