#!/usr/bin/env python3
"""Developer tool: copy confirmed seeded changes from /tmp/seeded-out/<id>/ to /verif/seeded/<id>/
(patch.diff, demonstration, meta.json with what was re-run, confirm.json) and print the table for
DESIGN.md §11.4."""
import glob, json, os, shutil, sys
root = os.path.dirname(os.path.dirname(os.path.abspath(__file__)))
src = "/tmp/seeded-out"
if "--src" in sys.argv:
    src = sys.argv[sys.argv.index("--src") + 1]
first_pass = {}
if os.path.exists(os.path.join(src, "first_pass.json")):
    first_pass = json.load(open(os.path.join(src, "first_pass.json")))
rejected = {"c05-b": "not a violation: `-x :: T` parses as `-(x :: T)` (full_moon and the Luau grammar give `::` higher precedence than unary operators), so dropping the parentheses does not change the program; the demonstration asserts on the text, not on the parse"}
rows = []
for d in sorted(glob.glob(os.path.join(src, "*"))):
    if not os.path.isfile(os.path.join(d, "patch.diff")):
        continue
    sid = os.path.basename(d)
    cpath = os.path.join(d, "confirm.json")
    if not os.path.exists(cpath):
        continue
    c = json.load(open(cpath))
    meta = json.load(open(os.path.join(d, "meta.json")))
    if sid in rejected:
        rows.append((sid, meta.get("property"), "REJECTED", rejected[sid], ""))
        continue
    if not c.get("confirmed"):
        rows.append((sid, meta.get("property"), "NOT CONFIRMED", str(c.get("demos"))[:200], ""))
        continue
    out = os.path.join(root, "seeded", sid)
    os.makedirs(out, exist_ok=True)
    for f in os.listdir(d):
        if f in ("patch.diff", "demo.sh", "check_json.py", "demo_cli.sh") or f.endswith(".rs") or (f.endswith((".sh", ".py", ".lua", ".txt")) and os.path.getsize(os.path.join(d, f)) < 40000):
            shutil.copy(os.path.join(d, f), os.path.join(out, f))
    meta2 = {"id": sid, "breaks_property": meta.get("property"), "summary": meta.get("summary"), "needs_to_manifest": meta.get("needs"),
             "demonstration": meta.get("demo"),
             "what_i_ran": "tools/run_seeded.py in a scratch worktree of /repo: cargo build --features verif,luau,lua54,luajit,editorconfig; cargo test --offline (153 tests must pass with the change); the demonstration with the change (must fail) and without it (must pass); ./check <property> quick (then thorough if quick was silent) with SV_REPO pointing at the patched copy",
             "confirm": c}
    if sid in first_pass:
        meta2["first_pass_detected_by"] = first_pass[sid]
    json.dump(meta2, open(os.path.join(out, "meta.json"), "w"), indent=1)
    det = c.get("detected_by", [])
    first = c.get("first_round_detected_by")
    rows.append((sid, meta.get("property"), "kept", (meta.get("summary") or "")[:150], (", ".join(det) if det else "MISSED") + (" (first pass: " + (", ".join(first_pass[sid]) or "missed") + ")" if sid in first_pass else "")))
for r in rows:
    print("| %s | %s | %s | %s | %s |" % r)
