#!/usr/bin/env python3
"""Developer tool (not a check): run the seeded part of a property's workload over many seeds and
list the distinct new-violation signatures seen. Usage: tools/saturate.py C01 thorough 1 50"""
import glob, json, os, shutil, subprocess, sys
prop, tier, a, b = sys.argv[1], sys.argv[2], int(sys.argv[3]), int(sys.argv[4])
root = os.path.dirname(os.path.dirname(os.path.abspath(__file__)))
seen = {}
for seed in range(a, b + 1):
    shutil.rmtree(os.path.join(root, "replays", prop), ignore_errors=True)
    env = dict(os.environ, SV_ONLY_SEEDED="1", VERIF_SEED=str(seed))
    p = subprocess.run([os.path.join(root, "check"), prop, tier], env=env, capture_output=True, text=True)
    last = [l for l in p.stdout.splitlines() if l.startswith(prop + " ")]
    print(seed, last[-1] if last else p.stdout[-300:] + p.stderr[-300:], flush=True)
    for f in glob.glob(os.path.join(root, "replays", prop, "*.json")):
        v = json.load(open(f))
        if v["signature"] not in seen:
            seen[v["signature"]] = v
            c = v["case"]
            print("   NEW", v["signature"], c["id"], c["cfg"]["column_width"], c["cfg"]["syntax"], "::", v["detail"][:260].replace("\n", " "), flush=True)
            os.makedirs("/tmp/sat", exist_ok=True)
            json.dump(v, open(f"/tmp/sat/{prop}-{len(seen)}.json", "w"), indent=1)
print(len(seen), "distinct signatures")
