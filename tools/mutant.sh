#!/bin/bash
# Developer tool: run checks against a mutated scratch copy of /repo.
#   tools/mutant.sh <name> <patch-file | -e 'sed-expr' file> -- <PROP tier>...
# Creates /tmp/wt-<name> (git worktree of /repo HEAD), applies the patch, runs the checks with
# SV_REPO/SV_TARGET pointing at the copy, removes worktree and build output.
set -u
name=$1; shift
wt=/tmp/wt-$name; tg=/tmp/wt-$name-target
git -C /repo worktree remove --force $wt 2>/dev/null; rm -rf $wt $tg
git -C /repo worktree add -q --detach $wt HEAD || exit 3
if [ "$1" = "-e" ]; then
  sed -i -E "$2" $wt/$3 || exit 3; shift 3
  (cd $wt && git diff --stat | tail -1)
else
  git -C $wt apply "$1" || { echo "patch failed"; git -C /repo worktree remove --force $wt; exit 3; }; shift
fi
[ "$1" = "--" ] && shift
rc=0
while [ $# -ge 2 ]; do
  echo "== $1 $2 on mutant $name"
  SV_REPO=$wt SV_TARGET=$tg /verif/check $1 $2 2>&1 | grep -E "^(VIOLATION|HARNESS|$1 )" | cut -c1-220 | tail -6
  shift 2
done
git -C /repo worktree remove --force $wt; rm -rf $wt $tg
