#!/usr/bin/env python3
"""Developer tool: confirm and evaluate seeded defects produced by independent sub-agents.

For each /tmp/seeded-out/<id>/ (or /verif/seeded/<id>/): in ONE reused scratch worktree of /repo
 1. apply patch.diff, build with the verification features, run the 153-test suite (must pass),
 2. run the demonstration test(s) with the change (must fail) and without it (must pass),
 3. run the given checks (default: the property's own check, quick then thorough if quick is
    silent) against the patched copy via SV_REPO/SV_TARGET,
and write the results to <dir>/confirm.json. Never touches /repo's working tree.

usage: tools/run_seeded.py [--src DIR] [--only id,id] [--checks C01,C02] [--skip-confirm] [--thorough]
"""
import glob, json, os, re, shutil, subprocess, sys, time

ROOT = os.path.dirname(os.path.dirname(os.path.abspath(__file__)))
WT = "/tmp/wt-seeded"
TG = "/tmp/wt-seeded-target"      # SV_TARGET for the checks
CT = "/tmp/wt-seeded-cargo"       # CARGO_TARGET_DIR for cargo test in the worktree


def sh(cmd, cwd=None, env=None, timeout=3600):
    e = dict(os.environ)
    e["CARGO_NET_OFFLINE"] = "true"
    # Python coerces the C locale to C.UTF-8 for its children (PEP 538); the demonstrations were written
    # and run under the plain C locale (byte-oriented grep patterns)
    e.pop("LC_CTYPE", None)
    e["LC_ALL"] = "C"
    if env:
        e.update(env)
    p = subprocess.run(cmd, cwd=cwd, env=e, shell=isinstance(cmd, str), capture_output=True, text=True, timeout=timeout)
    return p.returncode, p.stdout + p.stderr


def ensure_worktree():
    if not os.path.isdir(WT):
        rc, out = sh(["git", "-C", "/repo", "worktree", "add", "-q", "--detach", WT, "HEAD"])
        if rc != 0:
            raise SystemExit(out)
    else:
        sh(["git", "-C", WT, "checkout", "-q", "--detach", subprocess.run(["git", "-C", "/repo", "rev-parse", "HEAD"], capture_output=True, text=True).stdout.strip()])
    reset()


def reset():
    sh(["git", "-C", WT, "checkout", "-q", "--", "."])
    sh(["git", "-C", WT, "clean", "-fdq", "tests", "src"])


def tests_summary(out):
    passed = sum(int(m.group(1)) for m in re.finditer(r"test result: \w+\. (\d+) passed", out))
    failed = sum(int(m.group(1)) for m in re.finditer(r"test result: \w+\. \d+ passed; (\d+) failed", out))
    return passed, failed


def main():
    args = sys.argv[1:]
    src = "/tmp/seeded-out"
    only = None
    checks_override = None
    skip_confirm = False
    force_thorough = False
    i = 0
    while i < len(args):
        if args[i] == "--src":
            src = args[i + 1]; i += 2
        elif args[i] == "--only":
            only = args[i + 1].split(","); i += 2
        elif args[i] == "--checks":
            checks_override = args[i + 1].split(","); i += 2
        elif args[i] == "--skip-confirm":
            skip_confirm = True; i += 1
        elif args[i] == "--thorough":
            force_thorough = True; i += 1
        else:
            i += 1
    ensure_worktree()
    dirs = sorted(d for d in glob.glob(os.path.join(src, "*")) if os.path.isfile(os.path.join(d, "patch.diff")))
    for d in dirs:
        sid = os.path.basename(d)
        if only and sid not in only:
            continue
        meta = json.load(open(os.path.join(d, "meta.json")))
        prop = meta.get("property", "C01").split()[0].strip()
        res = {"id": sid, "property": prop}
        try:
            res.update(json.load(open(os.path.join(d, "confirm.json"))))
        except Exception:
            pass
        res["at"] = time.strftime("%Y-%m-%d %H:%M:%S")
        reset()
        rc, out = sh(["git", "-C", WT, "apply", os.path.join(d, "patch.diff")])
        if rc != 0:
            res["patch_applies"] = False
            res["note"] = out[-400:]
            json.dump(res, open(os.path.join(d, "confirm.json"), "w"), indent=1)
            print(sid, "PATCH DOES NOT APPLY")
            continue
        res["patch_applies"] = True
        demos = [f for f in glob.glob(os.path.join(d, "*.rs"))]
        if not skip_confirm:
            rc, out = sh("cargo build --offline --features verif,luau,lua54,luajit,editorconfig 2>&1 | tail -3", cwd=WT, env={"CARGO_TARGET_DIR": CT})
            res["builds_with_features"] = "error" not in out.lower()
            rc, out = sh("cargo test --offline 2>&1", cwd=WT, env={"CARGO_TARGET_DIR": CT})
            p, f = tests_summary(out)
            res["suite_with_change"] = {"passed": p, "failed": f}
            # demos with change
            for demo in demos:
                shutil.copy(demo, os.path.join(WT, "tests", os.path.basename(demo)))
            dres = {}
            for demo in demos:
                name = os.path.basename(demo)[:-3]
                rc, out = sh(f"cargo test --offline --features luau,lua54,luajit --test {name} 2>&1 | tail -30", cwd=WT, env={"CARGO_TARGET_DIR": CT})
                p, f = tests_summary(out)
                dres[name] = {"with_change": {"passed": p, "failed": f}}
            # demos without change
            sh(["git", "-C", WT, "apply", "-R", os.path.join(d, "patch.diff")])
            for demo in demos:
                name = os.path.basename(demo)[:-3]
                rc, out = sh(f"cargo test --offline --features luau,lua54,luajit --test {name} 2>&1 | tail -30", cwd=WT, env={"CARGO_TARGET_DIR": CT})
                p, f = tests_summary(out)
                dres[name]["without_change"] = {"passed": p, "failed": f}
            # shell demonstrations: demo.sh <tree> <target-dir>; exit 0 = property holds, 1 = violated
            sh_demo = os.path.join(d, "demo.sh")
            if os.path.exists(sh_demo):
                # two conventions: demo.sh <tree> <target-dir>, or demo.sh <path to a built stylua binary>
                wants_binary = bool(re.search(r"demo\.sh\s+(<path to stylua|\[path/to/stylua\])", meta.get("demo") or ""))

                def run_demo():
                    if wants_binary:
                        sh("cargo build --offline --features verif,luau,lua54,luajit,editorconfig 2>&1 | tail -1", cwd=WT, env={"CARGO_TARGET_DIR": CT + "-demo"})
                        return sh(["bash", sh_demo, os.path.join(CT + "-demo", "debug", "stylua")], timeout=3600, env={"CARGO_TARGET_DIR": CT + "-demo"})
                    return sh(["bash", sh_demo, WT, CT + "-demo"], timeout=3600, env={"CARGO_TARGET_DIR": CT + "-demo"})

                sh(["git", "-C", WT, "apply", os.path.join(d, "patch.diff")])
                rc1, out1 = run_demo()
                sh(["git", "-C", WT, "apply", "-R", os.path.join(d, "patch.diff")])
                rc0, out0 = run_demo()
                dres["demo.sh"] = {"with_change": {"passed": int(rc1 == 0), "failed": int(rc1 != 0), "exit": rc1, "tail": out1[-300:]},
                                   "without_change": {"passed": int(rc0 == 0), "failed": int(rc0 != 0), "exit": rc0, "tail": out0[-300:]}}
                demos = demos + [sh_demo]
            res["demos"] = dres
            res["confirmed"] = bool(res.get("builds_with_features") and res["suite_with_change"]["failed"] == 0 and res["suite_with_change"]["passed"] >= 153
                                    and (not demos or (any(v["with_change"]["failed"] > 0 for v in dres.values()) and all(v["without_change"]["failed"] == 0 and v["without_change"]["passed"] > 0 for v in dres.values()))))
            # re-apply for the checks
            for demo in [x for x in demos if x.endswith(".rs")]:
                try:
                    os.unlink(os.path.join(WT, "tests", os.path.basename(demo)))
                except OSError:
                    pass
            sh(["git", "-C", WT, "apply", os.path.join(d, "patch.diff")])
        # run the checks
        checks = checks_override or [prop]
        cres = {}
        for c in checks:
            for tier in (["thorough"] if force_thorough else ["quick", "thorough"]):
                t0 = time.time()
                rc, out = sh([os.path.join(ROOT, "check"), c, tier], env={"SV_REPO": WT, "SV_TARGET": TG, "SV_NO_MIRI": "1"}, timeout=7200)
                viol = [l for l in out.splitlines() if l.startswith("VIOLATION")]
                sigs = sorted(set(re.findall(r"signature=(\S+)", out)))
                cres[f"{c}:{tier}"] = {"exit": rc, "violations": len(viol), "signatures": sigs[:12], "wall_s": round(time.time() - t0, 1),
                                       "summary": [l for l in out.splitlines() if l.startswith(c + " ")][-1:] or out.splitlines()[-3:]}
                if rc == 1:
                    break
        res["checks"] = cres
        res["detected_by"] = [k for k, v in cres.items() if v["exit"] == 1]
        json.dump(res, open(os.path.join(d, "confirm.json"), "w"), indent=1)
        print(sid, "confirmed=" + str(res.get("confirmed")), "detected_by=" + str(res["detected_by"]), flush=True)
    reset()


if __name__ == "__main__":
    main()
