#!/usr/bin/env python3
"""Developer tool (never run by a check): run a property's PINNED workload (quick and thorough) on
the current tree and add every violation signature that is not yet listed to
known_findings.jsonl as an `open` entry with its witness. Only used after each new signature has
been classified as a genuine defect of StyLua (see DESIGN §6).
Usage: tools/learn.py C06 [--seeds 0]"""
import glob, json, os, shutil, subprocess, sys
root = os.path.dirname(os.path.dirname(os.path.abspath(__file__)))
prop = sys.argv[1]
what = sys.argv[2] if len(sys.argv) > 2 else ""
path = os.path.join(root, "known_findings.jsonl")
known = set()
for line in open(path):
    line = line.strip()
    if line:
        k = json.loads(line)
        known.add((k["property"], k["signature"]))
added = 0
for tier in ("quick", "thorough"):
    shutil.rmtree(os.path.join(root, "replays", prop), ignore_errors=True)
    p = subprocess.run([os.path.join(root, "check"), prop, tier], env=dict(os.environ, VERIF_SEED="0"), capture_output=True, text=True)
    print(p.stdout.splitlines()[-1] if p.stdout else p.stderr[-400:])
    with open(path, "a") as out:
        for f in sorted(glob.glob(os.path.join(root, "replays", prop, "*.json"))):
            v = json.load(open(f))
            key = (prop, v["signature"])
            if key in known:
                continue
            cid = str(v["case"].get("id", ""))
            if not v["case"].get("pinned", True) and not cid.startswith(("grid", "crit", "range", "sort", "pin", "cenum", "tiny", "crlf")):
                print("  SKIP (seeded case, not learnable):", v["signature"], cid)
                continue
            known.add(key)
            added += 1
            if v["signature"].startswith("cmt1:"):
                # single-comment enumeration: the case id (file, shape, token index, width) replays it
                entry = {"property": prop, "signature": v["signature"], "status": "open",
                         "what": (what + " " if what else "") + v["detail"][:110].replace("\n", " "),
                         "witness": {"id": cid, "enumeration": "one comment of the named shape inserted after token #k of the corpus file (its own comments removed)"}}
                out.write(json.dumps(entry, sort_keys=True) + "\n")
                continue
            entry = {"property": prop, "signature": v["signature"], "status": "open",
                     "what": (what + " " if what else "") + v["detail"][:160].replace("\n", " "),
                     "witness": ({"id": cid, "cfg": v["case"].get("cfg"), "range": v["case"].get("range"),
                                  "src": v["case"]["src"] if len(v["case"].get("src", "")) < 1500 else None}
                                 if "src" in v["case"] else
                                 (v["case"] if len(json.dumps(v["case"])) < 3000 else {"note": "case too large, see the pinned family", "argv": v["case"].get("argv")}))}
            out.write(json.dumps(entry, sort_keys=True) + "\n")
print("added", added)
